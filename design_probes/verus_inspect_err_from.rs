use vstd::prelude::*;
verus! {

pub struct IoErr { pub code: u8 }
pub enum MyErr { Io(IoErr), Poisoned }

impl vstd::std_specs::convert::FromSpecImpl<IoErr> for MyErr {
    open spec fn obeys_from_spec() -> bool { true }
    open spec fn from_spec(e: IoErr) -> MyErr { MyErr::Io(e) }
}
impl From<IoErr> for MyErr {
    fn from(e: IoErr) -> (r: MyErr) { MyErr::Io(e) }
}

pub struct Flag { pub v: bool }
impl Flag {
    pub uninterp spec fn poisoned_after(&self) -> bool;
    #[verifier::external_body]
    pub fn poison(&self) { unimplemented!() }
}

#[verifier::external_body]
pub fn lowlevel(x: u8) -> (r: Result<u8, IoErr>)
    ensures x < 10 ==> r is Ok
{ unimplemented!() }

pub fn conv(x: u8) -> (r: Result<u8, MyErr>)
    ensures x < 10 ==> r is Ok, r is Err ==> r->Err_0 is Io
{
    let v = lowlevel(x)?;
    Ok(v)
}

pub assume_specification<T, E, F: FnOnce(&E) -> ()> [Result::<T, E>::inspect_err] (r: Result<T, E>, f: F) -> (out: Result<T, E>)
    requires r is Err ==> f.requires((&r->Err_0,)),
    ensures out == r, r is Err ==> f.ensures((&r->Err_0,), ());

pub fn with_closure(x: u8, f: &Flag) -> (r: Result<u8, MyErr>)
{
    let v = lowlevel(x).inspect_err(|_e| { f.poison(); })?;
    Ok(v)
}

} // verus!
fn main() {}
