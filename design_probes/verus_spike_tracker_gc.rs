#![allow(unused)]
use vstd::prelude::*;
verus! {

pub type SeqNo = u64;

pub struct DashMap { pub m: Ghost<Map<u64, usize>> }
impl DashMap {
    pub open spec fn view(&self) -> Map<u64, usize> { self.m@ }
    // R-HOF(retain): the entries are visited exactly once each, in an arbitrary order
    #[verifier::external_body]
    pub fn retain_keys(&self) -> (ks: Vec<u64>)
        ensures ks@.no_duplicates(), forall|k: u64| ks@.contains(k) <==> self@.dom().contains(k)
    { unimplemented!() }
    #[verifier::external_body]
    pub fn retain_get(&self, k: u64) -> (v: usize) requires self@.dom().contains(k) ensures v == self@[k] { unimplemented!() }
    #[verifier::external_body]
    pub fn retain_set(&mut self, k: u64, v: usize, keep: bool)
        requires old(self)@.dom().contains(k)
        ensures final(self)@ == if keep { old(self)@.insert(k, v) } else { old(self)@.remove(k) }
    { unimplemented!() }
}

pub struct Tracker { pub data: DashMap, pub seqno: u64, pub lowest_freed_instant: u64 }

// "live" = registered with a positive count
pub open spec fn live(m: Map<u64, usize>, i: u64) -> bool { m.dom().contains(i) && m[i] > 0 }

impl Tracker {
    // snapshot_tracker.rs:148-179 with R-HOF(retain) and the atomics as plain fields (gc holds the write lock)
    pub fn gc(&mut self)
        requires forall|i: u64| live(old(self).data@, i) && i > 0 ==> old(self).lowest_freed_instant < i,
        ensures
            // safety: watermark stays below every live instant > 0
            forall|i: u64| live(final(self).data@, i) && i > 0 ==> final(self).lowest_freed_instant < i,
            // nothing live is dropped, counts unchanged
            forall|i: u64| live(old(self).data@, i) ==> live(final(self).data@, i) && final(self).data@[i] == old(self).data@[i],
            final(self).lowest_freed_instant >= old(self).lowest_freed_instant,
            final(self).seqno == old(self).seqno,
    {
        let seqno_threshold = self.seqno;

        let mut lowest_retained = 0;
        let mut none_retained = true;

        let __keys = self.data.retain_keys();
        let ghost data0 = self.data@;
        let mut __i: usize = 0;
        while __i < __keys.len()
            invariant
                __i <= __keys.len(),
                __keys@.no_duplicates(),
                forall|k: u64| __keys@.contains(k) <==> data0.dom().contains(k),
                forall|k: u64| #[trigger] self.data@.dom().contains(k) ==> data0.dom().contains(k) && self.data@[k] == data0[k],
                forall|k: u64| #[trigger] data0.dom().contains(k) && !__keys@.subrange(0, __i as int).contains(k) ==> self.data@.dom().contains(k),
                forall|k: u64| #[trigger] live(data0, k) && __keys@.subrange(0, __i as int).contains(k) ==> self.data@.dom().contains(k),
                forall|k: u64| #[trigger] live(data0, k) && __keys@.subrange(0, __i as int).contains(k) && k > 0 ==> 0 < lowest_retained <= k,
                none_retained ==> lowest_retained == 0,
                self.seqno == old(self).seqno, self.lowest_freed_instant == old(self).lowest_freed_instant,
                seqno_threshold == self.seqno,
            decreases __keys.len() - __i
        {
            let k = __keys[__i];
            assert(__keys@.contains(k));
            let ghost prev = __keys@.subrange(0, __i as int);
            proof {
                if prev.contains(k) { let j = choose|j: int| 0 <= j < prev.len() && prev[j] == k; assert(__keys@[j] == k && __keys@[__i as int] == k); }
                assert(!prev.contains(k));
            }
            let v = self.data.retain_get(k);
            // ---- closure body, verbatim ----
            let __keep = {
                let should_be_retained = v > 0 || k >= seqno_threshold;

                if should_be_retained {
                    lowest_retained = match lowest_retained {
                        0 => k,
                        lo => if lo < k { lo } else { k },   // lo.min(k)
                    };
                    none_retained = false;
                }

                should_be_retained
            };
            // ---------------------------------
            self.data.retain_set(k, v, __keep);
            __i += 1;
            proof {
                let cur = __keys@.subrange(0, __i as int);
                assert(cur == prev.push(k));
                assert forall|x: u64| cur.contains(x) <==> (prev.contains(x) || x == k) by {
                    if prev.contains(x) { let j = choose|j: int| 0 <= j < prev.len() && prev[j] == x; assert(cur[j] == x); }
                    if x == k { assert(cur[cur.len() - 1] == k); }
                    if cur.contains(x) { let j = choose|j: int| 0 <= j < cur.len() && cur[j] == x; if j < prev.len() { assert(prev[j] == x); } }
                }
            }
        }

        proof {
            assert(__keys@.subrange(0, __i as int) == __keys@);
        }
        if none_retained {
            lowest_retained = seqno_threshold;
        }

        // fetch_max(lowest_retained.saturating_sub(1))
        let cand = if lowest_retained == 0 { 0 } else { lowest_retained - 1 };
        if cand > self.lowest_freed_instant { self.lowest_freed_instant = cand; }
    }
}

} // verus!
fn main() {}
