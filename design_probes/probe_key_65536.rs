use fjall::{Database, KeyspaceCreateOptions};

#[test]
fn d16_key_65536() {
    let dir = tempfile::tempdir().unwrap();
    {
        let db = Database::builder(&dir).open().unwrap();
        let ks = db.keyspace("a", KeyspaceCreateOptions::default).unwrap();
        ks.insert("before", "1").unwrap();
        let big = vec![b'k'; 65536];
        let r = std::panic::catch_unwind(std::panic::AssertUnwindSafe(|| ks.insert(big.clone(), "v")));
        println!("insert 65536-byte key: panicked={} result={:?}", r.is_err(), r.as_ref().ok().map(|x| x.as_ref().map(|_| "Ok").map_err(|e| format!("{e:?}"))));
        let after = ks.insert("after", "2");
        println!("next insert: {:?}", after.as_ref().map(|_| "Ok").map_err(|e| format!("{e:?}")));
    }
    let db = Database::builder(&dir).open();
    println!("reopen: {:?}", db.as_ref().map(|_| "Ok").map_err(|e| format!("{e:?}")));
    if let Ok(db) = db {
        let ks = db.keyspace("a", KeyspaceCreateOptions::default).unwrap();
        println!("before={:?} after={:?} len={}", ks.get("before").unwrap(), ks.get("after").unwrap(), ks.len().unwrap());
    }
}
