// prototype of the extractor rules R-ATTR, R-LOG, R-IE, R-WORLD, R-DROP on one function
use quote::ToTokens;
use syn::visit_mut::{self, VisitMut};
use syn::{parse_quote, Expr, ExprMethodCall, ImplItem, Item, Stmt};

struct Rw {
    effect_methods: Vec<(&'static str, Option<&'static str>)>, // (method, receiver suffix)
    guards: Vec<&'static str>,
    log: Vec<String>,
}

fn is_log_macro(m: &syn::Macro) -> bool {
    let p = m.path.to_token_stream().to_string().replace(' ', "");
    p.starts_with("log::")
}

impl Rw {
    fn effectful(&self, mc: &ExprMethodCall) -> bool {
        let name = mc.method.to_string();
        let recv = mc.receiver.to_token_stream().to_string().replace(' ', "");
        self.effect_methods.iter().any(|(m, suf)| *m == name && suf.map_or(true, |s| recv.ends_with(s)))
    }
}

impl VisitMut for Rw {
    fn visit_block_mut(&mut self, b: &mut syn::Block) {
        // R-LOG: drop statement-position log macros
        let before = b.stmts.len();
        b.stmts.retain(|s| match s {
            Stmt::Macro(m) => !is_log_macro(&m.mac),
            Stmt::Expr(Expr::Macro(m), _) => !is_log_macro(&m.mac),
            _ => true,
        });
        if b.stmts.len() != before { self.log.push(format!("R-LOG dropped {} stmt(s)", before - b.stmts.len())); }
        visit_mut::visit_block_mut(self, b);
    }

    fn visit_expr_mut(&mut self, e: &mut Expr) {
        // R-IE: E.inspect_err(|p| B)?  ==> match E { Ok(v) => v, Err(e) => { {let p = &e; B} return Err(e.into()); } }
        if let Expr::Try(t) = e {
            if let Expr::MethodCall(mc) = &*t.expr {
                if mc.method == "inspect_err" && mc.args.len() == 1 {
                    if let Expr::Closure(cl) = &mc.args[0] {
                        let recv = &mc.receiver;
                        let pat = &cl.inputs[0];
                        let body = &cl.body;
                        let new: Expr = parse_quote! {
                            match #recv {
                                Ok(__v) => __v,
                                Err(__e) => { { let #pat = &__e; #body; } return Err(__e.into()); }
                            }
                        };
                        *e = new;
                        self.log.push("R-IE inspect_err desugared".into());
                    }
                }
            }
        }
        // R-DROP
        if let Expr::Call(c) = e {
            if c.func.to_token_stream().to_string() == "drop" && c.args.len() == 1 {
                let a = c.args[0].to_token_stream().to_string();
                if self.guards.iter().any(|g| *g == a) {
                    let arg = &c.args[0];
                    *e = parse_quote! { drop_guard(#arg, Tracked(w)) };
                    self.log.push("R-DROP".into());
                }
            }
        }
        visit_mut::visit_expr_mut(self, e);
        // R-WORLD (after children)
        if let Expr::MethodCall(mc) = e {
            if self.effectful(mc) {
                mc.args.push(parse_quote! { Tracked(w) });
                self.log.push(format!("R-WORLD .{}", mc.method));
            }
        }
    }
    fn visit_attribute_mut(&mut self, _a: &mut syn::Attribute) {}
}

fn strip_attrs(f: &mut syn::ImplItemFn) {
    struct A;
    impl VisitMut for A {
        fn visit_expr_mut(&mut self, e: &mut Expr) {
            visit_mut::visit_expr_mut(self, e);
        }
        fn visit_local_mut(&mut self, l: &mut syn::Local) { l.attrs.clear(); visit_mut::visit_local_mut(self, l); }
        fn visit_expr_method_call_mut(&mut self, m: &mut ExprMethodCall) { m.attrs.clear(); visit_mut::visit_expr_method_call_mut(self, m); }
    }
    f.attrs.clear();
    A.visit_impl_item_fn_mut(f);
}

fn main() {
    let args: Vec<String> = std::env::args().collect();
    let src = std::fs::read_to_string(&args[1]).unwrap();
    let ty = &args[2];
    let name = &args[3];
    let file = syn::parse_file(&src).unwrap();
    for item in file.items {
        if let Item::Impl(im) = item {
            if im.trait_.is_some() { continue; }
            if im.self_ty.to_token_stream().to_string() != *ty { continue; }
            for it in im.items {
                if let ImplItem::Fn(mut f) = it {
                    if f.sig.ident != name.as_str() { continue; }
                    strip_attrs(&mut f);
                    let mut rw = Rw {
                        effect_methods: vec![
                            ("get_writer", None), ("is_poisoned", None), ("poison", None), ("next", Some(".seqno")),
                            ("write_raw", None), ("persist", None), ("insert", Some(".tree")), ("remove", Some(".tree")),
                            ("publish", None), ("allocate", None), ("maintenance", None), ("load", Some(".is_deleted")),
                            ("write_clear", None), ("clear", Some(".tree")),
                        ],
                        guards: vec!["journal_writer"],
                        log: vec![],
                    };
                    rw.visit_impl_item_fn_mut(&mut f);
                    f.sig.inputs.push(parse_quote! { Tracked(w): Tracked<&mut World> });
                    let sig = f.sig.to_token_stream().to_string();
                    let body = f.block.to_token_stream().to_string();
                    println!("// rules: {:?}", rw.log);
                    println!("pub {sig}\n/*CONTRACT*/\n{body}");
                }
            }
        }
    }
}
