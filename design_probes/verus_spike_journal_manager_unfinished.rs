#![allow(unused)]
use vstd::prelude::*;
verus! {

pub type SeqNo = u64;
pub struct IoError {}
pub enum Error { Io(IoError) }
impl vstd::std_specs::convert::FromSpecImpl<IoError> for Error {
    open spec fn obeys_from_spec() -> bool { true }
    open spec fn from_spec(e: IoError) -> Error { Error::Io(e) }
}
impl From<IoError> for Error { fn from(e: IoError) -> Error { Error::Io(e) } }
pub type Result<T> = std::result::Result<T, Error>;

// ghost world: per keyspace id: deleted flag and persisted seqno; fs: set of existing journal paths
pub struct KsG { pub deleted: bool, pub persisted: Option<u64> }
pub struct World { pub ks: Map<int, KsG>, pub files: Set<int>, pub removed: Seq<int> }

pub struct AtomicBool { pub id: Ghost<int> }
impl AtomicBool {
    #[verifier::external_body]
    pub fn load(&self, o: std::sync::atomic::Ordering, Tracked(w): Tracked<&mut World>) -> (b: bool)
        requires old(w).ks.dom().contains(self.id@)
        ensures *final(w) == *old(w), b == old(w).ks[self.id@].deleted
    { unimplemented!() }
}
pub struct Tree { pub id: Ghost<int> }
impl Tree {
    #[verifier::external_body]
    pub fn get_highest_persisted_seqno(&self, Tracked(w): Tracked<&mut World>) -> (r: Option<SeqNo>)
        requires old(w).ks.dom().contains(self.id@)
        ensures *final(w) == *old(w), r == old(w).ks[self.id@].persisted
    { unimplemented!() }
}
pub struct Keyspace { pub is_deleted: AtomicBool, pub tree: Tree }
impl Keyspace { pub open spec fn wf(&self) -> bool { self.is_deleted.id@ == self.tree.id@ } }
pub struct EvictionWatermark { pub keyspace: Keyspace, pub lsn: SeqNo }
pub struct PathBuf { pub id: Ghost<int> }
pub struct Item { pub path: PathBuf, pub size_in_bytes: u64, pub watermarks: Vec<EvictionWatermark> }
pub struct JournalManager { pub items: Vec<Item>, pub disk_space_in_bytes: u64 }

#[verifier::external_body]
pub fn remove_file(p: &PathBuf, Tracked(w): Tracked<&mut World>) -> (r: std::result::Result<(), IoError>)
    ensures final(w).ks == old(w).ks,
        r is Ok ==> final(w).files == old(w).files.remove(p.id@) && final(w).removed == old(w).removed.push(p.id@),
        r is Err ==> *final(w) == *old(w),
{ unimplemented!() }

// P-EVICT guard as a spec function: an item may go iff every watermark is deleted-or-flushed
pub open spec fn wm_ok(wm: EvictionWatermark, w: &World) -> bool {
    w.ks[wm.keyspace.tree.id@].deleted || (w.ks[wm.keyspace.tree.id@].persisted matches Some(p) && p >= wm.lsn)
}
pub open spec fn evictable(it: &Item, w: &World) -> bool {
    forall|j: int| 0 <= j < it.watermarks@.len() ==> wm_ok(#[trigger] it.watermarks@[j], w)
}
pub open spec fn items_wf(items: Seq<Item>, w: &World) -> bool {
    forall|i: int, j: int| 0 <= i < items.len() && 0 <= j < items[i].watermarks@.len() ==>
        (#[trigger] items[i].watermarks@[j]).keyspace.wf() && w.ks.dom().contains(items[i].watermarks@[j].keyspace.tree.id@)
}

impl JournalManager {
    // journal/manager.rs:115-167, rules R-LOG, R-WORLD, R-HOF(inspect_err-log-only dropped)
    #[verifier::exec_allows_no_decreases_clause]
    pub fn maintenance(&mut self, Tracked(w): Tracked<&mut World>) -> (r: Result<()>)
        requires items_wf(old(self).items@, &*old(w)),
        ensures
            final(w).ks == old(w).ks,
            // oldest first: what was removed is a prefix of the old queue, each evictable; the rest is kept in order
            exists|n: int| 0 <= n <= old(self).items@.len()
                && final(self).items@ == old(self).items@.subrange(n, old(self).items@.len() as int)
                && (forall|i: int| 0 <= i < n ==> evictable(&old(self).items@[i], &*old(w)))
                && final(w).removed.len() <= old(w).removed.len() + n + 0,
    {
        loop
            invariant
                w.ks == old(w).ks,
                items_wf(self.items@, &*w),
                exists|n: int| 0 <= n <= old(self).items@.len()
                    && self.items@ == old(self).items@.subrange(n, old(self).items@.len() as int)
                    && (forall|i: int| 0 <= i < n ==> evictable(&old(self).items@[i], &*old(w)))
                    && w.removed.len() <= old(w).removed.len() + n,
        {
            let Some(item) = self.items.first() else {
                return Ok(());
            };

            for item in it: item.watermarks.iter()
                invariant *w == *old(w) || w.ks == old(w).ks
            {
                // Only check keyspace seqno if not deleted
                if !item
                    .keyspace
                    .is_deleted
                    .load(std::sync::atomic::Ordering::Acquire, Tracked(w))
                {
                    let Some(keyspace_seqno) = item.keyspace.tree.get_highest_persisted_seqno(Tracked(w))
                    else {
                        return Ok(());
                    };

                    if keyspace_seqno < item.lsn {
                        return Ok(());
                    }
                }
            }

            remove_file(&item.path, Tracked(w))?;

            self.disk_space_in_bytes = self.disk_space_in_bytes.saturating_sub(item.size_in_bytes);
            self.items.remove(0);
        }
    }
}

} // verus!
fn main() {}
