use vstd::prelude::*;
verus! {

pub struct DMap { pub m: Ghost<Map<u64, usize>> }
impl DMap {
    #[verifier::external_body]
    pub fn retain<F: FnMut(&u64, &mut usize) -> bool>(&mut self, f: F) { unimplemented!() }
}

pub fn gc(data: &mut DMap, threshold: u64) -> (r: u64)
{
    let mut lowest_retained = 0;
    let mut none_retained = true;

    data.retain(|kk, v| { let k = *kk;
        let should_be_retained = *v > 0 || k >= threshold;

        if should_be_retained {
            lowest_retained = match lowest_retained {
                0 => k,
                lo => if lo < k { lo } else { k },
            };
            none_retained = false;
        }

        should_be_retained
    });
    if none_retained { lowest_retained = threshold; }
    lowest_retained
}

} // verus!
fn main() {}
