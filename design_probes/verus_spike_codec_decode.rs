use vstd::prelude::*;
verus! {

// ---------- shim (trusted base) ----------
pub struct IoError { pub kind: u8 }
pub enum LsmError { Io(IoError), InvalidTag(u8), Decompress }
pub enum Error { Io(IoError), Storage(LsmError), InvalidTag(u8), InvalidTrailer, Decompress }

impl vstd::std_specs::convert::FromSpecImpl<IoError> for LsmError {
    open spec fn obeys_from_spec() -> bool { true }
    open spec fn from_spec(e: IoError) -> LsmError { LsmError::Io(e) }
}
impl From<IoError> for LsmError { fn from(e: IoError) -> LsmError { LsmError::Io(e) } }

pub type InternalKeyspaceId = u64;

#[derive(Clone, Copy, PartialEq, Eq)]
pub enum ValueType { Value, Tombstone, WeakTombstone, Indirection }
#[derive(Clone, Copy, PartialEq, Eq)]
pub enum CompressionType { None, Lz4 }

pub open spec fn vt_byte(v: ValueType) -> u8 {
    match v { ValueType::Value => 0, ValueType::Tombstone => 1, ValueType::WeakTombstone => 2, ValueType::Indirection => 3 }
}
impl vstd::std_specs::convert::FromSpecImpl<ValueType> for u8 {
    open spec fn obeys_from_spec() -> bool { true }
    open spec fn from_spec(v: ValueType) -> u8 { vt_byte(v) }
}
impl From<ValueType> for u8 {
    #[verifier::external_body]
    fn from(v: ValueType) -> u8 { unimplemented!() }
}

pub struct LittleEndian;

// Write abstraction: a sink with a ghost view of bytes accepted so far
pub trait Write: Sized {
    spec fn view(&self) -> Seq<u8>;
    fn write_all(&mut self, buf: &[u8]) -> (r: Result<(), IoError>)
        ensures r is Ok ==> final(self).view() == old(self).view() + buf@,
                r is Err ==> old(self).view().is_prefix_of(final(self).view());
    fn write_u8(&mut self, x: u8) -> (r: Result<(), IoError>)
        ensures r is Ok ==> final(self).view() == old(self).view().push(x),
                r is Err ==> old(self).view().is_prefix_of(final(self).view());
}


pub trait ByteOrder { spec fn is_le() -> bool; }
impl ByteOrder for LittleEndian { open spec fn is_le() -> bool { true } }

pub open spec fn le16(x: u16) -> Seq<u8> { seq![(x & 0xff) as u8, ((x >> 8) & 0xff) as u8] }
pub open spec fn le32(x: u32) -> Seq<u8> { le16((x & 0xffff) as u16) + le16(((x >> 16) & 0xffff) as u16) }
pub open spec fn le64(x: u64) -> Seq<u8> { le32((x & 0xffff_ffff) as u32) + le32(((x >> 32) & 0xffff_ffff) as u32) }

pub trait WriteBytesExt: Write {
    fn write_u16<B: ByteOrder>(&mut self, x: u16) -> (r: Result<(), IoError>)
        ensures r is Ok ==> final(self).view() == old(self).view() + le16(x),
                r is Err ==> old(self).view().is_prefix_of(final(self).view());
    fn write_u32<B: ByteOrder>(&mut self, x: u32) -> (r: Result<(), IoError>)
        ensures r is Ok ==> final(self).view() == old(self).view() + le32(x),
                r is Err ==> old(self).view().is_prefix_of(final(self).view());
    fn write_u64<B: ByteOrder>(&mut self, x: u64) -> (r: Result<(), IoError>)
        ensures r is Ok ==> final(self).view() == old(self).view() + le64(x),
                r is Err ==> old(self).view().is_prefix_of(final(self).view());
}

pub enum Tag { Start = 1, Item = 2, End = 3, Clear = 4 }
impl vstd::std_specs::convert::FromSpecImpl<Tag> for u8 {
    open spec fn obeys_from_spec() -> bool { true }
    open spec fn from_spec(v: Tag) -> u8 { match v { Tag::Start => 1, Tag::Item => 2, Tag::End => 3, Tag::Clear => 4 } }
}
// verbatim from entry.rs
impl From<Tag> for u8 {
    fn from(val: Tag) -> Self {
        val as Self
    }
}

pub open spec fn comp_bytes(c: CompressionType) -> Seq<u8> {
    match c { CompressionType::None => seq![0u8], CompressionType::Lz4 => seq![1u8] }
}
impl CompressionType {
    #[verifier::external_body]
    pub fn encode_into<W: Write>(&self, writer: &mut W) -> (r: Result<(), LsmError>)
        ensures r is Ok ==> final(writer).view() == old(writer).view() + comp_bytes(*self),
                r is Err ==> old(writer).view().is_prefix_of(final(writer).view()),
    { unimplemented!() }
}

pub uninterp spec fn lz4_compress_spec(v: Seq<u8>) -> Seq<u8>;
pub mod lz4_flex {
    use super::*;
    #[verifier::external_body]
    pub fn compress(v: &[u8]) -> (r: Vec<u8>) ensures r@ == lz4_compress_spec(v@) { unimplemented!() }
}

pub enum Cow<'a> { Borrowed(&'a [u8]), Owned(Vec<u8>) }
impl<'a> Cow<'a> {
    pub open spec fn view(&self) -> Seq<u8> { match self { Cow::Borrowed(b) => b@, Cow::Owned(v) => v@ } }
    #[verifier::external_body]
    pub fn len(&self) -> (r: usize) ensures r == self.view().len() { unimplemented!() }
}
impl<'a> std::ops::Deref for Cow<'a> {
    type Target = [u8];
    #[verifier::external_body]
    fn deref(&self) -> (r: &[u8]) ensures r@ == self.view() { unimplemented!() }
}

pub open spec fn stored_value(value: Seq<u8>, c: CompressionType) -> Seq<u8> {
    match c { CompressionType::None => value, CompressionType::Lz4 => lz4_compress_spec(value) }
}
pub open spec fn enc_item(keyspace_id: u64, key: Seq<u8>, value: Seq<u8>, vt: ValueType, c: CompressionType) -> Seq<u8> {
    seq![2u8, vt_byte(vt)] + comp_bytes(c) + le64(keyspace_id) + le16(key.len() as u16) + le32(value.len() as u32)
      + le32(stored_value(value, c).len() as u32) + key + stored_value(value, c)
}

// verbatim from entry.rs (minus comments/attrs), contract inserted
pub fn serialize_marker_item<W: WriteBytesExt>(
    writer: &mut W,
    keyspace_id: InternalKeyspaceId,
    key: &[u8],
    value: &[u8],
    value_type: ValueType,
    compression: CompressionType,
) -> (r: Result<(), LsmError>)
    ensures r is Ok ==> final(writer).view() == old(writer).view() + enc_item(keyspace_id, key@, value@, value_type, compression),
            r is Err ==> old(writer).view().is_prefix_of(final(writer).view()),
{
    writer.write_u8(Tag::Item.into())?;

    writer.write_u8(u8::from(value_type))?;

    compression.encode_into(writer)?;

    let compressed_value = match compression {
        CompressionType::None => Cow::Borrowed(value),

        CompressionType::Lz4 => {
            let compressed = lz4_flex::compress(value);
            Cow::Owned(compressed)
        }
    };

    writer.write_u64::<LittleEndian>(keyspace_id)?;

    writer.write_u16::<LittleEndian>(key.len() as u16)?;

    writer.write_u32::<LittleEndian>(value.len() as u32)?;

    writer.write_u32::<LittleEndian>(compressed_value.len() as u32)?;

    writer.write_all(key)?;

    writer.write_all(&compressed_value)?;

    Ok(())
}


// ---------- Read side shim ----------
pub trait Read: Sized {
    spec fn rest(&self) -> Seq<u8>;   // unread bytes
    fn read_exact(&mut self, buf: &mut [u8]) -> (r: Result<(), IoError>)
        ensures r is Ok ==> old(self).rest().len() >= old(buf)@.len()
                    && final(buf)@ == old(self).rest().subrange(0, old(buf)@.len() as int)
                    && final(self).rest() == old(self).rest().subrange(old(buf)@.len() as int, old(self).rest().len() as int),
                r is Err ==> old(self).rest().len() < old(buf)@.len();
    fn read_u8(&mut self) -> (r: Result<u8, IoError>)
        ensures r is Ok ==> old(self).rest().len() >= 1 && r->Ok_0 == old(self).rest()[0] && final(self).rest() == old(self).rest().subrange(1, old(self).rest().len() as int),
                r is Err ==> old(self).rest().len() < 1;
    fn read_u16<B: ByteOrder>(&mut self) -> (r: Result<u16, IoError>)
        ensures r is Ok ==> old(self).rest().len() >= 2 && le16(r->Ok_0) == old(self).rest().subrange(0, 2) && final(self).rest() == old(self).rest().subrange(2, old(self).rest().len() as int),
                r is Err ==> old(self).rest().len() < 2;
    fn read_u32<B: ByteOrder>(&mut self) -> (r: Result<u32, IoError>)
        ensures r is Ok ==> old(self).rest().len() >= 4 && le32(r->Ok_0) == old(self).rest().subrange(0, 4) && final(self).rest() == old(self).rest().subrange(4, old(self).rest().len() as int),
                r is Err ==> old(self).rest().len() < 4;
    fn read_u64<B: ByteOrder>(&mut self) -> (r: Result<u64, IoError>)
        ensures r is Ok ==> old(self).rest().len() >= 8 && le64(r->Ok_0) == old(self).rest().subrange(0, 8) && final(self).rest() == old(self).rest().subrange(8, old(self).rest().len() as int),
                r is Err ==> old(self).rest().len() < 8;
}

impl vstd::std_specs::convert::FromSpecImpl<IoError> for Error {
    open spec fn obeys_from_spec() -> bool { true }
    open spec fn from_spec(e: IoError) -> Error { Error::Io(e) }
}
impl From<IoError> for Error { fn from(e: IoError) -> Error { Error::Io(e) } }
impl vstd::std_specs::convert::FromSpecImpl<LsmError> for Error {
    open spec fn obeys_from_spec() -> bool { true }
    open spec fn from_spec(e: LsmError) -> Error { Error::Storage(e) }
}
impl From<LsmError> for Error { fn from(e: LsmError) -> Error { Error::Storage(e) } }

pub struct Slice { pub v: Vec<u8> }
impl Slice {
    pub open spec fn view(&self) -> Seq<u8> { self.v@ }
    #[verifier::external_body]
    pub fn from_reader<R: Read>(reader: &mut R, len: usize) -> (r: Result<Slice, IoError>)
        ensures r is Ok ==> old(reader).rest().len() >= len && r->Ok_0@ == old(reader).rest().subrange(0, len as int)
                    && final(reader).rest() == old(reader).rest().subrange(len as int, old(reader).rest().len() as int),
                r is Err ==> old(reader).rest().len() < len,
    { unimplemented!() }
}

impl vstd::std_specs::convert::TryFromSpecImpl<u8> for Tag {
    open spec fn obeys_try_from_spec() -> bool { true }
    open spec fn try_from_spec(value: u8) -> Result<Tag, Error> {
        match value { 1u8 => Ok(Tag::Start), 2u8 => Ok(Tag::Item), 3u8 => Ok(Tag::End), 4u8 => Ok(Tag::Clear), _ => Err(Error::InvalidTag(value)) }
    }
}
impl TryFrom<u8> for Tag {
    type Error = Error;

    fn try_from(value: u8) -> (r: Result<Self, Self::Error>)
        ensures r is Ok <==> (1 <= value <= 4),
    {
        use Tag::{Clear, End, Item, Start};

        match value {
            1 => Ok(Start),
            2 => Ok(Item),
            3 => Ok(End),
            4 => Ok(Clear),
            _ => Err(Error::InvalidTag(value)),
        }
    }
}

pub enum Entry {
    Start { item_count: u32, seqno: u64 },
    End(u64),
    Clear { keyspace_id: InternalKeyspaceId },
}

pub fn decode_small<R: Read>(reader: &mut R) -> (r: Result<Entry, Error>)
    ensures
        (r matches Ok(Entry::Start{item_count, seqno}) ==> old(reader).rest().len() >= 13 && old(reader).rest().subrange(0,13) == seq![1u8] + le32(item_count) + le64(seqno)
            && final(reader).rest() == old(reader).rest().subrange(13, old(reader).rest().len() as int)),
        (r matches Ok(Entry::End(c)) ==> old(reader).rest().len() >= 13 && old(reader).rest().subrange(0,13) == seq![3u8] + le64(c) + seq![70u8, 74u8, 76u8, 3u8]),
{
    match reader.read_u8()?.try_into()? {
        Tag::Start => {
            let item_count = reader.read_u32::<LittleEndian>()?;
            let seqno = reader.read_u64::<LittleEndian>()?;
            Ok(Entry::Start { item_count, seqno })
        }
        Tag::Item => { Err(Error::InvalidTrailer) }
        Tag::End => {
            let checksum = reader.read_u64::<LittleEndian>()?;

            // Check trailer
            let mut magic = [0u8; 4];
            reader.read_exact(&mut magic)?;

            if magic != [b'F', b'J', b'L', 3] {
                return Err(Error::InvalidTrailer);
            }

            Ok(Entry::End(checksum))
        }
        Tag::Clear => {
            let keyspace_id = reader.read_u64::<LittleEndian>()?;
            Ok(Entry::Clear { keyspace_id })
        }
    }
}
} // verus!
fn main() {}
