use vstd::prelude::*;
verus! {

pub struct Writer { pub n: u64 }
impl Writer {
    pub fn bump(&mut self) ensures final(self).n == old(self).n + 1 { assume(self.n < 100); self.n = self.n + 1; }
}

pub struct Guard<'a> { pub w: &'a mut Writer }

impl<'a> std::ops::Deref for Guard<'a> {
    type Target = Writer;
    fn deref(&self) -> (r: &Writer) { self.w }
}
impl<'a> std::ops::DerefMut for Guard<'a> {
    fn deref_mut(&mut self) -> (r: &mut Writer) ensures *r == *old(self).w, *final(self).w == *final(r) { self.w }
}

pub fn user(g: &mut Guard) 
    ensures final(g).w.n == old(g).w.n + 1
{
    g.bump();
}

} // verus!
fn main() {}
