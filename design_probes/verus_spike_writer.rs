#![allow(unused)]
use vstd::prelude::*;
verus! {

pub struct IoError {}
pub enum Error { Io(IoError), Other }
impl vstd::std_specs::convert::FromSpecImpl<IoError> for Error {
    open spec fn obeys_from_spec() -> bool { true }
    open spec fn from_spec(e: IoError) -> Error { Error::Io(e) }
}
impl From<IoError> for Error { fn from(e: IoError) -> Error { Error::Io(e) } }
pub type Result<T> = std::result::Result<T, Error>;
pub type SeqNo = u64;

// ---- three-tier file model -------------------------------------------------
pub struct File { pub os: Ghost<Seq<u8>>, pub synced: Ghost<Seq<u8>> }
impl File {
    #[verifier::external_body]
    pub fn sync_all(&mut self) -> (r: std::result::Result<(), IoError>)
        ensures final(self).os@ == old(self).os@,
                r is Ok ==> final(self).synced@ == old(self).os@,
                r is Err ==> final(self).synced@ == old(self).synced@,
    { unimplemented!() }
    #[verifier::external_body]
    pub fn sync_data(&mut self) -> (r: std::result::Result<(), IoError>)
        ensures final(self).os@ == old(self).os@,
                r is Ok ==> final(self).synced@ == old(self).os@,
                r is Err ==> final(self).synced@ == old(self).synced@,
    { unimplemented!() }
}
pub struct BufWriter { pub inner: File, pub buffered: Ghost<Seq<u8>> }
impl BufWriter {
    pub open spec fn logical(&self) -> Seq<u8> { self.inner.os@ + self.buffered@ }
    #[verifier::external_body]
    pub fn write_all(&mut self, data: &[u8]) -> (r: std::result::Result<(), IoError>)
        ensures
            final(self).inner.synced@ == old(self).inner.synced@,
            old(self).inner.os@.is_prefix_of(final(self).inner.os@),
            r is Ok ==> final(self).logical() == old(self).logical() + data@,
            r is Err ==> old(self).logical().is_prefix_of(final(self).logical())
                         && final(self).logical().is_prefix_of(old(self).logical() + data@),
    { unimplemented!() }
    #[verifier::external_body]
    pub fn flush(&mut self) -> (r: std::result::Result<(), IoError>)
        ensures
            final(self).inner.synced@ == old(self).inner.synced@,
            final(self).logical() == old(self).logical(),
            old(self).inner.os@.is_prefix_of(final(self).inner.os@),
            r is Ok ==> final(self).buffered@ == Seq::<u8>::empty(),
    { unimplemented!() }
    pub fn get_mut(&mut self) -> (r: &mut File)
        ensures *r == old(self).inner, final(self).inner == *final(r), final(self).buffered == old(self).buffered,
    { &mut self.inner }
}

#[derive(Clone, Copy, PartialEq, Eq)]
pub enum PersistMode { Buffer, SyncData, SyncAll }
#[derive(Clone, Copy, PartialEq, Eq)]
pub enum CompressionType { None, Lz4 }

#[verifier::external_body]
pub fn shim_panic() requires false { unimplemented!() }

pub struct Writer {
    pub file: BufWriter,
    pub buf: Vec<u8>,
    pub is_buffer_dirty: bool,
    pub compression: CompressionType,
    pub compression_threshold: usize,
}

pub uninterp spec fn enc_start(n: u32, s: u64) -> Seq<u8>;
pub uninterp spec fn enc_end(c: u64) -> Seq<u8>;
pub uninterp spec fn xxh3(b: Seq<u8>) -> u64;

pub enum Entry { Start { item_count: u32, seqno: SeqNo }, End(u64) }
impl Entry {
    #[verifier::external_body]
    pub fn encode_into(&self, w: &mut Vec<u8>) -> (r: Result<()>)
        ensures r is Ok ==> final(w)@ == old(w)@ + (match *self { Entry::Start{item_count, seqno} => enc_start(item_count, seqno), Entry::End(c) => enc_end(c) }),
    { unimplemented!() }
}

impl Writer {
    pub open spec fn wf(&self) -> bool { self.is_buffer_dirty || self.file.buffered@.len() == 0 }

    // verbatim writer.rs:203-234 minus log lines (R-LOG also removes the logging-only inspect_err closures)
    pub fn persist(&mut self, mode: PersistMode) -> (r: std::result::Result<(), IoError>)
        requires old(self).wf(),
        ensures
            final(self).wf(),
            final(self).file.logical() == old(self).file.logical(),
            old(self).file.inner.os@.is_prefix_of(final(self).file.inner.os@),
            r is Ok ==> final(self).file.buffered@.len() == 0,
            r is Ok && mode != PersistMode::Buffer ==> final(self).file.inner.synced@ == old(self).file.logical(),
    {
        if self.is_buffer_dirty {
            self.file.flush()?;
            self.is_buffer_dirty = false;
        }

        match mode {
            PersistMode::SyncAll => self.file.get_mut().sync_all(),
            PersistMode::SyncData => self.file.get_mut().sync_data(),
            PersistMode::Buffer => Ok(()),
        }
    }

    // verbatim writer.rs:237-245
    fn write_start(&mut self, item_count: u32, seqno: SeqNo) -> (r: std::result::Result<usize, Error>)
        requires old(self).buf@.len() == 0, old(self).is_buffer_dirty,
        ensures final(self).is_buffer_dirty, final(self).compression == old(self).compression, final(self).compression_threshold == old(self).compression_threshold,
            final(self).file.inner.synced@ == old(self).file.inner.synced@,
            r is Ok ==> final(self).file.logical() == old(self).file.logical() + enc_start(item_count, seqno)
                        && r->Ok_0 == enc_start(item_count, seqno).len(),
            r is Err ==> old(self).file.logical().is_prefix_of(final(self).file.logical())
                        && final(self).file.logical().is_prefix_of(old(self).file.logical() + enc_start(item_count, seqno)),
    {
        if !(self.buf.is_empty()) { shim_panic(); }

        Entry::Start { item_count, seqno }.encode_into(&mut self.buf)?;

        self.file.write_all(&self.buf)?;

        Ok(self.buf.len())
    }
}


#[derive(Clone, Copy, PartialEq, Eq)]
pub enum ValueType { Value, Tombstone, WeakTombstone }
pub struct Slice { pub v: Vec<u8> }
impl Slice { pub open spec fn view(&self) -> Seq<u8> { self.v@ }
  #[verifier::external_body] pub fn len(&self) -> (r: usize) ensures r == self@.len() { unimplemented!() } }
impl std::ops::Deref for Slice { type Target = [u8]; #[verifier::external_body] fn deref(&self) -> (r: &[u8]) ensures r@ == self@ { unimplemented!() } }
pub struct KeyspaceH { pub id: u64 }
pub struct BatchItem { pub keyspace: KeyspaceH, pub key: Slice, pub value: Slice, pub value_type: ValueType }

pub uninterp spec fn enc_item(id: u64, k: Seq<u8>, v: Seq<u8>, vt: ValueType, c: CompressionType) -> Seq<u8>;
pub open spec fn pick(comp: CompressionType, thr: usize, vlen: nat) -> CompressionType {
    if thr > 0 && vlen >= thr { comp } else { CompressionType::None }
}
pub open spec fn enc_bitem(it: &BatchItem, comp: CompressionType, thr: usize) -> Seq<u8> {
    enc_item(it.keyspace.id, it.key@, it.value@, it.value_type, pick(comp, thr, it.value@.len()))
}
pub open spec fn payload(items: Seq<BatchItem>, n: int, comp: CompressionType, thr: usize) -> Seq<u8>
    decreases n
{
    if n <= 0 { Seq::empty() } else { payload(items, n - 1, comp, thr) + enc_bitem(&items[n - 1], comp, thr) }
}

#[verifier::external_body]
pub fn serialize_marker_item(w: &mut Vec<u8>, keyspace_id: u64, key: &[u8], value: &[u8], value_type: ValueType, compression: CompressionType) -> (r: Result<()>)
    ensures r is Ok ==> final(w)@ == old(w)@ + enc_item(keyspace_id, key@, value@, value_type, compression)
{ unimplemented!() }

pub struct Xxh3 { pub acc: Ghost<Seq<u8>> }
impl Xxh3 {
    #[verifier::external_body]
    pub fn default() -> (r: Self) ensures r.acc@ == Seq::<u8>::empty() { unimplemented!() }
    #[verifier::external_body]
    pub fn update(&mut self, b: &[u8]) ensures final(self).acc@ == old(self).acc@ + b@ { unimplemented!() }
    #[verifier::external_body]
    pub fn finish(&self) -> (r: u64) ensures r == xxh3(self.acc@) { unimplemented!() }
}

pub open spec fn enc_batch(items: Seq<BatchItem>, seqno: u64, comp: CompressionType, thr: usize) -> Seq<u8> {
    enc_start(items.len() as u32, seqno) + payload(items, items.len() as int, comp, thr)
      + enc_end(xxh3(payload(items, items.len() as int, comp, thr)))
}

impl Writer {
    #[verifier::external_body]
    fn write_end(&mut self, checksum: u64) -> (r: std::result::Result<usize, Error>)
        requires old(self).buf@.len() == 0, old(self).is_buffer_dirty,
        ensures final(self).is_buffer_dirty, final(self).compression == old(self).compression, final(self).compression_threshold == old(self).compression_threshold,
            final(self).file.inner.synced@ == old(self).file.inner.synced@,
            r is Ok ==> final(self).file.logical() == old(self).file.logical() + enc_end(checksum),
            r is Err ==> old(self).file.logical().is_prefix_of(final(self).file.logical())
    { unimplemented!() }

    // writer.rs:326-379, rules: R-ATTR, R-DBG, R-ITER
    pub fn write_batch<'a>(
        &mut self,
        items: &'a [BatchItem],
        batch_size: usize,
        seqno: SeqNo,
    ) -> (r: Result<usize>)
        requires old(self).wf(), batch_size == items@.len(), items@.len() < 0x1_0000_0000,
        ensures final(self).wf(),
            final(self).file.inner.synced@ == old(self).file.inner.synced@,
            old(self).file.logical().is_prefix_of(final(self).file.logical()),
            r is Ok && batch_size > 0 ==> final(self).file.logical() == old(self).file.logical()
                 + enc_batch(items@, seqno, old(self).compression, old(self).compression_threshold),
            r is Ok && batch_size == 0 ==> final(self).file.logical() == old(self).file.logical(),
    {
        if batch_size == 0 {
            return Ok(0);
        }

        self.is_buffer_dirty = true;

        self.buf.clear();

        let item_count = batch_size as u32;

        let mut hasher = Xxh3::default();
        let mut byte_count = 0;

        byte_count += self.write_start(item_count, seqno)?;
        self.buf.clear();

        for item in it: items.iter()
            invariant
                self.is_buffer_dirty, self.buf@.len() == 0,
                self.compression == old(self).compression, self.compression_threshold == old(self).compression_threshold,
                self.file.inner.synced@ == old(self).file.inner.synced@,
                hasher.acc@ == payload(items@, it.index@, old(self).compression, old(self).compression_threshold),
                self.file.logical() == old(self).file.logical() + enc_start(item_count, seqno)
                    + payload(items@, it.index@, old(self).compression, old(self).compression_threshold),
                0 <= it.index@ <= items@.len(),
        {
            if !(self.buf.is_empty()) { shim_panic(); }

            serialize_marker_item(
                &mut self.buf,
                item.keyspace.id,
                &item.key,
                &item.value,
                item.value_type,
                if self.compression_threshold > 0 && item.value.len() >= self.compression_threshold
                {
                    self.compression
                } else {
                    CompressionType::None
                },
            )?;

            self.file.write_all(&self.buf)?;

            hasher.update(&self.buf);
            byte_count += self.buf.len();

            self.buf.clear();
        }

        let checksum = hasher.finish();
        byte_count += self.write_end(checksum)?;

        Ok(byte_count)
    }
}
} // verus!
fn main() {}
