use vstd::prelude::*;
verus! {

// ---------------- world (ghost) ----------------
pub struct JournalG { pub locked: bool, pub os: Seq<u8>, pub failed: bool }
pub struct TreeG { pub applied: Seq<(Seq<u8>, Seq<u8>, u64, u8)>, pub max_seqno: Option<u64> }
pub struct World {
    pub journal: JournalG,
    pub seqno: u64,
    pub visible: u64,
    pub poisoned: Map<int, bool>,   // by flag id
    pub trees: Map<int, TreeG>,
    pub inflight: Option<u64>,      // seqno drawn under the lock and not yet published
}

pub enum Error { Io, Poisoned, KeyspaceDeleted }
pub type Result<T> = std::result::Result<T, Error>;
pub struct IoErr {}
impl vstd::std_specs::convert::FromSpecImpl<IoErr> for Error {
    open spec fn obeys_from_spec() -> bool { true }
    open spec fn from_spec(e: IoErr) -> Error { Error::Io }
}
impl From<IoErr> for Error { fn from(e: IoErr) -> Error { Error::Io } }

pub struct PoisonSignal { pub id: Ghost<int> }
impl PoisonSignal {
    #[verifier::external_body]
    pub fn is_poisoned(&self, Tracked(w): Tracked<&mut World>) -> (b: bool)
        requires old(w).poisoned.dom().contains(self.id@)
        ensures *final(w) == *old(w), b == old(w).poisoned[self.id@]
    { unimplemented!() }
    #[verifier::external_body]
    pub fn poison(&self, Tracked(w): Tracked<&mut World>)
        requires old(w).poisoned.dom().contains(self.id@)
        ensures *final(w) == (World { poisoned: old(w).poisoned.insert(self.id@, true), ..*old(w) })
    { unimplemented!() }
}

pub struct Counter {}
impl Counter {
    #[verifier::external_body]
    pub fn next(&self, Tracked(w): Tracked<&mut World>) -> (r: u64)
        requires old(w).journal.locked, old(w).inflight is None, old(w).seqno < u64::MAX
        ensures r == old(w).seqno,
           *final(w) == (World { seqno: (old(w).seqno + 1) as u64, inflight: Some(r), ..*old(w) })
    { unimplemented!() }
}

pub struct Writer { pub x: u8 }
pub enum PersistMode { Buffer, SyncData, SyncAll }
impl Writer {
    #[verifier::external_body]
    pub fn write_raw(&mut self, id: u64, key: &[u8], value: &[u8], vt: lsm_tree::ValueType, seqno: u64, Tracked(w): Tracked<&mut World>) -> (r: std::result::Result<usize, Error>)
        requires old(w).journal.locked, old(w).inflight == Some(seqno),
        ensures final(w).journal.locked, final(w).seqno == old(w).seqno, final(w).visible == old(w).visible,
            final(w).poisoned == old(w).poisoned, final(w).trees == old(w).trees, final(w).inflight == old(w).inflight,
            r is Err ==> final(w).journal.failed,
            r is Ok ==> final(w).journal.failed == old(w).journal.failed,
    { unimplemented!() }
    #[verifier::external_body]
    pub fn persist(&mut self, mode: PersistMode, Tracked(w): Tracked<&mut World>) -> (r: std::result::Result<(), IoErr>)
        requires old(w).journal.locked,
        ensures final(w).journal.locked, final(w).seqno == old(w).seqno, final(w).visible == old(w).visible,
            final(w).poisoned == old(w).poisoned, final(w).trees == old(w).trees, final(w).inflight == old(w).inflight,
            r is Err ==> final(w).journal.failed,
            r is Ok ==> final(w).journal.failed == old(w).journal.failed,
    { unimplemented!() }
}

pub struct MutexGuard<'a> { pub w: &'a mut Writer }
impl<'a> std::ops::Deref for MutexGuard<'a> { type Target = Writer; fn deref(&self) -> &Writer { self.w } }
impl<'a> std::ops::DerefMut for MutexGuard<'a> {
    fn deref_mut(&mut self) -> (r: &mut Writer) ensures *r == *old(self).w, *final(self).w == *final(r) { self.w }
}
#[verifier::external_body]
pub fn drop_guard(g: MutexGuard<'_>, Tracked(w): Tracked<&mut World>)
    requires old(w).journal.locked
    ensures *final(w) == (World { journal: JournalG { locked: false, ..old(w).journal }, ..*old(w) })
{ unimplemented!() }

pub struct Journal { }
impl Journal {
    #[verifier::external_body]
    pub fn get_writer(&self, Tracked(w): Tracked<&mut World>) -> (r: std::result::Result<MutexGuard<'_>, Error>)
        requires !old(w).journal.locked
        ensures r is Ok ==> *final(w) == (World { journal: JournalG { locked: true, ..old(w).journal }, ..*old(w) }),
                r is Err ==> *final(w) == *old(w)
    { unimplemented!() }
}

pub struct Tree { pub id: Ghost<int> }
impl Tree {
    #[verifier::external_body]
    pub fn insert(&self, key: UserKey, value: UserValue, seqno: u64, Tracked(w): Tracked<&mut World>) -> (r: (u64, u64))
        requires old(w).journal.locked, old(w).inflight == Some(seqno), !old(w).journal.failed,
                 old(w).visible <= seqno,
        ensures final(w).journal == old(w).journal, final(w).seqno == old(w).seqno, final(w).visible == old(w).visible,
            final(w).poisoned == old(w).poisoned, final(w).inflight == old(w).inflight,
    { unimplemented!() }
}
pub struct Tracker {}
impl Tracker {
    #[verifier::external_body]
    pub fn publish(&self, s: u64, Tracked(w): Tracked<&mut World>)
        requires old(w).journal.locked, old(w).inflight == Some(s),
        ensures *final(w) == (World { inflight: None, visible: if old(w).visible > s + 1 { old(w).visible } else { (s + 1) as u64 }, ..*old(w) })
    { unimplemented!() }
}
pub struct Supervisor { pub journal: Journal, pub seqno: Counter, pub snapshot_tracker: Tracker, pub write_buffer_size: WriteBufferManager }
pub struct Config { pub manual_journal_persist: bool }
pub struct Slice { pub v: Vec<u8> }
impl Slice { pub open spec fn view(&self) -> Seq<u8> { self.v@ } }
impl std::ops::Deref for Slice { type Target = [u8]; #[verifier::external_body] fn deref(&self) -> (r: &[u8]) ensures r@ == self@ { unimplemented!() } }
pub type UserKey = Slice;
pub type UserValue = Slice;
pub mod lsm_tree { #[derive(Clone, Copy, PartialEq, Eq)] pub enum ValueType { Value, Tombstone, WeakTombstone, Indirection } }
pub struct AtomicBool { pub id: Ghost<int> }
impl AtomicBool {
    #[verifier::external_body]
    pub fn load(&self, o: std::sync::atomic::Ordering, Tracked(w): Tracked<&mut World>) -> (b: bool)
        ensures *final(w) == *old(w)
    { unimplemented!() }
}
pub struct WriteBufferManager {}
impl WriteBufferManager {
    #[verifier::external_body]
    pub fn allocate(&self, n: u64, Tracked(w): Tracked<&mut World>) -> (r: u64) ensures *final(w) == *old(w) { unimplemented!() }
}
pub struct Keyspace { pub id: u64, pub supervisor: Supervisor, pub is_poisoned: PoisonSignal, pub tree: Tree, pub config: Config, pub is_deleted: AtomicBool }

impl Keyspace {
    #[verifier::external_body]
    fn maintenance(&self, memtable_size: u64, Tracked(w): Tracked<&mut World>) ensures *final(w) == *old(w) { unimplemented!() }
pub fn insert < K : Into < UserKey > , V : Into < UserValue > > (& self , key : K , value : V , Tracked (w) : Tracked < & mut World >) -> (r: crate :: Result < () >)

        requires !old(w).journal.locked, old(w).inflight is None, old(w).poisoned.dom().contains(self.is_poisoned.id@),
                 old(w).seqno < u64::MAX, old(w).visible <= old(w).seqno,
                 old(w).journal.failed ==> old(w).poisoned[self.is_poisoned.id@],
        ensures
            final(w).journal.failed ==> final(w).poisoned[self.is_poisoned.id@],
            old(w).poisoned[self.is_poisoned.id@] ==> r is Err && final(w).trees == old(w).trees && final(w).visible == old(w).visible,
            final(w).visible <= final(w).seqno,
            r is Ok ==> final(w).inflight is None && !final(w).journal.locked,

{ use std :: sync :: atomic :: Ordering ; if self . is_deleted . load (Ordering :: Relaxed , Tracked (w)) { return Err (crate :: Error :: KeyspaceDeleted) ; } let key = key . into () ; let value = value . into () ; let mut journal_writer = self . supervisor . journal . get_writer (Tracked (w)) ? ; if self . is_poisoned . is_poisoned (Tracked (w)) { return Err (crate :: Error :: Poisoned) ; } let seqno = self . supervisor . seqno . next (Tracked (w)) ; match journal_writer . write_raw (self . id , & key , & value , lsm_tree :: ValueType :: Value , seqno , Tracked (w)) { Ok (__v) => __v , Err (__e) => { { let _ = & __e ; { self . is_poisoned . poison (Tracked (w)) ; } ; } return Err (__e . into ()) ; } } ; if ! self . config . manual_journal_persist { match journal_writer . persist (crate :: PersistMode :: Buffer , Tracked (w)) { Ok (__v) => __v , Err (__e) => { { let e = & __e ; { self . is_poisoned . poison (Tracked (w)) ; } ; } return Err (__e . into ()) ; } } ; } let (item_size , memtable_size) = self . tree . insert (key , value , seqno , Tracked (w)) ; self . supervisor . snapshot_tracker . publish (seqno , Tracked (w)) ; drop_guard (journal_writer , Tracked (w)) ; self . supervisor . write_buffer_size . allocate (item_size , Tracked (w)) ; self . maintenance (memtable_size , Tracked (w)) ; Ok (()) }

}
} // verus!
fn main() {}
