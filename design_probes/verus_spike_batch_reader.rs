#![allow(unused)]
use vstd::prelude::*;

macro_rules! fail_iter {
    ($e:expr) => {
        match $e {
            Ok(v) => v,
            Err(e) => return Some(Err(e.into())),
        }
    };
}

verus! {

pub type SeqNo = u64;
pub type InternalKeyspaceId = u64;

pub enum RecoveryError { InsufficientLength, TooManyItems, ChecksumMismatch }
pub enum Error { Io, JournalRecovery(RecoveryError) }

#[derive(Clone, Copy, PartialEq, Eq)]
pub enum ValueType { Value, Tombstone, WeakTombstone }
#[derive(Clone, Copy, PartialEq, Eq)]
pub enum CompressionType { None, Lz4 }

pub struct Slice { pub v: Vec<u8> }
impl Slice { pub open spec fn view(&self) -> Seq<u8> { self.v@ } }
impl Clone for Slice {
    #[verifier::external_body]
    fn clone(&self) -> (r: Self) ensures r@ == self@ { unimplemented!() }
}
pub type UserKey = Slice;
pub type UserValue = Slice;

pub enum Entry {
    Start { item_count: u32, seqno: SeqNo },
    Item { keyspace_id: InternalKeyspaceId, key: UserKey, value: UserValue, value_type: ValueType, compression: CompressionType },
    End(u64),
    Clear { keyspace_id: InternalKeyspaceId },
}

// ghost op = what a batch means
pub enum Op { Put { id: u64, key: Seq<u8>, value: Seq<u8>, vt: ValueType }, Clear { id: u64 } }
pub uninterp spec fn enc_entry_payload(e: Entry) -> Seq<u8>;   // enc_item / enc_clear
pub uninterp spec fn xxh3(b: Seq<u8>) -> u64;

impl Entry {
    #[verifier::external_body]
    pub fn encode_into(&self, writer: &mut Vec<u8>) -> (r: Result<(), Error>)
        ensures r is Ok ==> final(writer)@ == old(writer)@ + enc_entry_payload(*self)
    { unimplemented!() }
}

pub assume_specification<T: Default>[std::mem::take::<T>](dest: &mut T) -> (r: T)
    ensures r == *old(dest), call_ensures(T::default, (), *final(dest));

pub struct Xxh3 { pub acc: Ghost<Seq<u8>> }
impl Xxh3 {
    #[verifier::external_body]
    pub fn new() -> (r: Self) ensures r.acc@ == Seq::<u8>::empty() { unimplemented!() }
    #[verifier::external_body]
    pub fn update(&mut self, b: &[u8]) ensures final(self).acc@ == old(self).acc@ + b@ { unimplemented!() }
    #[verifier::external_body]
    pub fn finish(&self) -> (r: u64) ensures r == xxh3(self.acc@) { unimplemented!() }
}

// raw reader: ghost stream of (entry, end position); None = stream ended (EOF / garbage), truncated file as specified elsewhere
pub struct JournalReader { pub last_valid_pos: u64, pub stream: Ghost<Seq<(Entry, u64)>>, pub idx: Ghost<int> }
impl JournalReader {
    pub open spec fn wf(&self) -> bool { 0 <= self.idx@ <= self.stream@.len() }
    #[verifier::external_body]
    pub fn next(&mut self) -> (r: Option<Result<Entry, Error>>)
        requires old(self).wf()
        ensures final(self).wf(), final(self).stream@ == old(self).stream@,
            match r {
                Some(Ok(e)) => old(self).idx@ < old(self).stream@.len() && e == old(self).stream@[old(self).idx@].0
                               && final(self).last_valid_pos == old(self).stream@[old(self).idx@].1 && final(self).idx@ == old(self).idx@ + 1,
                Some(Err(_)) => final(self).idx@ == old(self).idx@ && final(self).last_valid_pos == old(self).last_valid_pos,
                None => old(self).idx@ == old(self).stream@.len() && final(self).idx@ == old(self).idx@ && final(self).last_valid_pos == old(self).last_valid_pos,
            }
    { unimplemented!() }
}

pub struct ReadBatchItem { pub keyspace_id: InternalKeyspaceId, pub key: UserKey, pub value: UserValue, pub value_type: ValueType }
pub struct Batch { pub seqno: SeqNo, pub items: Vec<ReadBatchItem>, pub cleared_keyspaces: Vec<InternalKeyspaceId> }

pub struct JournalBatchReader {
    pub reader: JournalReader,
    pub items: Vec<ReadBatchItem>,
    pub cleared_keyspaces: Vec<InternalKeyspaceId>,
    pub is_in_batch: bool,
    pub batch_counter: u32,
    pub batch_seqno: SeqNo,
    pub last_valid_pos: u64,
    pub checksum_builder: Xxh3,
    pub truncated_to: Ghost<Option<u64>>,
}

impl JournalBatchReader {
    #[verifier::external_body]
    fn truncate_to(&mut self, last_valid_pos: u64) -> (r: Result<(), Error>)
        ensures r is Ok ==> final(self).truncated_to@ == Some(last_valid_pos),
            final(self).reader == old(self).reader, final(self).is_in_batch == old(self).is_in_batch,
            final(self).last_valid_pos == old(self).last_valid_pos,
    { unimplemented!() }

    fn on_close(&mut self) -> (r: Result<(), Error>)
        ensures r is Ok && old(self).is_in_batch ==> final(self).truncated_to@ == Some(old(self).last_valid_pos),
            final(self).reader == old(self).reader,
    {
        if self.is_in_batch {
            self.truncate_to(self.last_valid_pos)?;
        }

        Ok(())
    }

    // near-verbatim JournalBatchReader::next (Iterator impl), log lines dropped
    #[verifier::exec_allows_no_decreases_clause]
    fn next(&mut self) -> (r: Option<Result<Batch, Error>>)
        requires old(self).reader.wf(),
        ensures
            final(self).reader.wf(),
            // a batch is emitted only on an End entry, and last_valid_pos becomes that End's end position
            r matches Some(Ok(b)) ==> {
                let i = final(self).reader.idx@ - 1;
                &&& i >= 0
                &&& final(self).reader.stream@[i].0 is End
                &&& final(self).last_valid_pos == final(self).reader.stream@[i].1
                &&& !final(self).is_in_batch
                &&& b.seqno == final(self).batch_seqno
            },
    {
        use crate::Error::JournalRecovery;

        loop
            invariant self.reader.wf(),
        {
            let Some(item) = self.reader.next() else {
                fail_iter!(self.on_close());
                return None;
            };
            let item = fail_iter!(item);

            let journal_file_pos = self.reader.last_valid_pos;

            match item {
                Entry::Start { item_count, seqno } => {
                    if self.is_in_batch {
                        fail_iter!(self.truncate_to(self.last_valid_pos));

                        return None;
                    }

                    self.is_in_batch = true;
                    self.batch_counter = item_count;
                    self.batch_seqno = seqno;
                }
                Entry::End(expected_checksum) => {
                    if self.batch_counter > 0 {
                        return Some(Err(JournalRecovery(
                            RecoveryError::InsufficientLength,
                        )));
                    }

                    if !self.is_in_batch {
                        fail_iter!(self.truncate_to(self.last_valid_pos));

                        return None;
                    }

                    let got_checksum = self.checksum_builder.finish();
                    self.checksum_builder = Xxh3::new();

                    if got_checksum != expected_checksum {
                        return Some(Err(JournalRecovery(RecoveryError::ChecksumMismatch)));
                    }

                    // Reset all variables
                    self.is_in_batch = false;
                    self.batch_counter = 0;

                    self.last_valid_pos = journal_file_pos;

                    let items = std::mem::take(&mut self.items);
                    let cleared_keyspaces = std::mem::take(&mut self.cleared_keyspaces);
                    return Some(Ok(Batch {
                        seqno: self.batch_seqno,
                        items,
                        cleared_keyspaces,
                    }));
                }
                Entry::Item {
                    keyspace_id,
                    key,
                    value,
                    value_type,
                    compression,
                } => {
                    let item = Entry::Item {
                        keyspace_id,
                        key: key.clone(),
                        value: value.clone(),
                        value_type,
                        compression,
                    };
                    let mut bytes = Vec::with_capacity(100);
                    fail_iter!(item.encode_into(&mut bytes));

                    self.checksum_builder.update(&bytes);

                    if !self.is_in_batch {
                        fail_iter!(self.truncate_to(self.last_valid_pos));

                        return None;
                    }

                    if self.batch_counter == 0 {
                        return Some(Err(JournalRecovery(RecoveryError::TooManyItems)));
                    }

                    self.batch_counter -= 1;

                    self.items.push(ReadBatchItem {
                        keyspace_id,
                        key,
                        value,
                        value_type,
                    });
                }
                Entry::Clear { keyspace_id } => {
                    let entry = Entry::Clear { keyspace_id };
                    let mut bytes = Vec::with_capacity(16);
                    fail_iter!(entry.encode_into(&mut bytes));

                    self.checksum_builder.update(&bytes);

                    if !self.is_in_batch {
                        fail_iter!(self.truncate_to(self.last_valid_pos));

                        return None;
                    }

                    if self.batch_counter == 0 {
                        return Some(Err(JournalRecovery(RecoveryError::TooManyItems)));
                    }

                    self.batch_counter -= 1;

                    self.cleared_keyspaces.push(keyspace_id);
                }
            }
        }
    }
}

} // verus!
fn main() {}
