//! fjx — mechanical extractor: real fjall functions -> Verus single-file units.
//!
//! usage: fjx <repo-root> <contracts-dir> <unit-template> <out.rs> <report.json>
//!
//! The template is a Verus source file with `//@` directives (see DESIGN.md section 3.1).
//! Exit codes: 0 ok, 2 lost anchor / unsupported construct / bad template.
//!
//! Everything this program does to a function body is one of the logged rewrite rules
//! (R-CFG, R-ATTR, R-LOG, R-DBG, R-HOF, R-PATH, R-WORLD, R-RET, R-TRAIT, R-GEN); the token-level
//! difference between the source function and the emitted function is computed and
//! written to the report, so "what the extraction drops/adds" is measured, not asserted.

use proc_macro2::{Delimiter, TokenStream, TokenTree};
use quote::{quote, ToTokens};
use std::collections::BTreeMap;
use std::fmt::Write as _;
use std::io::Write as _;
use std::path::{Path, PathBuf};
use std::process::{Command, Stdio};
use syn::visit_mut::{self, VisitMut};
use syn::{parse_quote, Attribute, Expr, ImplItem, Item, Meta, Stmt};

fn die(msg: &str) -> ! {
    eprintln!("fjx: UNDECIDED: {msg}");
    std::process::exit(2);
}

fn nospace(s: &str) -> String {
    s.chars().filter(|c| !c.is_whitespace()).collect()
}

fn nospace_ty(s: &str) -> String {
    s.replace("& 'static", "&'static").replace(" ]", "]").replace("[ ", "[")
}

fn tok(t: &impl ToTokens) -> String {
    nospace(&t.to_token_stream().to_string())
}

// ------------------------------------------------------------------ cfg evaluation (R-CFG)

fn eval_cfg(meta: &Meta) -> Option<bool> {
    match meta {
        Meta::Path(p) => {
            let s = tok(p);
            match s.as_str() {
                "test" => Some(false),
                "unix" => Some(true),
                "windows" => Some(false),
                "debug_assertions" => Some(true),
                "kani" => Some(false),
                _ => None,
            }
        }
        Meta::NameValue(nv) => {
            let k = tok(&nv.path);
            let v = tok(&nv.value);
            let v = v.trim_matches('"');
            match (k.as_str(), v) {
                ("feature", "lz4") => Some(true),
                ("feature", "metrics") => Some(false),
                ("feature", "bytes_1") => Some(false),
                ("feature", "__internal_whitebox") => Some(false),
                ("target_os", "linux") => Some(true),
                ("target_os", _) => Some(false),
                ("target_family", "unix") => Some(true),
                ("target_family", _) => Some(false),
                _ => None,
            }
        }
        Meta::List(l) => {
            let name = tok(&l.path);
            let inner: syn::punctuated::Punctuated<Meta, syn::Token![,]> = l
                .parse_args_with(syn::punctuated::Punctuated::parse_terminated)
                .ok()?;
            match name.as_str() {
                "not" => Some(!eval_cfg(inner.first()?)?),
                "all" => {
                    let mut r = true;
                    for m in &inner {
                        r &= eval_cfg(m)?;
                    }
                    Some(r)
                }
                "any" => {
                    let mut r = false;
                    for m in &inner {
                        r |= eval_cfg(m)?;
                    }
                    Some(r)
                }
                _ => None,
            }
        }
    }
}

/// None: no cfg attribute; Some(b): cfg evaluates to b
fn cfg_of(attrs: &[Attribute], log: &mut Vec<String>) -> Option<bool> {
    let mut res = None;
    for a in attrs {
        if a.path().is_ident("cfg") {
            if let Meta::List(l) = &a.meta {
                let inner: Meta = match l.parse_args() {
                    Ok(m) => m,
                    Err(_) => die(&format!("unparsable cfg attribute {}", tok(a))),
                };
                match eval_cfg(&inner) {
                    Some(b) => {
                        log.push(format!("R-CFG {} => {}", tok(a), b));
                        res = Some(res.unwrap_or(true) && b);
                    }
                    None => die(&format!("unknown cfg predicate {}", tok(a))),
                }
            }
        }
    }
    res
}

struct CfgPass<'a> {
    log: &'a mut Vec<String>,
}

fn stmt_attrs(s: &Stmt) -> Vec<Attribute> {
    match s {
        Stmt::Local(l) => l.attrs.clone(),
        Stmt::Macro(m) => m.attrs.clone(),
        Stmt::Expr(e, _) => expr_attrs(e),
        Stmt::Item(i) => item_attrs(i),
    }
}

fn item_attrs(i: &Item) -> Vec<Attribute> {
    match i {
        Item::Fn(f) => f.attrs.clone(),
        Item::Use(u) => u.attrs.clone(),
        Item::Const(c) => c.attrs.clone(),
        Item::Static(c) => c.attrs.clone(),
        Item::Struct(c) => c.attrs.clone(),
        Item::Enum(c) => c.attrs.clone(),
        _ => vec![],
    }
}

fn expr_attrs(e: &Expr) -> Vec<Attribute> {
    macro_rules! a {
        ($($v:ident),*) => {
            match e { $(Expr::$v(x) => x.attrs.clone(),)* _ => vec![] }
        };
    }
    a!(
        Array, Assign, Async, Await, Binary, Block, Break, Call, Cast, Closure, Const, Continue, Field, ForLoop,
        Group, If, Index, Infer, Let, Lit, Loop, Macro, Match, MethodCall, Paren, Path, Range, RawAddr, Reference,
        Repeat, Return, Struct, Try, TryBlock, Tuple, Unary, Unsafe, While, Yield
    )
}

impl<'a> VisitMut for CfgPass<'a> {
    fn visit_block_mut(&mut self, b: &mut syn::Block) {
        let mut keep = Vec::new();
        for s in b.stmts.drain(..) {
            if cfg_of(&stmt_attrs(&s), self.log) != Some(false) {
                keep.push(s);
            }
        }
        b.stmts = keep;
        visit_mut::visit_block_mut(self, b);
    }
    fn visit_expr_match_mut(&mut self, m: &mut syn::ExprMatch) {
        let mut keep = Vec::new();
        for a in m.arms.drain(..) {
            if cfg_of(&a.attrs, self.log) != Some(false) {
                keep.push(a);
            }
        }
        m.arms = keep;
        visit_mut::visit_expr_match_mut(self, m);
    }
    fn visit_expr_struct_mut(&mut self, s: &mut syn::ExprStruct) {
        let fields = std::mem::take(&mut s.fields);
        for f in fields.into_iter() {
            if cfg_of(&f.attrs, self.log) != Some(false) {
                s.fields.push(f);
            }
        }
        visit_mut::visit_expr_struct_mut(self, s);
    }
    fn visit_fields_named_mut(&mut self, s: &mut syn::FieldsNamed) {
        let fields = std::mem::take(&mut s.named);
        for f in fields.into_iter() {
            if cfg_of(&f.attrs, self.log) != Some(false) {
                s.named.push(f);
            }
        }
        visit_mut::visit_fields_named_mut(self, s);
    }
    fn visit_item_enum_mut(&mut self, e: &mut syn::ItemEnum) {
        let vs = std::mem::take(&mut e.variants);
        for v in vs.into_iter() {
            if cfg_of(&v.attrs, self.log) != Some(false) {
                e.variants.push(v);
            }
        }
        visit_mut::visit_item_enum_mut(self, e);
    }
}

// ------------------------------------------------------------------ R-ATTR

struct AttrPass {
    dropped: usize,
}
impl VisitMut for AttrPass {
    fn visit_attributes_mut(&mut self, attrs: &mut Vec<Attribute>) {
        self.dropped += attrs.len();
        attrs.clear();
    }
    // syn's visitor visits attributes one at a time; clear them at every carrier we care about
    fn visit_local_mut(&mut self, l: &mut syn::Local) {
        self.dropped += l.attrs.len();
        l.attrs.clear();
        visit_mut::visit_local_mut(self, l);
    }
    fn visit_stmt_macro_mut(&mut self, m: &mut syn::StmtMacro) {
        self.dropped += m.attrs.len();
        m.attrs.clear();
        visit_mut::visit_stmt_macro_mut(self, m);
    }
    fn visit_arm_mut(&mut self, a: &mut syn::Arm) {
        self.dropped += a.attrs.len();
        a.attrs.clear();
        visit_mut::visit_arm_mut(self, a);
    }
    fn visit_field_value_mut(&mut self, a: &mut syn::FieldValue) {
        self.dropped += a.attrs.len();
        a.attrs.clear();
        visit_mut::visit_field_value_mut(self, a);
    }
    fn visit_field_mut(&mut self, a: &mut syn::Field) {
        self.dropped += a.attrs.len();
        a.attrs.clear();
        visit_mut::visit_field_mut(self, a);
    }
    fn visit_variant_mut(&mut self, a: &mut syn::Variant) {
        self.dropped += a.attrs.len();
        a.attrs.clear();
        visit_mut::visit_variant_mut(self, a);
    }
    fn visit_expr_mut(&mut self, e: &mut Expr) {
        macro_rules! a {
            ($($v:ident),*) => {
                match e { $(Expr::$v(x) => { self.dropped += x.attrs.len(); x.attrs.clear(); })* _ => {} }
            };
        }
        a!(
            Array, Assign, Async, Await, Binary, Block, Break, Call, Cast, Closure, Const, Continue, Field, ForLoop,
            Group, If, Index, Infer, Let, Lit, Loop, Macro, Match, MethodCall, Paren, Path, Range, RawAddr,
            Reference, Repeat, Return, Struct, Try, TryBlock, Tuple, Unary, Unsafe, While, Yield
        );
        visit_mut::visit_expr_mut(self, e);
    }
    fn visit_item_mut(&mut self, i: &mut Item) {
        match i {
            Item::Use(u) => {
                self.dropped += u.attrs.len();
                u.attrs.clear()
            }
            Item::Const(u) => {
                self.dropped += u.attrs.len();
                u.attrs.clear()
            }
            _ => {}
        }
        visit_mut::visit_item_mut(self, i);
    }
}

// ------------------------------------------------------------------ R-LOG / R-DBG

fn mac_name(m: &syn::Macro) -> String {
    tok(&m.path)
}
fn is_log_macro(m: &syn::Macro) -> bool {
    mac_name(m).starts_with("log::")
}

fn closure_is_log_only(cl: &syn::ExprClosure) -> bool {
    match &*cl.body {
        Expr::Macro(m) => is_log_macro(&m.mac),
        Expr::Block(b) => {
            !b.block.stmts.is_empty()
                && b.block.stmts.iter().all(|s| match s {
                    Stmt::Macro(m) => is_log_macro(&m.mac),
                    Stmt::Expr(Expr::Macro(m), _) => is_log_macro(&m.mac),
                    _ => false,
                })
        }
        _ => false,
    }
}

struct LogDbgPass<'a> {
    log: &'a mut Vec<String>,
    effect_names: &'a [String],
}

impl<'a> LogDbgPass<'a> {
    fn check_log_args(&self, m: &syn::Macro) {
        // the dropped arguments must not contain a call that is in the unit's effect table
        let toks: Vec<String> = flatten(m.tokens.clone());
        for w in toks.windows(2) {
            if w[1] == "(" && self.effect_names.iter().any(|n| n == &w[0]) {
                die(&format!("log macro argument calls effectful `{}`", w[0]));
            }
        }
    }
    fn dbg_stmt(&mut self, m: &syn::Macro, has_semi: bool) -> Option<Stmt> {
        let name = mac_name(m);
        let name = name.trim_start_matches("std::").trim_start_matches("core::");
        match name {
            "debug_assert" | "assert" => {
                let args: syn::punctuated::Punctuated<Expr, syn::Token![,]> =
                    m.parse_body_with(syn::punctuated::Punctuated::parse_terminated).ok()?;
                let c = args.first()?;
                self.log.push(format!("R-DBG {}!", name));
                Some(parse_quote! { if !(#c) { shim_panic(); } })
            }
            "debug_assert_eq" | "assert_eq" => {
                let args: syn::punctuated::Punctuated<Expr, syn::Token![,]> =
                    m.parse_body_with(syn::punctuated::Punctuated::parse_terminated).ok()?;
                let a = args.first()?;
                let b = args.iter().nth(1)?;
                self.log.push(format!("R-DBG {}!", name));
                Some(parse_quote! { if !((#a) == (#b)) { shim_panic(); } })
            }
            "debug_assert_ne" | "assert_ne" => {
                let args: syn::punctuated::Punctuated<Expr, syn::Token![,]> =
                    m.parse_body_with(syn::punctuated::Punctuated::parse_terminated).ok()?;
                let a = args.first()?;
                let b = args.iter().nth(1)?;
                self.log.push(format!("R-DBG {}!", name));
                Some(parse_quote! { if (#a) == (#b) { shim_panic(); } })
            }
            "unreachable" | "panic" | "todo" | "unimplemented" => {
                self.log.push(format!("R-DBG {}!", name));
                if has_semi {
                    Some(parse_quote! { shim_panic(); })
                } else {
                    Some(Stmt::Expr(parse_quote! { shim_unreached() }, None))
                }
            }
            _ => None,
        }
    }
}

impl<'a> VisitMut for LogDbgPass<'a> {
    fn visit_block_mut(&mut self, b: &mut syn::Block) {
        let mut out = Vec::new();
        let n_stmts = b.stmts.len();
        for (k_stmt, s) in b.stmts.drain(..).enumerate() {
            match &s {
                Stmt::Macro(m) if is_log_macro(&m.mac) => {
                    self.check_log_args(&m.mac);
                    self.log.push(format!("R-LOG dropped {}!", mac_name(&m.mac)));
                    continue;
                }
                Stmt::Expr(Expr::Macro(m), semi) if is_log_macro(&m.mac) && semi.is_some() => {
                    self.check_log_args(&m.mac);
                    self.log.push(format!("R-LOG dropped {}!", mac_name(&m.mac)));
                    continue;
                }
                Stmt::Macro(m) => {
                    // a diverging `panic!(..);` that ends its block gives the block type `!`; keep the block's
                    // type by emitting the tail expression `shim_unreached()` (requires false, any result type)
                    let last_diverging = k_stmt + 1 == n_stmts;
                    if let Some(n) = self.dbg_stmt(&m.mac, m.semi_token.is_some() && !last_diverging) {
                        out.push(n);
                        continue;
                    }
                }
                _ => {}
            }
            out.push(s);
        }
        b.stmts = out;
        visit_mut::visit_block_mut(self, b);
    }
    fn visit_expr_mut(&mut self, e: &mut Expr) {
        // E.inspect_err(|e| { log only })  ==>  E
        loop {
            let mut replaced = false;
            if let Expr::MethodCall(mc) = e {
                if mc.method == "inspect_err" && mc.args.len() == 1 {
                    if let Expr::Closure(cl) = &mc.args[0] {
                        if closure_is_log_only(cl) {
                            let recv = (*mc.receiver).clone();
                            self.log.push("R-LOG dropped .inspect_err(|e| log)".into());
                            *e = recv;
                            replaced = true;
                        }
                    }
                }
            }
            if !replaced {
                break;
            }
        }
        if let Expr::Macro(m) = e {
            let name = mac_name(&m.mac);
            let name = name.trim_start_matches("std::").trim_start_matches("core::").to_string();
            if matches!(name.as_str(), "unreachable" | "panic" | "todo" | "unimplemented") {
                self.log.push(format!("R-DBG {}! (expr)", name));
                *e = parse_quote! { shim_unreached() };
            } else if name == "format" {
                // R-FMT: `format!(LIT, a, b)` (positional arguments only) is the call `shim_format_N(LIT, a, b)` of a shim
                // the unit declares (what the formatted string is = that shim's assumed contract)
                let args: Option<syn::punctuated::Punctuated<Expr, syn::Token![,]>> =
                    m.mac.parse_body_with(syn::punctuated::Punctuated::parse_terminated).ok();
                match args {
                    Some(args) if !args.is_empty() && matches!(args.first(), Some(Expr::Lit(_))) => {
                        let f = quote::format_ident!("shim_format_{}", args.len() - 1);
                        let a: Vec<&Expr> = args.iter().collect();
                        self.log.push(format!("R-FMT format!(..) with {} argument(s) spelled as a shim call", args.len() - 1));
                        *e = parse_quote! { #f(#(#a),*) };
                    }
                    _ => die("unsupported construct: format! with non-positional arguments"),
                }
            }
        }
        visit_mut::visit_expr_mut(self, e);
    }
}

// ------------------------------------------------------------------ R-HOF

struct HofPass<'a> {
    log: &'a mut Vec<String>,
    counter: usize,
    ret_is_option: bool,
    closure_depth: usize,
    optmap: bool,
    boundmap: bool,
}
impl<'a> VisitMut for HofPass<'a> {
    fn visit_block_mut(&mut self, b: &mut syn::Block) {
        // (option `boundmap`) `let x = E.map(|p| B);` ==> `let __fjx_bN = E; let x = __fjx_bN.map(|p| B);` so that the bound
        // being mapped has a name a proof can mention (evaluation order and result unchanged)
        if self.boundmap {
            let mut out = Vec::new();
            for st in b.stmts.drain(..) {
                if let Stmt::Local(l) = &st {
                    if let Some(init) = &l.init {
                        if let Expr::MethodCall(mc) = &*init.expr {
                            if mc.method == "map" && mc.args.len() == 1 && matches!(mc.args[0], Expr::Closure(_)) && init.diverge.is_none() {
                                self.counter += 1;
                                let tmp = quote::format_ident!("__fjx_b{}", self.counter);
                                let recv = &mc.receiver;
                                out.push(parse_quote! { let #tmp = #recv; });
                                let mut l2 = l.clone();
                                let mut mc2 = mc.clone();
                                mc2.receiver = Box::new(parse_quote! { #tmp });
                                l2.init.as_mut().unwrap().expr = Box::new(Expr::MethodCall(mc2));
                                out.push(Stmt::Local(l2));
                                self.log.push("R-TMP receiver of Bound::map bound to a named temporary".into());
                                continue;
                            }
                        }
                    }
                }
                out.push(st);
            }
            b.stmts = out;
        }
        visit_mut::visit_block_mut(self, b);
    }
    fn visit_expr_closure_mut(&mut self, c: &mut syn::ExprClosure) {
        self.closure_depth += 1;
        visit_mut::visit_expr_closure_mut(self, c);
        self.closure_depth -= 1;
    }
    fn visit_expr_mut(&mut self, e: &mut Expr) {
        // E.inspect_err(|p| B)?  ==> match E { Ok(v) => v, Err(e) => { { let p = &e; B } return Err(e.into()); } }
        if let Expr::Try(t) = e {
            if let Expr::MethodCall(mc) = &*t.expr {
                if mc.method == "inspect_err" && mc.args.len() == 1 {
                    if let Expr::Closure(cl) = &mc.args[0] {
                        if cl.inputs.len() == 1 {
                            let recv = &mc.receiver;
                            let pat = &cl.inputs[0];
                            let body = &cl.body;
                            self.counter += 1;
                            let v = quote::format_ident!("__fjx_v{}", self.counter);
                            let er = quote::format_ident!("__fjx_e{}", self.counter);
                            let new: Expr = parse_quote! {
                                match (#recv) {
                                    Ok(#v) => #v,
                                    Err(#er) => { { let #pat = &#er; #body; } return Err(#er.into()); }
                                }
                            };
                            *e = new;
                            self.log.push("R-HOF inspect_err(..)? beta-reduced".into());
                        }
                    }
                }
            }
        }
        // E.map_err(|p| B)?  ==> match E { Ok(v) => v, Err(e) => { let p = e; return Err((B).into()); } }
        if let Expr::Try(t) = e {
            if let Expr::MethodCall(mc) = &*t.expr {
                if mc.method == "map_err" && mc.args.len() == 1 {
                    if let Expr::Closure(cl) = &mc.args[0] {
                        if cl.inputs.len() == 1 {
                            let recv = &mc.receiver;
                            let pat = &cl.inputs[0];
                            let body = &cl.body;
                            self.counter += 1;
                            let v = quote::format_ident!("__fjx_v{}", self.counter);
                            let er = quote::format_ident!("__fjx_e{}", self.counter);
                            let new: Expr = parse_quote! {
                                match (#recv) {
                                    Ok(#v) => #v,
                                    Err(#er) => { let #pat = #er; return Err((#body).into()); }
                                }
                            };
                            *e = new;
                            self.log.push("R-HOF map_err(..)? beta-reduced".into());
                        }
                    }
                }
            }
        }
        // E.map_err(|p| B)  (not followed by `?`)  ==>  match E { Ok(v) => Ok(v), Err(e) => { let p = e; Err(B) } }
        if let Expr::MethodCall(mc) = e {
            if mc.method == "map_err" && mc.args.len() == 1 {
                if let Expr::Closure(cl) = &mc.args[0] {
                    if cl.inputs.len() == 1 {
                        let recv = &mc.receiver;
                        let pat = &cl.inputs[0];
                        let body = &cl.body;
                        self.counter += 1;
                        let v = quote::format_ident!("__fjx_v{}", self.counter);
                        let er = quote::format_ident!("__fjx_e{}", self.counter);
                        let new: Expr = parse_quote! {
                            match (#recv) {
                                Ok(#v) => Ok(#v),
                                Err(#er) => { let #pat = #er; Err(#body) }
                            }
                        };
                        *e = new;
                        self.log.push("R-HOF map_err(closure) beta-reduced".into());
                    }
                }
            }
        }
        // E.map_err(Into::into) / E.map_err(From::from)  ==>  match E { Ok(v) => Ok(v), Err(e) => Err(From::from(e)) }
        if let Expr::MethodCall(mc) = e {
            if mc.method == "map_err" && mc.args.len() == 1 {
                if let Expr::Path(pth) = &mc.args[0] {
                    let t = tok(&pth.path);
                    if t == "Into::into" || t == "From::from" {
                        let recv = &mc.receiver;
                        self.counter += 1;
                        let v = quote::format_ident!("__fjx_v{}", self.counter);
                        let er = quote::format_ident!("__fjx_e{}", self.counter);
                        let new: Expr = parse_quote! { match (#recv) { Ok(#v) => Ok(#v), Err(#er) => Err(From::from(#er)) } };
                        *e = new;
                        self.log.push("R-HOF map_err(Into::into) spelled out".into());
                    }
                }
            }
        }
        // (option `boundmap`: every `.map(..)` in this function is core::ops::Bound::map)
        // E.map(|p| B) ==> match E { Bound::Included(p) => Bound::Included(B), Bound::Excluded(p) => Bound::Excluded(B), Bound::Unbounded => Bound::Unbounded }
        if self.boundmap {
            if let Expr::MethodCall(mc) = e {
                if mc.method == "map" && mc.args.len() == 1 {
                    if let Expr::Closure(cl) = &mc.args[0] {
                        if cl.inputs.len() == 1 {
                            let recv = &mc.receiver;
                            let pat = &cl.inputs[0];
                            let body = &cl.body;
                            let new: Expr = parse_quote! {
                                match (#recv) {
                                    Bound::Included(#pat) => Bound::Included(#body),
                                    Bound::Excluded(#pat) => Bound::Excluded(#body),
                                    Bound::Unbounded => Bound::Unbounded,
                                }
                            };
                            *e = new;
                            self.log.push("R-HOF Bound::map beta-reduced (its definition in core::ops)".into());
                        }
                    }
                }
            }
        }
        // (option `optmap`: every `.map(..)` in this function is Option::map)
        // E.map(|p| B) ==> match E { Some(p) => Some(B), None => None };  E.map(Ctor) ==> match E { Some(v) => Some(Ctor(v)), None => None }
        if self.optmap {
            // E.or_else(|| B) ==> match E { Some(v) => Some(v), None => B }
            if let Expr::MethodCall(mc) = e {
                if mc.method == "or_else" && mc.args.len() == 1 {
                    if let Expr::Closure(cl) = &mc.args[0] {
                        if cl.inputs.is_empty() {
                            let recv = &mc.receiver;
                            let body = &cl.body;
                            self.counter += 1;
                            let v = quote::format_ident!("__fjx_v{}", self.counter);
                            let new: Expr = parse_quote! { match (#recv) { Some(#v) => Some(#v), None => #body } };
                            self.log.push("R-HOF Option::or_else beta-reduced".into());
                            *e = new;
                        }
                    }
                }
            }
            // E.and_then(|p| B) ==> match E { Some(p) => B, None => None };  E.is_some_and(|p| B) ==> match E { Some(p) => B, None => false }
            if let Expr::MethodCall(mc) = e {
                if (mc.method == "and_then" || mc.method == "is_some_and" || mc.method == "is_none_or") && mc.args.len() == 1 {
                    if let Expr::Closure(cl) = &mc.args[0] {
                        if cl.inputs.len() == 1 {
                            let recv = &mc.receiver;
                            let pat = &cl.inputs[0];
                            let mut body = (*cl.body).clone();
                            // `f(args)` on the closure parameter (a `dyn Fn` value) is Fn::call
                            if let syn::Pat::Ident(pi) = pat {
                                struct CallParam<'a> {
                                    name: &'a proc_macro2::Ident,
                                }
                                impl<'a> VisitMut for CallParam<'a> {
                                    fn visit_expr_mut(&mut self, e: &mut Expr) {
                                        visit_mut::visit_expr_mut(self, e);
                                        if let Expr::Call(c) = e {
                                            if let Expr::Path(p) = &*c.func {
                                                if p.path.is_ident(self.name) {
                                                    let f = &c.func;
                                                    let args = &c.args;
                                                    *e = parse_quote! { #f.call(#args) };
                                                }
                                            }
                                        }
                                    }
                                }
                                CallParam { name: &pi.ident }.visit_expr_mut(&mut body);
                            }
                            let body = &body;
                            let new: Expr = if mc.method == "and_then" {
                                parse_quote! { match (#recv) { Some(#pat) => #body, None => None } }
                            } else if mc.method == "is_none_or" {
                                // Option::is_none_or (std): `match self { None => true, Some(x) => f(x) }`
                                parse_quote! { match (#recv) { Some(#pat) => #body, None => true } }
                            } else {
                                parse_quote! { match (#recv) { Some(#pat) => #body, None => false } }
                            };
                            self.log.push(format!("R-HOF Option::{} beta-reduced", mc.method));
                            *e = new;
                        }
                    }
                }
            }
            if let Expr::MethodCall(mc) = e {
                if mc.method == "map" && mc.args.len() == 1 {
                    let recv = &mc.receiver;
                    let new: Option<Expr> = match &mc.args[0] {
                        Expr::Closure(cl) if cl.inputs.len() == 1 => {
                            let pat = &cl.inputs[0];
                            let body = &cl.body;
                            Some(parse_quote! { match (#recv) { Some(#pat) => Some(#body), None => None } })
                        }
                        Expr::Path(p) => {
                            self.counter += 1;
                            let v = quote::format_ident!("__fjx_v{}", self.counter);
                            Some(parse_quote! { match (#recv) { Some(#v) => Some(#p(#v)), None => None } })
                        }
                        _ => None,
                    };
                    if let Some(n) = new {
                        *e = n;
                        self.log.push("R-HOF Option::map beta-reduced".into());
                    }
                }
            }
        }
        // E.inspect(|p| B)  ==>  match E { Ok(v) => { { let p = &v; B }; Ok(v) } Err(e) => Err(e) }   (Result::inspect)
        if let Expr::MethodCall(mc) = e {
            if mc.method == "inspect" && mc.args.len() == 1 {
                if let Expr::Closure(cl) = &mc.args[0] {
                    if cl.inputs.len() == 1 {
                        let recv = &mc.receiver;
                        let pat = &cl.inputs[0];
                        let body = &cl.body;
                        self.counter += 1;
                        let v = quote::format_ident!("__fjx_v{}", self.counter);
                        let er = quote::format_ident!("__fjx_e{}", self.counter);
                        let new: Expr = parse_quote! {
                            match (#recv) {
                                Ok(#v) => { { let #pat = &#v; #body; } Ok(#v) }
                                Err(#er) => Err(#er),
                            }
                        };
                        *e = new;
                        self.log.push("R-HOF Result::inspect(closure) beta-reduced".into());
                    }
                }
            }
        }
        // R-HOF (HashMap): M.entry(K).or_insert_with(|| V)  ==>  M.hof_entry_or_insert_with(K, V)
        // (V is evaluated eagerly: sound only for an effect-free constructor expression, which is checked)
        if let Expr::MethodCall(oi) = e {
            if oi.method == "or_insert_with" && oi.args.len() == 1 {
                if let (Expr::MethodCall(en), Expr::Closure(cl)) = (&*oi.receiver, &oi.args[0]) {
                    if en.method == "entry" && en.args.len() == 1 && cl.inputs.is_empty() {
                        let body = tok(&cl.body);
                        if body.contains("Tracked(w)") || body.contains(".next(") || body.contains("?") {
                            die("unsupported construct: or_insert_with closure is not an effect-free constructor");
                        }
                        let m = &en.receiver;
                        let k = &en.args[0];
                        let v = &cl.body;
                        let new: Expr = parse_quote! { #m.hof_entry_or_insert_with(#k, #v) };
                        *e = new;
                        self.log.push("R-HOF entry(k).or_insert_with(|| ctor) unfolded (constructor evaluated eagerly)".into());
                    }
                }
            }
        }
        // R-HOF (HashMap): M.entry(K).and_modify(|x| B).or_insert_with(|| V): as below, V is the closure body (evaluated only when absent)
        if let Expr::MethodCall(oi) = e {
            if oi.method == "or_insert_with" && oi.args.len() == 1 {
                if let (Expr::MethodCall(am), Expr::Closure(vc)) = (&*oi.receiver, &oi.args[0]) {
                    if am.method == "and_modify" && am.args.len() == 1 && vc.inputs.is_empty() {
                        if let (Expr::MethodCall(en), Expr::Closure(cl)) = (&*am.receiver, &am.args[0]) {
                            if en.method == "entry" && en.args.len() == 1 && cl.inputs.len() == 1 {
                                let m = &en.receiver;
                                let k = &en.args[0];
                                if !matches!(k, Expr::Path(_) | Expr::Field(_) | Expr::Unary(_)) {
                                    die("unsupported construct: R-HOF entry() key is not a place expression");
                                }
                                let v = &vc.body;
                                let x = &cl.inputs[0];
                                let body = &cl.body;
                                let new: Expr = parse_quote! {
                                    match (#m.hof_get(#k)) {
                                        Some(__fjx_c) => { let mut __fjx_x = __fjx_c; { let #x = &mut __fjx_x; #body }; #m.hof_set(#k, __fjx_x); }
                                        None => { #m.hof_insert(#k, #v); }
                                    }
                                };
                                *e = new;
                                self.log.push("R-HOF entry(k).and_modify(f).or_insert_with(g) unfolded by its definition".into());
                            }
                        }
                    }
                }
            }
        }
        // R-HOF (dashmap): M.entry(K).and_modify(|x| B).or_insert(V)
        if let Expr::MethodCall(oi) = e {
            if oi.method == "or_insert" && oi.args.len() == 1 {
                if let Expr::MethodCall(am) = &*oi.receiver {
                    if am.method == "and_modify" && am.args.len() == 1 {
                        if let (Expr::MethodCall(en), Expr::Closure(cl)) = (&*am.receiver, &am.args[0]) {
                            if en.method == "entry" && en.args.len() == 1 && cl.inputs.len() == 1 {
                                let m = &en.receiver;
                                let k = &en.args[0];
                                if !matches!(k, Expr::Path(_) | Expr::Field(_)) {
                                    die("unsupported construct: R-HOF entry() key is not a place expression");
                                }
                                let v = &oi.args[0];
                                let x = &cl.inputs[0];
                                let body = &cl.body;
                                let new: Expr = parse_quote! {
                                    match (#m.hof_get(#k)) {
                                        Some(__fjx_c) => { let mut __fjx_x = __fjx_c; { let #x = &mut __fjx_x; #body }; #m.hof_set(#k, __fjx_x); }
                                        None => { #m.hof_insert(#k, #v); }
                                    }
                                };
                                *e = new;
                                self.log.push("R-HOF entry(k).and_modify(f).or_insert(v) unfolded by its definition".into());
                            }
                        }
                    }
                }
            }
        }
        // R-HOF (dashmap): M.alter(&K, |_, v| E)
        if let Expr::MethodCall(al) = e {
            if al.method == "alter" && al.args.len() == 2 {
                if let (Expr::Reference(kr), Expr::Closure(cl)) = (&al.args[0], &al.args[1]) {
                    if cl.inputs.len() == 2 {
                        let m = &al.receiver;
                        let k = &kr.expr;
                        if !matches!(**k, Expr::Path(_) | Expr::Field(_)) {
                            die("unsupported construct: R-HOF alter() key is not a place expression");
                        }
                        let vpat = &cl.inputs[1];
                        let body = &cl.body;
                        let new: Expr = parse_quote! {
                            match (#m.hof_get(#k)) {
                                Some(#vpat) => { #m.hof_set(#k, #body); }
                                None => {}
                            }
                        };
                        *e = new;
                        self.log.push("R-HOF alter(&k, |_, v| e) unfolded by its definition".into());
                    }
                }
            }
        }
        // R-HOF (slice sort): V.sort_by_key(|PAT| KEY)  ==>  V.hof_sort_by_key(Ghost(|__fjx_k| { let PAT = __fjx_k; KEY' }))
        // and V.sort_by(|P1, P2| X.cmp(Y)) where Y is X with P2's names for P1's  ==>  the same with key X (a comparator that
        // compares one projection of both elements IS sort_by_key of that projection). KEY' is KEY with `*n` read as `n`
        // for the names the pattern binds (the exec closure sees `&T`, the ghost key function sees `T`).
        if let Expr::MethodCall(sc) = e {
            let mut key_parts: Option<(syn::Pat, Expr)> = None;
            if sc.method == "sort_by_key" && sc.args.len() == 1 {
                if let Expr::Closure(cl) = &sc.args[0] {
                    if cl.inputs.len() == 1 {
                        key_parts = Some((cl.inputs[0].clone(), (*cl.body).clone()));
                    }
                }
            } else if sc.method == "sort_by" && sc.args.len() == 1 {
                if let Expr::Closure(cl) = &sc.args[0] {
                    if cl.inputs.len() == 2 {
                        if let Expr::MethodCall(cmp) = &*cl.body {
                            if cmp.method == "cmp" && cmp.args.len() == 1 {
                                // rename P2's binders to P1's, position by position, and compare
                                fn binders(p: &syn::Pat, out: &mut Vec<String>) {
                                    match p {
                                        syn::Pat::Ident(i) => out.push(i.ident.to_string()),
                                        syn::Pat::Tuple(t) => t.elems.iter().for_each(|e| binders(e, out)),
                                        syn::Pat::Reference(r) => binders(&r.pat, out),
                                        syn::Pat::Wild(_) => out.push("_".into()),
                                        _ => out.push("?".into()),
                                    }
                                }
                                let (mut b1, mut b2) = (vec![], vec![]);
                                binders(&cl.inputs[0], &mut b1);
                                binders(&cl.inputs[1], &mut b2);
                                let x = tok(&cmp.receiver);
                                let mut y = tok(&cmp.args[0]);
                                if b1.len() == b2.len() && !b1.contains(&"?".to_string()) {
                                    for (n1, n2) in b1.iter().zip(b2.iter()) {
                                        if n1 != "_" && n2 != "_" {
                                            y = y.replace(n2.as_str(), n1.as_str());
                                        }
                                    }
                                    let y = y.trim_start_matches('&').to_string();
                                    if y == x.trim_start_matches('&') {
                                        key_parts = Some((cl.inputs[0].clone(), (*cmp.receiver).clone()));
                                    }
                                }
                            }
                        }
                    }
                }
            }
            if let Some((pat, mut key)) = key_parts {
                struct Deref0;
                impl VisitMut for Deref0 {
                    fn visit_expr_mut(&mut self, e: &mut Expr) {
                        visit_mut::visit_expr_mut(self, e);
                        if let Expr::Unary(u) = e {
                            if matches!(u.op, syn::UnOp::Deref(_)) {
                                if let Expr::Path(_) = &*u.expr {
                                    *e = (*u.expr).clone();
                                }
                            }
                        }
                    }
                }
                Deref0.visit_expr_mut(&mut key);
                let recv = &sc.receiver;
                let new: Expr = parse_quote! { #recv.hof_sort_by_key(Ghost(|__fjx_k| { let #pat = __fjx_k; #key })) };
                self.log.push(format!("R-HOF {}(closure) expressed as a stable sort by a ghost key function", sc.method));
                *e = new;
            }
        }
        // R-RETAIN: M.retain(|k, v| B): every entry visited exactly once (dashmap: unspecified order; BTreeMap: key order)
        if let Expr::MethodCall(rt) = e {
            if rt.method == "retain" && rt.args.len() == 1 {
                if let Expr::Closure(cl) = &rt.args[0] {
                    if cl.inputs.len() == 2 {
                        let m = &rt.receiver;
                        let vpat = &cl.inputs[1];
                        let body = &cl.body;
                        let value_unused = matches!(vpat, syn::Pat::Wild(_));
                        let new: Expr = match &cl.inputs[0] {
                            syn::Pat::Reference(r) if !value_unused => {
                                let kpat = &r.pat;
                                parse_quote! {
                                    {
                                        let __fjx_keys = #m.hof_keys();
                                        let mut __fjx_i: usize = 0;
                                        while __fjx_i < __fjx_keys.len() {
                                            let #kpat = __fjx_keys[__fjx_i];
                                            let mut __fjx_v = #m.hof_get_present(#kpat);
                                            let __fjx_keep = { let #vpat = &mut __fjx_v; #body };
                                            #m.hof_retain_set(#kpat, __fjx_v, __fjx_keep);
                                            __fjx_i += 1;
                                        }
                                    }
                                }
                            }
                            kpat if value_unused => {
                                parse_quote! {
                                    {
                                        let __fjx_keys = #m.hof_keys();
                                        let mut __fjx_i: usize = 0;
                                        while __fjx_i < __fjx_keys.len() {
                                            let __fjx_keep = { let #kpat = &__fjx_keys[__fjx_i]; #body };
                                            #m.hof_retain_key(__fjx_keys[__fjx_i], __fjx_keep);
                                            __fjx_i += 1;
                                        }
                                    }
                                }
                            }
                            _ => die("unsupported construct: R-RETAIN expects `|&k, v|` or `|k, _|`"),
                        };
                        *e = new;
                        self.log.push("R-RETAIN retain(closure) unfolded: one visit per entry".into());
                    }
                }
            }
        }
        // R-ANY: X.range(R).any(|p| B): true iff B holds for some entry of the range (B is evaluated until the first hit)
        if let Expr::MethodCall(an) = e {
            if an.method == "any" && an.args.len() == 1 {
                if let (Expr::MethodCall(rg), Expr::Closure(cl)) = (&*an.receiver, &an.args[0]) {
                    if rg.method == "range" && rg.args.len() == 1 && cl.inputs.len() == 1 {
                        let m = &rg.receiver;
                        let r = &rg.args[0];
                        let pat = &cl.inputs[0];
                        let body = &cl.body;
                        let new: Expr = parse_quote! {
                            {
                                let __fjx_r = #r;
                                let __fjx_len = #m.hof_range_len(&__fjx_r);
                                let mut __fjx_found = false;
                                let mut __fjx_j: usize = 0;
                                while __fjx_j < __fjx_len && !__fjx_found {
                                    let #pat = #m.hof_range_at(&__fjx_r, __fjx_j);
                                    if #body { __fjx_found = true; }
                                    __fjx_j += 1;
                                }
                                __fjx_found
                            }
                        };
                        *e = new;
                        self.log.push("R-ANY range(r).any(closure) unfolded into a search loop".into());
                    }
                }
            }
        }
        // R-TRY: the language-defined desugaring of `?` (Verus knows nothing about the converted error otherwise)
        if let Expr::Try(t) = e {
            if self.closure_depth > 0 {
                die("unsupported construct: `?` inside a closure");
            }
            let inner = &t.expr;
            self.counter += 1;
            let v = quote::format_ident!("__fjx_v{}", self.counter);
            let er = quote::format_ident!("__fjx_e{}", self.counter);
            let new: Expr = if self.ret_is_option {
                parse_quote! { match (#inner) { Some(#v) => #v, None => return None } }
            } else {
                parse_quote! { match (#inner) { Ok(#v) => #v, Err(#er) => return Err(From::from(#er)) } }
            };
            *e = new;
            self.log.push("R-TRY `?` desugared".into());
        }
        visit_mut::visit_expr_mut(self, e);
    }
}

// ------------------------------------------------------------------ R-MAC

fn subst_macro(body: TokenStream, var: &str, arg: &TokenStream) -> TokenStream {
    let toks: Vec<TokenTree> = body.into_iter().collect();
    let mut out = TokenStream::new();
    let mut i = 0;
    while i < toks.len() {
        match &toks[i] {
            TokenTree::Punct(p) if p.as_char() == '$' && i + 1 < toks.len() && toks[i + 1].to_string() == var => {
                let g = proc_macro2::Group::new(Delimiter::Parenthesis, arg.clone());
                out.extend(std::iter::once(TokenTree::Group(g)));
                i += 2;
            }
            TokenTree::Group(g) => {
                let inner = subst_macro(g.stream(), var, arg);
                let mut ng = proc_macro2::Group::new(g.delimiter(), inner);
                ng.set_span(g.span());
                out.extend(std::iter::once(TokenTree::Group(ng)));
                i += 1;
            }
            t => {
                out.extend(std::iter::once(t.clone()));
                i += 1;
            }
        }
    }
    out
}

struct MacPass<'a> {
    macros: &'a [(String, Vec<String>, TokenStream)],
    vec_pushes: bool,
    nvec: usize,
    log: &'a mut Vec<String>,
}
impl<'a> MacPass<'a> {
    fn expand(&mut self, m: &syn::Macro) -> Option<Expr> {
        let name = mac_name(m);
        if name == "vec" && self.vec_pushes {
            // R-VEC: `vec![e1, .., en]` spelled out as n pushes onto a new vector (what the macro means), so that the element expressions
            // become ordinary expressions the other rules and the verifier see
            use syn::punctuated::Punctuated;
            let parser = Punctuated::<Expr, syn::Token![,]>::parse_terminated;
            if let Ok(elems) = syn::parse::Parser::parse2(parser, m.tokens.clone()) {
                if !elems.is_empty() {
                    self.nvec += 1;
                    let v = quote::format_ident!("__fjx_vec{}", self.nvec);
                    let es: Vec<&Expr> = elems.iter().collect();
                    let e: Expr = parse_quote! { { let mut #v = Vec::new(); #( #v.push(#es); )* #v } };
                    self.log.push(format!("R-VEC vec![..] of {} elements spelled out as pushes", es.len()));
                    return Some(e);
                }
            }
            return None;
        }
        for (n, vars, body) in self.macros {
            if *n == name {
                let ts = if vars.len() == 1 { subst_macro(body.clone(), &vars[0], &m.tokens) } else {
                    use syn::punctuated::Punctuated;
                    let parser = Punctuated::<Expr, syn::Token![,]>::parse_terminated;
                    let args = syn::parse::Parser::parse2(parser, m.tokens.clone()).unwrap_or_else(|_| die(&format!("R-MAC: arguments of {name}! are not expressions")));
                    if args.len() != vars.len() { die(&format!("R-MAC: {name}! called with {} arguments, its rule takes {}", args.len(), vars.len())); }
                    let mut b = body.clone();
                    for (v, a) in vars.iter().zip(args.iter()) { b = subst_macro(b, v, &a.to_token_stream()); }
                    b
                };
                let e: Expr = syn::parse2(ts).unwrap_or_else(|_| die(&format!("R-MAC: expansion of {name}! is not an expression")));
                self.log.push(format!("R-MAC {name}!(..) expanded by its definition"));
                return Some(e);
            }
        }
        None
    }
}
impl<'a> VisitMut for MacPass<'a> {
    fn visit_block_mut(&mut self, b: &mut syn::Block) {
        for s in b.stmts.iter_mut() {
            if let Stmt::Macro(sm) = s {
                if let Some(e) = self.expand(&sm.mac) {
                    *s = Stmt::Expr(e, sm.semi_token);
                }
            }
        }
        visit_mut::visit_block_mut(self, b);
    }
    fn visit_expr_mut(&mut self, e: &mut Expr) {
        if let Expr::Macro(m) = e {
            if let Some(n) = self.expand(&m.mac) {
                *e = n;
            }
        }
        visit_mut::visit_expr_mut(self, e);
    }
}

// ------------------------------------------------------------------ R-FORTMP

/// `for x in A.f().g() { .. }` keeps the temporary `A.f()` alive for the whole loop in Rust; Verus' for-loop
/// encoding does not, so the receiver temporary is bound by an explicit `let` in an enclosing block
struct ForTmp<'a> {
    log: &'a mut Vec<String>,
    n: usize,
}
impl<'a> VisitMut for ForTmp<'a> {
    fn visit_expr_mut(&mut self, e: &mut Expr) {
        visit_mut::visit_expr_mut(self, e);
        if let Expr::ForLoop(f) = e {
            if let Expr::MethodCall(mc) = &mut *f.expr {
                fn has_call(x: &Expr) -> bool {
                    match x {
                        Expr::MethodCall(_) | Expr::Call(_) => true,
                        Expr::Field(f) => has_call(&f.base),
                        Expr::Reference(r) => has_call(&r.expr),
                        Expr::Paren(p) => has_call(&p.expr),
                        _ => false,
                    }
                }
                if has_call(&mc.receiver) {
                    self.n += 1;
                    let tmp = quote::format_ident!("__fjx_tmp{}", self.n);
                    let recv = (*mc.receiver).clone();
                    mc.receiver = Box::new(parse_quote! { #tmp });
                    let fl = f.clone();
                    *e = parse_quote! { { let #tmp = #recv; #fl } };
                    self.log.push("R-FORTMP receiver temporary of a for-loop iterator bound by `let`".into());
                }
            }
        }
    }
}

// ------------------------------------------------------------------ R-SCOPE

struct ReturnDrop<'a> {
    guards: &'a [proc_macro2::Ident],
    n: usize,
}
impl<'a> VisitMut for ReturnDrop<'a> {
    fn visit_expr_closure_mut(&mut self, _c: &mut syn::ExprClosure) {}
    fn visit_expr_mut(&mut self, e: &mut Expr) {
        visit_mut::visit_expr_mut(self, e);
        if let Expr::Return(r) = e {
            let gs: Vec<&proc_macro2::Ident> = self.guards.iter().rev().collect();
            let new: Expr = match &r.expr {
                Some(inner) => parse_quote! { { let __fjx_r = #inner; #(drop(#gs);)* return __fjx_r; } },
                None => parse_quote! { { #(drop(#gs);)* return; } },
            };
            *e = new;
            self.n += 1;
        }
    }
}

/// rule R-SCOPE: the scope-end drop of a lock guard bound by a top-level `let` is made explicit at every exit
/// that the guard is still alive at (Rust drops locals at `return` and at the end of the block, in reverse order)
struct ScopeRec<'a> {
    patterns: &'a [String],
    log: &'a mut Vec<String>,
}
impl<'a> VisitMut for ScopeRec<'a> {
    fn visit_block_mut(&mut self, b: &mut syn::Block) {
        visit_mut::visit_block_mut(self, b); // inner scopes first: their guards are dropped before the outer ones
        scope_pass_one(b, self.patterns, self.log);
    }
}
fn scope_pass(block: &mut syn::Block, patterns: &[String], param_guards: &[proc_macro2::Ident], log: &mut Vec<String>) {
    if patterns.is_empty() {
        return;
    }
    // nested scopes first
    for st in block.stmts.iter_mut() {
        ScopeRec { patterns, log }.visit_stmt_mut(st);
    }
    scope_pass_top(block, patterns, param_guards, log);
}
fn scope_pass_one(block: &mut syn::Block, patterns: &[String], log: &mut Vec<String>) {
    scope_pass_top(block, patterns, &[], log);
}
fn scope_pass_top(block: &mut syn::Block, patterns: &[String], param_guards: &[proc_macro2::Ident], log: &mut Vec<String>) {
    // (decl index + 1, ident); parameters that are guards are alive from the first statement on (index 0)
    let mut guards: Vec<(usize, proc_macro2::Ident)> = param_guards.iter().map(|g| (0usize, g.clone())).collect();
    for (i, st) in block.stmts.iter().enumerate() {
        let i = i + 1;
        if let Stmt::Local(l) = st {
            let id = match &l.pat {
                syn::Pat::Ident(pi) => Some(pi.ident.clone()),
                syn::Pat::Type(pt) => match &*pt.pat {
                    syn::Pat::Ident(pi) => Some(pi.ident.clone()),
                    _ => None,
                },
                _ => None,
            };
            if let (Some(id), Some(init)) = (id, &l.init) {
                let s = tok(&init.expr);
                // `let x = { let g = m.lock(); .. };`: the guard lives (and dies) in the inner block, x is its value
                let inner_scope = matches!(&*init.expr, Expr::Block(_));
                if !inner_scope && patterns.iter().any(|p| s.contains(p.as_str())) {
                    guards.push((i, id));
                }
            }
        }
    }
    if guards.is_empty() {
        return;
    }
    let n = block.stmts.len();
    // release index per guard: first later top-level statement that drops or moves it
    let mut release: Vec<Option<usize>> = vec![];
    for (di, id) in &guards {
        let name = id.to_string();
        let mut rel = None;
        for j in *di..n {
            let s = tok(&block.stmts[j]);
            let moved = s.contains(&format!("drop({name})"))
                || s.contains(&format!("({name},"))
                || s.contains(&format!(",{name},"))
                || s.contains(&format!(",{name})"))
                || s.contains(&format!("({name})"));
            if moved {
                rel = Some(j);
                break;
            }
        }
        release.push(rel);
    }
    let mut total = 0;
    for j in 0..n {
        let alive: Vec<proc_macro2::Ident> = guards
            .iter()
            .zip(release.iter())
            .filter(|((di, _), rel)| j + 1 > *di && rel.map(|r| j < r).unwrap_or(true))
            .map(|((_, id), _)| id.clone())
            .collect();
        // the declaring statement itself: `let g = x.lock()?;` returns before the guard exists -> nothing to drop
        if alive.is_empty() {
            continue;
        }
        let mut rd = ReturnDrop { guards: &alive, n: 0 };
        rd.visit_stmt_mut(&mut block.stmts[j]);
        total += rd.n;
    }
    // end of block
    let at_end: Vec<proc_macro2::Ident> =
        guards.iter().zip(release.iter()).filter(|(_, rel)| rel.is_none()).map(|((_, id), _)| id.clone()).rev().collect();
    if !at_end.is_empty() {
        let last = block.stmts.pop();
        match last {
            Some(Stmt::Expr(e, None)) if !matches!(e, Expr::Return(_)) && !tok(&e).starts_with("{let__fjx_r") => {
                block.stmts.push(parse_quote! { let __fjx_r = #e; });
                for g in &at_end {
                    block.stmts.push(parse_quote! { drop(#g); });
                }
                block.stmts.push(Stmt::Expr(parse_quote! { __fjx_r }, None));
                total += 1;
            }
            Some(other) => {
                let is_ret = matches!(&other, Stmt::Expr(e, _) if tok(e).starts_with("{let__fjx_r") || matches!(e, Expr::Return(_)));
                block.stmts.push(other);
                if !is_ret {
                    for g in &at_end {
                        block.stmts.push(parse_quote! { drop(#g); });
                    }
                    total += 1;
                }
            }
            None => {}
        }
    }
    log.push(format!(
        "R-SCOPE implicit scope-end drop of guard(s) {} made explicit at {} exit(s)",
        guards.iter().map(|(_, i)| i.to_string()).collect::<Vec<_>>().join(","),
        total
    ));
}

// ------------------------------------------------------------------ R-PATH

struct PathPass<'a> {
    table: &'a [(Vec<String>, Vec<String>)],
    log: &'a mut Vec<String>,
}
impl<'a> VisitMut for PathPass<'a> {
    fn visit_path_mut(&mut self, p: &mut syn::Path) {
        for (from, to) in self.table {
            if p.segments.len() >= from.len()
                && p.segments.iter().zip(from.iter()).all(|(s, f)| s.ident == f.as_str())
                && p.segments.iter().take(from.len().saturating_sub(1)).all(|s| s.arguments.is_none())
            {
                let last_args = p.segments[from.len() - 1].arguments.clone();
                let rest: Vec<syn::PathSegment> = p.segments.iter().skip(from.len()).cloned().collect();
                let mut segs: syn::punctuated::Punctuated<syn::PathSegment, syn::Token![::]> =
                    syn::punctuated::Punctuated::new();
                for (i, t) in to.iter().enumerate() {
                    let mut seg = syn::PathSegment::from(quote::format_ident!("{}", t));
                    if i + 1 == to.len() {
                        seg.arguments = last_args.clone();
                    }
                    segs.push(seg);
                }
                for r in rest {
                    segs.push(r);
                }
                self.log.push(format!("R-PATH {} => {}", from.join("::"), to.join("::")));
                p.leading_colon = None;
                p.segments = segs;
                break;
            }
        }
        visit_mut::visit_path_mut(self, p);
    }
}

// ------------------------------------------------------------------ R-WORLD

struct WorldPass<'a> {
    pats: &'a [String],
    log: &'a mut Vec<String>,
}
impl<'a> WorldPass<'a> {
    fn method_match(&self, mc: &syn::ExprMethodCall) -> bool {
        let name = mc.method.to_string();
        let recv = tok(&mc.receiver);
        self.pats.iter().any(|p| {
            if let Some((r, m)) = p.rsplit_once('.') {
                m == name && (r == "*" || recv == r || recv.ends_with(&format!(".{r}")) || recv.ends_with(r))
            } else {
                false
            }
        })
    }
    fn call_match(&self, c: &syn::ExprCall) -> bool {
        let f = tok(&c.func);
        self.pats.iter().any(|p| !p.contains('.') && (f == *p || f.ends_with(&format!("::{p}"))))
    }
}
impl<'a> VisitMut for WorldPass<'a> {
    fn visit_expr_mut(&mut self, e: &mut Expr) {
        visit_mut::visit_expr_mut(self, e);
        match e {
            Expr::MethodCall(mc) => {
                if self.method_match(mc) {
                    mc.args.push(parse_quote! { Tracked(w) });
                    self.log.push(format!("R-WORLD .{}", mc.method));
                }
            }
            Expr::Call(c) => {
                if self.call_match(c) {
                    c.args.push(parse_quote! { Tracked(w) });
                    self.log.push(format!("R-WORLD {}", tok(&c.func)));
                }
            }
            _ => {}
        }
    }
}

// ------------------------------------------------------------------ R-FOR

/// rule R-FOR: the language-defined desugaring of `for PAT in E { B }` (needed where Verus' own for-loop encoding
/// rejects `continue` / `break`): `{ let mut it = IntoIterator::into_iter(E); loop { let PAT = match it.next() { Some(x) => x, None => break }; B } }`
struct ForDesugar<'a> {
    n: usize,
    which: &'a [usize],
    plain: &'a [usize],
    log: &'a mut Vec<String>,
}
impl<'a> VisitMut for ForDesugar<'a> {
    fn visit_expr_mut(&mut self, e: &mut Expr) {
        let idx = self.n;
        let is_loop = matches!(e, Expr::ForLoop(_) | Expr::While(_) | Expr::Loop(_));
        if is_loop {
            self.n += 1;
        }
        if let Expr::ForLoop(f) = e {
            if self.which.contains(&idx) {
                let it = quote::format_ident!("__fjx_it{}", idx);
                let pat = &f.pat;
                let ex = &f.expr;
                let mut body = f.body.clone();
                // children first (nested loops keep their pre-order numbers)
                visit_mut::visit_block_mut(self, &mut body);
                let stmts = &body.stmts;
                let id = syn::Index::from(idx);
                // `plain`: E is itself the iterator (IntoIterator for I: Iterator is the identity)
                let src = quote::format_ident!("__fjx_src{}", idx);
                let init: Expr = if self.plain.contains(&idx) { parse_quote! { #src } } else { parse_quote! { IntoIterator::into_iter(#src) } };
                let new: Expr = parse_quote! {
                    {
                        let #src = #ex;
                        let mut #it = #init;
                        __fjx_ghost_decl!(#id);
                        loop {
                            let #pat = match #it.next() { Some(__fjx_x) => __fjx_x, None => break, };
                            __fjx_ghost_inc!(#id);
                            __fjx_loopstart!(#id);
                            #(#stmts)*
                        }
                    }
                };
                *e = new;
                self.log.push(format!("R-FOR for-loop #{idx} desugared to loop/next()/break (language definition)"));
                return;
            }
        }
        visit_mut::visit_expr_mut(self, e);
    }
}

// ------------------------------------------------------------------ markers

/// `//@proof before @loop-end N`: a marker after the last statement of loop N's body (reached by every iteration
/// that falls through; `continue` / `break` paths skip it)
fn push_loopend(b: &mut syn::Block, n: usize) {
    let id = syn::Index::from(n);
    if let Some(Stmt::Expr(_, semi)) = b.stmts.last_mut() {
        if semi.is_none() {
            *semi = Some(Default::default());
        }
    }
    b.stmts.push(parse_quote! { __fjx_loopend!(#id); });
}

struct LoopMarker {
    n: usize,
    with_binder: Vec<usize>,
    desugared: Vec<usize>,
}
impl VisitMut for LoopMarker {
    fn visit_expr_mut(&mut self, e: &mut Expr) {
        let n = self.n;
        let id = syn::Index::from(n);
        match e {
            Expr::ForLoop(f) => {
                self.n += 1;
                push_loopend(&mut f.body, n);
                f.body.stmts.insert(0, parse_quote! { __fjx_loopstart!(#id); });
                f.body.stmts.insert(0, parse_quote! { __fjx_loop!(#id); });
                if self.with_binder.contains(&n) {
                    let e = &f.expr;
                    f.expr = Box::new(parse_quote! { __fjx_iter!(#e) });
                }
            }
            Expr::While(f) => {
                self.n += 1;
                push_loopend(&mut f.body, n);
                f.body.stmts.insert(0, parse_quote! { __fjx_loopstart!(#id); });
                f.body.stmts.insert(0, parse_quote! { __fjx_loop!(#id); });
            }
            Expr::Loop(f) => {
                self.n += 1;
                push_loopend(&mut f.body, n);
                if !self.desugared.contains(&n) {
                    f.body.stmts.insert(0, parse_quote! { __fjx_loopstart!(#id); });
                }
                f.body.stmts.insert(0, parse_quote! { __fjx_loop!(#id); });
            }
            _ => {}
        }
        visit_mut::visit_expr_mut(self, e);
    }
}

struct ProofMarker<'a> {
    needles: &'a [(String, bool, usize)], // (needle, after?, index)
    hits: Vec<usize>,
}
impl<'a> VisitMut for ProofMarker<'a> {
    fn visit_block_mut(&mut self, b: &mut syn::Block) {
        visit_mut::visit_block_mut(self, b);
        let mut out = Vec::new();
        for s in b.stmts.drain(..) {
            let st = tok(&s);
            let mut before = vec![];
            let mut after = vec![];
            if !(st.starts_with("__fjx_loop!") || st.starts_with("__fjx_proof!") || st.starts_with("__fjx_contract!")) {
                for (needle, is_after, idx) in self.needles {
                    // innermost statement containing the needle: no nested marker for this idx yet
                    if st.contains(needle.as_str()) && !st.contains(&format!("__fjx_proof!({idx})")) {
                        let id = syn::Index::from(*idx);
                        let m: Stmt = parse_quote! { __fjx_proof!(#id); };
                        if *is_after {
                            after.push(m)
                        } else {
                            before.push(m)
                        }
                        self.hits[*idx] += 1;
                    }
                }
            }
            out.extend(before);
            out.push(s);
            out.extend(after);
        }
        b.stmts = out;
    }
}

// ------------------------------------------------------------------ token diff

fn flatten(ts: TokenStream) -> Vec<String> {
    let mut out = Vec::new();
    for t in ts {
        match t {
            TokenTree::Group(g) => {
                let (o, c) = match g.delimiter() {
                    Delimiter::Parenthesis => ("(", ")"),
                    Delimiter::Brace => ("{", "}"),
                    Delimiter::Bracket => ("[", "]"),
                    Delimiter::None => ("", ""),
                };
                if !o.is_empty() {
                    out.push(o.to_string());
                }
                out.extend(flatten(g.stream()));
                if !c.is_empty() {
                    out.push(c.to_string());
                }
            }
            other => out.push(other.to_string()),
        }
    }
    out
}

fn token_strings(ts: TokenStream) -> Vec<String> {
    flatten(ts)
}

/// LCS diff; returns (deleted tokens, inserted tokens) as compact runs
fn token_diff(a: &[String], b: &[String]) -> (Vec<String>, Vec<String>, usize, usize) {
    let n = a.len();
    let m = b.len();
    let mut dp = vec![0u32; (n + 1) * (m + 1)];
    for i in (0..n).rev() {
        for j in (0..m).rev() {
            dp[i * (m + 1) + j] = if a[i] == b[j] {
                dp[(i + 1) * (m + 1) + j + 1] + 1
            } else {
                dp[(i + 1) * (m + 1) + j].max(dp[i * (m + 1) + j + 1])
            };
        }
    }
    let (mut i, mut j) = (0, 0);
    let mut del_runs: Vec<String> = vec![];
    let mut ins_runs: Vec<String> = vec![];
    let mut cur_del = String::new();
    let mut cur_ins = String::new();
    let (mut nd, mut ni) = (0, 0);
    let flush = |cur: &mut String, runs: &mut Vec<String>| {
        if !cur.is_empty() {
            runs.push(std::mem::take(cur));
        }
    };
    while i < n || j < m {
        if i < n && j < m && a[i] == b[j] {
            flush(&mut cur_del, &mut del_runs);
            flush(&mut cur_ins, &mut ins_runs);
            i += 1;
            j += 1;
        } else if j < m && (i == n || dp[i * (m + 1) + j + 1] >= dp[(i + 1) * (m + 1) + j]) {
            if !cur_ins.is_empty() {
                cur_ins.push(' ');
            }
            cur_ins.push_str(&b[j]);
            ni += 1;
            j += 1;
        } else {
            if !cur_del.is_empty() {
                cur_del.push(' ');
            }
            cur_del.push_str(&a[i]);
            nd += 1;
            i += 1;
        }
    }
    flush(&mut cur_del, &mut del_runs);
    flush(&mut cur_ins, &mut ins_runs);
    (del_runs, ins_runs, nd, ni)
}

// ------------------------------------------------------------------ json

fn jstr(s: &str) -> String {
    let mut o = String::from("\"");
    for c in s.chars() {
        match c {
            '"' => o.push_str("\\\""),
            '\\' => o.push_str("\\\\"),
            '\n' => o.push_str("\\n"),
            '\t' => o.push_str("\\t"),
            '\r' => o.push_str("\\r"),
            c if (c as u32) < 0x20 => {
                let _ = write!(o, "\\u{:04x}", c as u32);
            }
            c => o.push(c),
        }
    }
    o.push('"');
    o
}
fn jlist(v: &[String]) -> String {
    format!("[{}]", v.iter().map(|s| jstr(s)).collect::<Vec<_>>().join(","))
}

// ------------------------------------------------------------------ rustfmt

fn rustfmt(src: &str) -> Option<String> {
    let mut child = Command::new("rustfmt")
        .args(["--edition", "2021", "--config", "max_width=120"])
        .stdin(Stdio::piped())
        .stdout(Stdio::piped())
        .stderr(Stdio::null())
        .spawn()
        .ok()?;
    child.stdin.take()?.write_all(src.as_bytes()).ok()?;
    let out = child.wait_with_output().ok()?;
    if out.status.success() {
        String::from_utf8(out.stdout).ok()
    } else {
        None
    }
}

// ------------------------------------------------------------------ extraction

#[derive(Default, Clone)]
struct ExtractSpec {
    no_decreases: bool,
    boundmap: bool,
    to_block_end: bool,
    /// `//@stmts N`: the slice is the anchor statement and the N-1 statements that follow it in its block
    stmts_n: usize,
    /// `//@wrap-ok`: the slice ends in the value of its block, while its `?` exits are Err exits of the enclosing function: the value is the Ok result
    wrap_ok: bool,
    /// `//@refarg m`: every argument of a call `self.m(..)` is a reference handed to a generic `AsRef` parameter (std's blanket
    /// `impl AsRef<U> for &T`); it is wrapped in the unit's `shim_by_ref`, whose `AsRef` impl is that blanket impl spelled out
    refargs: Vec<String>,
    no_loop_isolation: bool,
    file: String,
    impl_key: Option<String>,
    name: String,
    world: bool,
    inherent: bool,
    as_trait: bool,
    rename: Option<String>,
    props: Vec<String>,
    ret: String,
    world_pats: Vec<String>,
    contract: Vec<String>,
    loops: BTreeMap<usize, Vec<String>>,
    proofs: Vec<(String, bool, Vec<String>)>,
    /// indices of `//@proof at-call` blocks: an obligation about each execution of the named call; if the
    /// function no longer contains the call there is nothing to oblige (other contracts decide what its absence means)
    optional_proofs: std::collections::HashSet<usize>,
    /// R-ABS: (needle, replacement statement): the unique top-level statement containing the needle is NOT verified
    /// text; it is replaced by the given call of a shim declared in the unit (assumed contract), and logged
    abstracts: Vec<(String, String)>,
    line: usize,
    spec_only: bool,
    forced_spec_only: bool,
    iter_params: Vec<String>,
    contract_file: Option<String>,
    until: Option<String>,
    desugar_for: Vec<usize>,
    desugar_for_plain: Vec<usize>,
    optmap: bool,
    assoc: Vec<(String, String)>,
    stmt_anchor: Option<String>,
    anchor_up: usize,
    sig_text: Option<String>,
    yield_ident: Option<String>,
    iter_args: Vec<(String, usize)>,
}

struct Unit {
    repo: PathBuf,
    contracts: PathBuf,
    paths: Vec<(Vec<String>, Vec<String>)>,
    world_pats: Vec<String>,
    broadcast: String,
    macros: Vec<(String, Vec<String>, TokenStream)>,
    vec_pushes: bool,
    method_shims: Vec<(String, String)>,
    guards: Vec<String>,
    pure_names: Vec<String>,
    type_map: Vec<(String, String)>,
    files: BTreeMap<String, (String, syn::File)>,
    out: String,
    report: Vec<String>,
    n_extracted: usize,
    range_shim: bool,
    cursor_shim: bool,
    /// `//@identity-cast T`: after R-TYPE an `E as T` where E already has type T (an unsizing cast to a trait object in the source)
    identity_casts: Vec<String>,
}

struct Found {
    attrs: Vec<Attribute>,
    vis: syn::Visibility,
    sig: syn::Signature,
    block: syn::Block,
    impl_header: Option<(syn::Generics, Option<syn::Path>, syn::Type)>,
    assoc_types: Vec<(String, syn::Type)>,
    other_items: Vec<ImplItem>,
    start_line: usize,
    end_line: usize,
}

impl Unit {
    fn load(&mut self, file: &str) -> &(String, syn::File) {
        if !self.files.contains_key(file) {
            let p = self.repo.join(file);
            let src = std::fs::read_to_string(&p).unwrap_or_else(|_| die(&format!("lost anchor: file {file} not found")));
            let parsed = syn::parse_file(&src).unwrap_or_else(|e| die(&format!("cannot parse {file}: {e}")));
            self.files.insert(file.to_string(), (src, parsed));
        }
        &self.files[file]
    }

    fn find_fn(&mut self, spec: &ExtractSpec) -> Found {
        let (_, file) = self.load(&spec.file).clone();
        use syn::spanned::Spanned;
        let mut hits = Vec::new();
        for item in &file.items {
            match (item, &spec.impl_key) {
                (Item::Fn(f), None) if f.sig.ident == spec.name.as_str() => {
                    let sp = f.span();
                    hits.push(Found {
                        attrs: f.attrs.clone(),
                        vis: f.vis.clone(),
                        sig: f.sig.clone(),
                        block: (*f.block).clone(),
                        impl_header: None,
                        assoc_types: vec![],
                        other_items: vec![],
                        start_line: sp.start().line,
                        end_line: sp.end().line,
                    });
                }
                (Item::Impl(im), Some(key)) => {
                    let self_s = tok(&im.self_ty);
                    let k = match &im.trait_ {
                        Some((_, p, _)) => format!("{}for{}", tok(p), self_s),
                        None => self_s.clone(),
                    };
                    let mut dummy = vec![];
                    if cfg_of(&im.attrs, &mut dummy) == Some(false) {
                        continue;
                    }
                    if nospace(key) != k {
                        continue;
                    }
                    let mut assoc = vec![];
                    let mut others = vec![];
                    for it in &im.items {
                        match it {
                            ImplItem::Type(t) => {
                                assoc.push((t.ident.to_string(), t.ty.clone()));
                                others.push(it.clone());
                            }
                            ImplItem::Const(_) => others.push(it.clone()),
                            _ => {}
                        }
                    }
                    for it in &im.items {
                        if let ImplItem::Fn(f) = it {
                            let mut dummy = vec![];
                            if f.sig.ident == spec.name.as_str() && cfg_of(&f.attrs, &mut dummy) != Some(false) {
                                let sp = f.span();
                                hits.push(Found {
                                    attrs: f.attrs.clone(),
                                    vis: f.vis.clone(),
                                    sig: f.sig.clone(),
                                    block: f.block.clone(),
                                    impl_header: Some((
                                        im.generics.clone(),
                                        im.trait_.as_ref().map(|t| t.1.clone()),
                                        (*im.self_ty).clone(),
                                    )),
                                    assoc_types: assoc.clone(),
                                    other_items: others.clone(),
                                    start_line: sp.start().line,
                                    end_line: sp.end().line,
                                });
                            }
                        }
                    }
                }
                _ => {}
            }
        }
        if hits.len() != 1 {
            die(&format!(
                "lost anchor: {} :: {} :: {} matched {} items",
                spec.file,
                spec.impl_key.clone().unwrap_or_default(),
                spec.name,
                hits.len()
            ));
        }
        hits.pop().unwrap()
    }

    fn extract(&mut self, spec: &ExtractSpec) {
        // FJX_FORCE_SPEC_ONLY=name,name (set by bin/check after the generated file was rejected inside these functions): the function is
        // emitted as a declaration with its contract ASSUMED (body dropped), so that the rest of the unit can still be decided; bin/check
        // reports the function itself, and every property it serves, as UNDECIDED
        let forced: Vec<String> = std::env::var("FJX_FORCE_SPEC_ONLY").unwrap_or_default().split(',').map(|x| x.to_string()).filter(|x| !x.is_empty()).collect();
        let emitted = spec.rename.clone().unwrap_or(spec.name.clone());
        let mut spec_owned;
        let spec: &ExtractSpec = if forced.contains(&emitted) && !spec.spec_only {
            spec_owned = spec.clone();
            spec_owned.spec_only = true;
            spec_owned.loops.clear();
            spec_owned.proofs.clear();
            spec_owned.optional_proofs.clear();
            spec_owned.abstracts.clear();
            spec_owned.until = None;
            spec_owned.forced_spec_only = true;
            &spec_owned
        } else {
            spec
        };
        let mut found = self.find_fn(spec);
        let mut log: Vec<String> = vec![];
        if spec.forced_spec_only {
            log.push("FORCED-SPEC-ONLY: body dropped after a type error inside it; contract assumed; the function is reported UNDECIDED".into());
            found.block = parse_quote! { { unimplemented!() } };
            if let (Some(_), Some(sig_text)) = (&spec.stmt_anchor, &spec.sig_text) {
                let item: syn::ItemFn = syn::parse_str(&format!("{sig_text} {{}}")).unwrap_or_else(|e| die(&format!("cannot parse //@sig: {e}")));
                found.sig = item.sig;
                found.vis = parse_quote! { pub };
                found.attrs = vec![];
                let has_receiver = matches!(found.sig.inputs.first(), Some(syn::FnArg::Receiver(_)));
                if !has_receiver { found.impl_header = None; }
                found.assoc_types = vec![];
                found.other_items = vec![];
            }
        }
        // R-SLICE (statement form): one statement of a large function, verified as a function of its free variables
        if let (Some(needle), false) = (&spec.stmt_anchor, spec.forced_spec_only) {
            use syn::spanned::Spanned;
            struct Finder<'a> {
                needle: &'a str,
                cands: Vec<(usize, Stmt, Vec<Stmt>)>,
            }
            impl<'a, 'ast> syn::visit::Visit<'ast> for Finder<'a> {
                fn visit_block(&mut self, b: &'ast syn::Block) {
                    for (k, st) in b.stmts.iter().enumerate() {
                        let t = tok(st);
                        if t.contains(self.needle) {
                            self.cands.push((t.len(), st.clone(), b.stmts[k + 1..].to_vec()));
                        }
                    }
                    syn::visit::visit_block(self, b);
                }
            }
            let n = nospace(needle);
            let mut f = Finder { needle: &n, cands: vec![] };
            syn::visit::Visit::visit_block(&mut f, &found.block);
            f.cands.sort_by_key(|c| c.0);
            if f.cands.is_empty() || (f.cands.len() > 1 && f.cands[0].0 == f.cands[1].0) {
                die(&format!("lost anchor: statement anchor `{needle}` in {}::{} matched {} innermost statements", spec.file, spec.name, f.cands.len()));
            }
            let inner_s = tok(&f.cands[0].1);
            for c in &f.cands[1..] {
                if !tok(&c.1).contains(&inner_s) {
                    die(&format!("lost anchor: statement anchor `{needle}` in {}::{} is ambiguous", spec.file, spec.name));
                }
            }
            if spec.anchor_up >= f.cands.len() {
                die(&format!("lost anchor: //@anchor-up {} but only {} enclosing statements", spec.anchor_up, f.cands.len()));
            }
            let stmt = f.cands[spec.anchor_up].1.clone();
            let sp = stmt.span();
            let sig_text = spec.sig_text.as_ref().unwrap_or_else(|| die("extract with //@anchor needs //@sig"));
            let item: syn::ItemFn = syn::parse_str(&format!("{sig_text} {{}}")).unwrap_or_else(|e| die(&format!("cannot parse //@sig: {e}")));
            let mut block: syn::Block = parse_quote! { { #stmt } };
            let mut sp_end = sp.end().line;
            if spec.to_block_end {
                // the slice runs from the anchor statement to the END of its enclosing block
                for st in &f.cands[spec.anchor_up].2 {
                    sp_end = st.span().end().line;
                    block.stmts.push(st.clone());
                }
            }
            if spec.stmts_n > 1 {
                let rest = &f.cands[spec.anchor_up].2;
                if rest.len() + 1 < spec.stmts_n {
                    die(&format!("lost anchor: //@stmts {} but only {} statements follow the anchor", spec.stmts_n, rest.len()));
                }
                for st in rest.iter().take(spec.stmts_n - 1) {
                    sp_end = st.span().end().line;
                    block.stmts.push(st.clone());
                }
            }
            let ends_with_value = spec.to_block_end
                && matches!(block.stmts.last(), Some(Stmt::Expr(e, None)) if !matches!(e, Expr::ForLoop(_) | Expr::While(_)));
            match &spec.yield_ident {
                _ if ends_with_value => {
                    // the enclosing block's own tail expression is the slice's result
                    if spec.wrap_ok {
                        if let Some(Stmt::Expr(e, None)) = block.stmts.pop() {
                            block.stmts.push(Stmt::Expr(parse_quote! { Ok(#e) }, None));
                        }
                    }
                }
                Some(y) => {
                    let ye: Expr = syn::parse_str(y).unwrap_or_else(|_| die("cannot parse //@yield expression"));
                    block.stmts.push(Stmt::Expr(ye, None));
                }
                None => block.stmts.push(Stmt::Expr(parse_quote! { shim_slice_end() }, None)),
            }
            log.push(format!(
                "R-SLICE statement `{}` of {}::{} (lines {}-{}) verified as a function of its free variables (signature from the unit file); the rest of the enclosing function is NOT under contract here",
                needle, spec.file, spec.name, sp.start().line, sp_end
            ));
            found.start_line = sp.start().line;
            found.end_line = sp_end;
            found.sig = item.sig;
            found.vis = parse_quote! { pub };
            found.attrs = vec![];
            found.block = block;
            // a slice whose signature has a receiver stays a method of the enclosing impl's type (emitted as inherent method)
            let has_receiver = matches!(found.sig.inputs.first(), Some(syn::FnArg::Receiver(_)));
            if !has_receiver {
                found.impl_header = None;
            }
            found.assoc_types = vec![];
            found.other_items = vec![];
        }
        let src_tokens = {
            let sig = &found.sig;
            let block = &found.block;
            token_strings(quote! { #sig #block })
        };
        let src_text: String = {
            let (src, _) = &self.files[&spec.file];
            src.lines()
                .skip(found.start_line - 1)
                .take(found.end_line - found.start_line + 1)
                .collect::<Vec<_>>()
                .join("\n")
        };

        let mut sig = found.sig.clone();
        let mut block = found.block.clone();

        // R-MUTSELF: `fn f(mut self, ..)` == `fn f(self, ..) { let mut __fjx_self = self; .. }` (Verus rejects `mut self`)
        let mut mutself = false;
        if let Some(syn::FnArg::Receiver(rc)) = sig.inputs.first_mut() {
            if rc.reference.is_none() && rc.mutability.is_some() {
                rc.mutability = None;
                mutself = true;
            }
        }
        if mutself {
            struct SelfRen;
            impl VisitMut for SelfRen {
                fn visit_ident_mut(&mut self, i: &mut proc_macro2::Ident) {
                    if i == "self" {
                        *i = proc_macro2::Ident::new("__fjx_self", i.span());
                    }
                }
                fn visit_macro_mut(&mut self, m: &mut syn::Macro) {
                    // token-level rename inside macro arguments
                    fn ren(ts: TokenStream) -> TokenStream {
                        ts.into_iter()
                            .map(|t| match t {
                                TokenTree::Ident(i) if i == "self" => TokenTree::Ident(proc_macro2::Ident::new("__fjx_self", i.span())),
                                TokenTree::Group(g) => {
                                    let mut ng = proc_macro2::Group::new(g.delimiter(), ren(g.stream()));
                                    ng.set_span(g.span());
                                    TokenTree::Group(ng)
                                }
                                o => o,
                            })
                            .collect()
                    }
                    m.tokens = ren(m.tokens.clone());
                }
            }
            SelfRen.visit_block_mut(&mut block);
            block.stmts.insert(0, parse_quote! { let mut __fjx_self = self; });
            log.push("R-MUTSELF `mut self` receiver desugared to `let mut __fjx_self = self;`".into());
        }
        // R-ABS: a named top-level statement is replaced by a call of a declared shim (its text is dropped, and said so)
        for (needle, repl) in spec.abstracts.iter() {
            let n = nospace(needle);
            let hits: Vec<usize> = block.stmts.iter().enumerate().filter(|(_, s)| tok(*s).contains(&n)).map(|(i, _)| i).collect();
            if hits.len() != 1 {
                die(&format!("lost anchor: R-ABS anchor `{needle}` matched {} top-level statements of {}", hits.len(), spec.name));
            }
            let new: Stmt = syn::parse_str::<Stmt>(repl).unwrap_or_else(|_| die(&format!("R-ABS replacement `{repl}` is not a statement")));
            let old_toks = token_strings(block.stmts[hits[0]].to_token_stream()).len();
            block.stmts[hits[0]] = new;
            log.push(format!("R-ABS statement containing `{needle}` ({old_toks} tokens) NOT under contract: replaced by `{repl}` (assumed contract of that shim)"));
        }
        // R-SLICE: keep the statements up to and including the anchor statement; the rest is not verified text
        if let Some(needle) = &spec.until {
            let n = nospace(needle);
            let hits: Vec<usize> = block.stmts.iter().enumerate().filter(|(_, s)| tok(*s).contains(&n)).map(|(i, _)| i).collect();
            if hits.len() != 1 {
                die(&format!("lost anchor: R-SLICE anchor `{needle}` matched {} top-level statements of {}", hits.len(), spec.name));
            }
            let dropped = block.stmts.len() - hits[0] - 1;
            block.stmts.truncate(hits[0] + 1);
            block.stmts.push(Stmt::Expr(parse_quote! { shim_slice_end() }, None));
            log.push(format!("R-SLICE body cut after `{needle}`: {dropped} trailing statement(s) NOT under contract"));
        }
        let mut pats = self.world_pats.clone();
        pats.extend(spec.world_pats.iter().cloned());
        if spec.world {
            pats.extend(self.auto_world_patterns());
        }
        // names whose calls may not be dropped with a log statement; reads declared `//@pure` (ghost world unchanged) are fine
        let effect_names: Vec<String> = pats
            .iter()
            .map(|p| p.rsplit_once('.').map(|x| x.1.to_string()).unwrap_or(p.clone()))
            .filter(|n| !self.pure_names.contains(n))
            .collect();

        // R-CFG
        CfgPass { log: &mut log }.visit_block_mut(&mut block);
        // R-ATTR
        let mut ap = AttrPass { dropped: found.attrs.len() };
        ap.visit_block_mut(&mut block);
        ap.visit_signature_mut(&mut sig);
        if ap.dropped > 0 {
            log.push(format!("R-ATTR dropped {} attribute(s)", ap.dropped));
        }
        // R-MAC
        if !self.macros.is_empty() || self.vec_pushes {
            MacPass { macros: &self.macros, vec_pushes: self.vec_pushes, nvec: 0, log: &mut log }.visit_block_mut(&mut block);
        }
        if !self.method_shims.is_empty() {
            // R-METHOD: `recv.m(args)` -> `f(recv, args)` for the std methods named by //@method-shim (Verus cannot attach a
            // specification to them, e.g. the const-generic return type of uN::to_le_bytes); f is a shim with an assumed contract
            struct MethodPass<'a> { tbl: &'a [(String, String)], log: &'a mut Vec<String> }
            impl<'a> VisitMut for MethodPass<'a> {
                fn visit_expr_mut(&mut self, e: &mut Expr) {
                    visit_mut::visit_expr_mut(self, e);
                    let mut new: Option<Expr> = None;
                    if let Expr::MethodCall(mc) = e {
                        if let Some((_, f)) = self.tbl.iter().find(|(m, _)| mc.method == m) {
                            let fi: syn::Path = syn::parse_str(f).unwrap_or_else(|_| die("bad //@method-shim target"));
                            let recv = &mc.receiver;
                            let args: Vec<&Expr> = mc.args.iter().collect();
                            new = Some(parse_quote! { #fi(#recv #(, #args)*) });
                            self.log.push(format!("R-METHOD .{}() -> {}(..)", mc.method, f));
                        }
                    }
                    if let Some(n) = new { *e = n; }
                }
            }
            MethodPass { tbl: &self.method_shims, log: &mut log }.visit_block_mut(&mut block);
        }
        // R-LOG / R-DBG
        LogDbgPass { log: &mut log, effect_names: &effect_names }.visit_block_mut(&mut block);
        // R-HOF
        let ret_is_option = match &sig.output {
            syn::ReturnType::Type(_, t) => {
                let s = tok(t);
                s.starts_with("Option<") || s.starts_with("std::option::Option<")
            }
            _ => false,
        };
        HofPass { log: &mut log, counter: 0, ret_is_option, closure_depth: 0, optmap: spec.optmap, boundmap: spec.boundmap }.visit_block_mut(&mut block);
        if self.range_shim {
            // R-RANGE: `..=e` IS `core::ops::RangeToInclusive { end: e }` and `..e` IS `core::ops::RangeTo { end: e }` (language
            // definition of range expressions); spelled out so that the unit's shim structs of the same name are used
            struct RangePass<'a> { log: &'a mut Vec<String> }
            impl<'a> VisitMut for RangePass<'a> {
                fn visit_expr_mut(&mut self, e: &mut Expr) {
                    visit_mut::visit_expr_mut(self, e);
                    if let Expr::Range(r) = e {
                        if r.start.is_none() {
                            if let Some(end) = &r.end {
                                let new: Expr = match r.limits {
                                    syn::RangeLimits::Closed(_) => parse_quote! { RangeToInclusive { end: #end } },
                                    syn::RangeLimits::HalfOpen(_) => parse_quote! { RangeTo { end: #end } },
                                };
                                self.log.push("R-RANGE range-to expression spelled as its struct".into());
                                *e = new;
                            }
                        }
                    }
                }
            }
            RangePass { log: &mut log }.visit_block_mut(&mut block);
        }
        if self.cursor_shim {
            // R-CURSOR: `&mut &E[..]` (a fresh `&[u8]` over all bytes of E, consumed only through std::io::Read) is a byte cursor at
            // position 0 over E's bytes: `&mut shim_cursor(&E)` (same representation as rule R-TYPE `&[u8] => ByteCursor`)
            struct CursorPass<'a> { log: &'a mut Vec<String> }
            impl<'a> VisitMut for CursorPass<'a> {
                fn visit_expr_mut(&mut self, e: &mut Expr) {
                    visit_mut::visit_expr_mut(self, e);
                    let mut new: Option<Expr> = None;
                    if let Expr::Reference(r1) = e {
                        if r1.mutability.is_some() {
                            if let Expr::Reference(r2) = &*r1.expr {
                                if r2.mutability.is_none() {
                                    if let Expr::Index(ix) = &*r2.expr {
                                        if let Expr::Range(rg) = &*ix.index {
                                            if rg.start.is_none() && rg.end.is_none() {
                                                let inner = &ix.expr;
                                                new = Some(parse_quote! { &mut shim_cursor(&#inner) });
                                            }
                                        }
                                    }
                                }
                            }
                        }
                    }
                    if let Some(n) = new {
                        self.log.push("R-CURSOR `&mut &E[..]` spelled as a byte cursor over E".into());
                        *e = n;
                    }
                }
            }
            CursorPass { log: &mut log }.visit_block_mut(&mut block);
        }
        {
            // R-WILD: a closure parameter `_` is an unused binding; it is given a name (Verus rejects `_` closure parameters)
            struct WildPass<'a> { n: usize, log: &'a mut Vec<String> }
            impl<'a> VisitMut for WildPass<'a> {
                fn visit_expr_closure_mut(&mut self, c: &mut syn::ExprClosure) {
                    for p in c.inputs.iter_mut() {
                        if matches!(p, syn::Pat::Wild(_)) {
                            let id = quote::format_ident!("__fjx_unused{}", self.n);
                            self.n += 1;
                            *p = parse_quote! { #id };
                            self.log.push("R-WILD closure parameter `_` named".into());
                        }
                    }
                    visit_mut::visit_expr_closure_mut(self, c);
                }
            }
            WildPass { n: 0, log: &mut log }.visit_block_mut(&mut block);
        }
        if !spec.refargs.is_empty() {
            struct RefArg<'a> { ms: &'a [String], log: &'a mut Vec<String> }
            impl<'a> VisitMut for RefArg<'a> {
                fn visit_expr_method_call_mut(&mut self, mc: &mut syn::ExprMethodCall) {
                    visit_mut::visit_expr_method_call_mut(self, mc);
                    if self.ms.iter().any(|m| mc.method == m.as_str()) && matches!(&*mc.receiver, Expr::Path(p) if p.path.is_ident("self")) {
                        for a in mc.args.iter_mut() {
                            let inner = a.clone();
                            *a = parse_quote! { shim_by_ref(#inner) };
                        }
                        self.log.push(format!("R-REFARG reference arguments of self.{}(..) passed through the spelled-out blanket `impl AsRef<U> for &T`", mc.method));
                    }
                }
            }
            RefArg { ms: &spec.refargs, log: &mut log }.visit_block_mut(&mut block);
        }
        // R-FORTMP
        ForTmp { log: &mut log, n: 0 }.visit_block_mut(&mut block);
        // R-SCOPE (after R-TRY so that every exit is an explicit `return`)
        let param_guards: Vec<proc_macro2::Ident> = sig
            .inputs
            .iter()
            .filter_map(|a| match a {
                syn::FnArg::Typed(pt) => match &*pt.pat {
                    syn::Pat::Ident(pi) if self.guards.iter().any(|g| g.strip_prefix("param:").map(|n| pi.ident == n).unwrap_or(false)) => Some(pi.ident.clone()),
                    _ => None,
                },
                _ => None,
            })
            .collect();
        let guard_pats: Vec<String> = self.guards.iter().filter(|g| !g.starts_with("param:")).cloned().collect();
        {
            // R-TMPGUARD: `<lock acquisition>.m(args);` as an expression statement holds the guard in a temporary, which the
            // language drops at the end of that statement; spelled out with a named guard and an explicit drop
            struct TmpGuard<'a> { pats: &'a [String], log: &'a mut Vec<String>, n: usize }
            impl<'a> VisitMut for TmpGuard<'a> {
                fn visit_block_mut(&mut self, b: &mut syn::Block) {
                    visit_mut::visit_block_mut(self, b);
                    for st in b.stmts.iter_mut() {
                        if let Stmt::Expr(Expr::MethodCall(mc), Some(_)) = st {
                            let r = tok(&mc.receiver);
                            if self.pats.iter().any(|p| r.ends_with(p.as_str()) || r.contains(&format!("{p}.expect(")) || r.ends_with(&format!("{p}?")))
                                && !matches!(&*mc.receiver, Expr::Path(_))
                            {
                                let recv = &mc.receiver; let m = &mc.method; let args = &mc.args; let tf = &mc.turbofish;
                                let g = quote::format_ident!("__fjx_tg{}", self.n);
                                self.n += 1;
                                let new: Stmt = parse_quote! { { let mut #g = #recv; let __fjx_tr = #g.#m #tf (#args); drop(#g); __fjx_tr }; };
                                self.log.push(format!("R-TMPGUARD temporary lock guard of `.{}(..)` bound and dropped at the end of its statement (language definition)", m));
                                *st = new;
                            }
                        }
                    }
                }
            }
            TmpGuard { pats: &guard_pats, log: &mut log, n: 0 }.visit_block_mut(&mut block);
        }
        scope_pass(&mut block, &guard_pats, &param_guards, &mut log);
        // R-ITER: `p: impl Iterator<Item = &'a T>` -> `p: &'a [T]`, `for x in p` -> `for x in p.iter()`
        for pname in &spec.iter_params {
            self.check_iter_call_sites(&spec.name);
            let mut done = false;
            for inp in sig.inputs.iter_mut() {
                if let syn::FnArg::Typed(pt) = inp {
                    if tok(&pt.pat) == *pname {
                        let mut new_ty: Option<syn::Type> = None;
                        if let syn::Type::ImplTrait(it) = &*pt.ty {
                            if let Some(syn::TypeParamBound::Trait(tb)) = it.bounds.first() {
                                if let Some(seg) = tb.path.segments.last() {
                                    if seg.ident == "Iterator" {
                                        if let syn::PathArguments::AngleBracketed(ab) = &seg.arguments {
                                            for ga in &ab.args {
                                                if let syn::GenericArgument::AssocType(at) = ga {
                                                    if at.ident == "Item" {
                                                        if let syn::Type::Reference(r) = &at.ty {
                                                            let elem = &r.elem;
                                                            new_ty = Some(match &r.lifetime {
                                                                Some(l) => parse_quote! { &#l [#elem] },
                                                                None => parse_quote! { &[#elem] },
                                                            });
                                                        }
                                                    }
                                                }
                                            }
                                        }
                                    }
                                }
                            }
                        }
                        if let Some(t) = new_ty {
                            pt.ty = Box::new(t);
                            done = true;
                        }
                    }
                }
            }
            if !done {
                die(&format!("lost anchor: R-ITER parameter `{pname}` of {} is not `impl Iterator<Item = &T>`", spec.name));
            }
            struct ForIter<'a> {
                name: &'a str,
                n: usize,
            }
            impl<'a> VisitMut for ForIter<'a> {
                fn visit_expr_for_loop_mut(&mut self, f: &mut syn::ExprForLoop) {
                    if tok(&f.expr) == self.name {
                        let e = &f.expr;
                        f.expr = Box::new(parse_quote! { #e.iter() });
                        self.n += 1;
                    }
                    visit_mut::visit_expr_for_loop_mut(self, f);
                }
            }
            let mut fi = ForIter { name: pname, n: 0 };
            fi.visit_block_mut(&mut block);
            if fi.n != 1 {
                die(&format!("lost anchor: R-ITER expects exactly one `for _ in {pname}` in {}", spec.name));
            }
            log.push(format!("R-ITER parameter `{pname}`: impl Iterator<Item=&T> narrowed to &[T] (every call site passes <vec>.iter())"));
        }
        // R-ITER at call sites: `callee(.., X.iter(), ..)` -> `callee(.., X.as_slice(), ..)`
        if !spec.iter_args.is_empty() {
            struct IterArg<'a> {
                table: &'a [(String, usize)],
                log: &'a mut Vec<String>,
            }
            impl<'a> VisitMut for IterArg<'a> {
                fn visit_expr_method_call_mut(&mut self, mc: &mut syn::ExprMethodCall) {
                    visit_mut::visit_expr_method_call_mut(self, mc);
                    for (m, k) in self.table {
                        if mc.method == m.as_str() {
                            if let Some(arg) = mc.args.iter_mut().nth(*k) {
                                if let Expr::MethodCall(inner) = arg {
                                    if inner.method == "iter" && inner.args.is_empty() {
                                        let r = &inner.receiver;
                                        *arg = parse_quote! { #r.as_slice() };
                                        self.log.push(format!("R-ITER call site .{m}(..): X.iter() -> X.as_slice()"));
                                        continue;
                                    }
                                }
                                die(&format!("lost anchor: R-ITER call site .{m}: argument {k} is not `<e>.iter()`"));
                            }
                        }
                    }
                }
            }
            IterArg { table: &spec.iter_args, log: &mut log }.visit_block_mut(&mut block);
        }
        // R-FOR (before R-WORLD, so that the generated `.next()` calls can receive the ghost world)
        if !spec.desugar_for.is_empty() || !spec.desugar_for_plain.is_empty() {
            let mut all = spec.desugar_for.clone();
            all.extend(spec.desugar_for_plain.iter().cloned());
            let mut fd = ForDesugar { n: 0, which: &all, plain: &spec.desugar_for_plain, log: &mut log };
            fd.visit_block_mut(&mut block);
        }
        // R-TRAIT: Self::Assoc -> definition when a trait method is emitted as an inherent method
        let mut assoc_types = found.assoc_types.clone();
        for (a, t) in &spec.assoc {
            let ty: syn::Type = syn::parse_str(t).unwrap_or_else(|_| die("assoc=: cannot parse type"));
            assoc_types.push((a.clone(), ty));
        }
        if spec.inherent && !assoc_types.is_empty() {
            struct Assoc<'a> {
                tys: &'a [(String, syn::Type)],
                log: &'a mut Vec<String>,
            }
            impl<'a> VisitMut for Assoc<'a> {
                fn visit_type_mut(&mut self, t: &mut syn::Type) {
                    if let syn::Type::Path(tp) = t {
                        if tp.qself.is_none() && tp.path.segments.len() == 2 && tp.path.segments[0].ident == "Self" {
                            let n = tp.path.segments[1].ident.to_string();
                            if let Some((_, def)) = self.tys.iter().find(|(k, _)| *k == n) {
                                self.log.push(format!("R-TRAIT Self::{} => {}", n, tok(def)));
                                *t = def.clone();
                                return;
                            }
                        }
                    }
                    visit_mut::visit_type_mut(self, t);
                }
            }
            let mut a = Assoc { tys: &assoc_types, log: &mut log };
            a.visit_signature_mut(&mut sig);
            a.visit_block_mut(&mut block);
        }
        // R-TYPE: whole-type renaming to a shim type (names only, like R-PATH; for types R-PATH cannot express, e.g. Arc<dyn Trait>)
        if !self.type_map.is_empty() {
            struct TypeMap<'a> {
                map: &'a [(String, String)],
                log: &'a mut Vec<String>,
            }
            impl<'a> VisitMut for TypeMap<'a> {
                fn visit_type_mut(&mut self, t: &mut syn::Type) {
                    let s = tok(t);
                    for (from, to) in self.map {
                        if s == *from {
                            *t = syn::parse_str(to).unwrap_or_else(|_| die("R-TYPE: cannot parse target type"));
                            self.log.push(format!("R-TYPE {from} => {to}"));
                            return;
                        }
                    }
                    visit_mut::visit_type_mut(self, t);
                }
            }
            let mut tm = TypeMap { map: &self.type_map, log: &mut log };
            tm.visit_signature_mut(&mut sig);
            tm.visit_block_mut(&mut block);
        }
        // R-PATH
        {
            let mut pp = PathPass { table: &self.paths, log: &mut log };
            pp.visit_signature_mut(&mut sig);
            pp.visit_block_mut(&mut block);
        }
        if !self.identity_casts.is_empty() {
            // R-CAST: `E as T` where, after R-TYPE / R-PATH, T is the (shim) type E already has: the source's unsizing cast to a trait
            // object has nothing left to do
            struct CastPass<'a> { tys: &'a [String], log: &'a mut Vec<String> }
            impl<'a> VisitMut for CastPass<'a> {
                fn visit_expr_mut(&mut self, e: &mut Expr) {
                    visit_mut::visit_expr_mut(self, e);
                    let mut new: Option<Expr> = None;
                    if let Expr::Cast(c) = e {
                        if self.tys.iter().any(|t| *t == tok(&c.ty)) {
                            new = Some((*c.expr).clone());
                        }
                    }
                    if let Some(n) = new {
                        self.log.push("R-CAST identity cast dropped".into());
                        *e = n;
                    }
                }
            }
            CastPass { tys: &self.identity_casts, log: &mut log }.visit_block_mut(&mut block);
        }
        // R-WORLD
        if spec.world {
            if std::env::var("FJX_DEBUG").is_ok() { eprintln!("world pats for {}: {:?}", spec.name, pats); }
            WorldPass { pats: &pats, log: &mut log }.visit_block_mut(&mut block);
            sig.inputs.push(parse_quote! { Tracked(w): Tracked<&mut World> });
            log.push("R-WORLD ghost parameter added".into());
        }
        if let Some(n) = &spec.rename {
            log.push(format!("R-TRAIT renamed {} => {}", sig.ident, n));
            sig.ident = quote::format_ident!("{}", n);
        }

        // measured difference source -> emitted (before ghost markers / contracts)
        let out_tokens = token_strings(quote! { #sig #block });
        let (del, ins, nd, ni) = token_diff(&src_tokens, &out_tokens);

        // R-RET
        let has_ret = !matches!(sig.output, syn::ReturnType::Default);
        if has_ret {
            if let syn::ReturnType::Type(_, t) = &sig.output {
                let t = t.clone();
                sig.output = parse_quote! { -> __FjxRet<#t> };
            }
        }

        if spec.spec_only {
            block = parse_quote! { { unimplemented!() } };
            log.push("SPEC-ONLY: body not verified here (declaration with the contract proved in another unit)".into());
        }
        // markers
        let mut lm = LoopMarker { n: 0, with_binder: spec.loops.keys().cloned().collect(), desugared: spec.desugar_for.iter().chain(spec.desugar_for_plain.iter()).cloned().collect() };
        lm.visit_block_mut(&mut block);
        let n_loops = lm.n;
        for k in spec.loops.keys() {
            if *k >= n_loops {
                die(&format!("lost anchor: {}::{} has {} loops, contract names loop {}", spec.file, spec.name, n_loops, k));
            }
        }
        let needles: Vec<(String, bool, usize)> = spec
            .proofs
            .iter()
            .enumerate()
            .filter(|(_, (n, _, _))| !n.starts_with("@loop-start") && !n.starts_with("@loop-end"))
            .map(|(i, (n, a, _))| (nospace(n), *a, i))
            .collect();
        if !needles.is_empty() {
            let mut pm = ProofMarker { needles: &needles, hits: vec![0; spec.proofs.len()] };
            pm.visit_block_mut(&mut block);
            for (_, _, i) in needles.iter() {
                let h = pm.hits[*i];
                if h == 0 && spec.optional_proofs.contains(i) {
                    log.push(format!("R-PROOF at-call anchor `{}` absent: the call is not made, no obligation", spec.proofs[*i].0));
                    continue;
                }
                if h != 1 {
                    die(&format!(
                        "lost anchor: proof anchor `{}` in {}::{} matched {} statements",
                        spec.proofs[*i].0, spec.file, spec.name, h
                    ));
                }
            }
        }
        block.stmts.insert(0, parse_quote! { __fjx_contract!(); });

        let vis: syn::Visibility = match &found.vis {
            syn::Visibility::Restricted(_) => {
                log.push("R-VIS restricted visibility spelled `pub` (the unit is a single module)".into());
                parse_quote! { pub }
            }
            v => v.clone(),
        };
        let vis = &vis;
        let fn_ts = if spec.spec_only {
            quote! { #[verifier::external_body] #vis #sig #block }
        } else if spec.no_decreases {
            // partial correctness only: the loop has no variant (a retry loop); termination is NOT claimed
            quote! { #[verifier::exec_allows_no_decreases_clause] #vis #sig #block }
        } else if spec.no_loop_isolation {
            // proof strategy only (no effect on the executable text): facts established before a loop stay available in it
            quote! { #[verifier::loop_isolation(false)] #vis #sig #block }
        } else {
            quote! { #vis #sig #block }
        };
        let (wrapped, wrapper_open): (String, bool) = match &found.impl_header {
            None => (fn_ts.to_string(), false),
            Some((generics, tr, ty)) => {
                let (ig, _, wc) = generics.split_for_impl();
                if spec.as_trait {
                    let tr = tr.as_ref().unwrap_or_else(|| die("as_trait on inherent impl"));
                    let others = &found.other_items;
                    (quote! { impl #ig #tr for #ty #wc { #(#others)* #fn_ts } }.to_string(), true)
                } else {
                    if tr.is_some() && !spec.inherent {
                        die(&format!("{}::{} is a trait method: say `inherent` or `as_trait`", spec.file, spec.name));
                    }
                    if tr.is_some() {
                        log.push(format!("R-TRAIT trait method emitted as inherent method of {}", tok(ty)));
                    }
                    (quote! { impl #ig #ty #wc { #fn_ts } }.to_string(), true)
                }
            }
        };
        let _ = wrapper_open;
        let formatted = rustfmt(&wrapped).unwrap_or_else(|| {
            log.push("rustfmt failed; emitted unformatted".into());
            if std::env::var("FJX_DEBUG").is_ok() { eprintln!("rustfmt failed on:\n{wrapped}"); }
            wrapped.clone()
        });

        // splice
        let mut text = formatted;
        // named return
        if has_ret {
            if let Some(pos) = text.find("__FjxRet<") {
                let start = pos + "__FjxRet<".len();
                let bytes = text.as_bytes();
                let mut depth = 1;
                let mut i = start;
                while i < bytes.len() && depth > 0 {
                    match bytes[i] {
                        b'<' => depth += 1,
                        b'>' if bytes[i - 1] != b'-' => depth -= 1,
                        _ => {}
                    }
                    i += 1;
                }
                let inner = text[start..i - 1].to_string();
                text.replace_range(pos..i, &format!("({}: {})", spec.ret, inner));
                log.push(format!("R-RET return value named `{}`", spec.ret));
            } else {
                die(&format!("internal: return marker lost in\n{text}"));
            }
        }
        let splice_before_brace = |text: &mut String, marker: &str, lines: &[String], repl: &str| {
            let pos = text.find(marker).unwrap_or_else(|| die(&format!("internal: marker {marker} lost")));
            // remove marker (and the rest of its line)
            let line_start = text[..pos].rfind('\n').map(|p| p + 1).unwrap_or(0);
            let line_end = text[pos..].find('\n').map(|p| pos + p + 1).unwrap_or(text.len());
            let only_marker = text[line_start..line_end].trim() == marker;
            if only_marker && repl.is_empty() {
                text.replace_range(line_start..line_end, "");
            } else {
                text.replace_range(pos..pos + marker.len(), repl);
            }
            let brace = text[..line_start.min(text.len())].rfind('{').unwrap_or_else(|| die("internal: brace lost"));
            if !lines.is_empty() {
                let ins = format!("\n{}\n", lines.join("\n"));
                text.insert_str(brace, &ins);
            }
        };
        // ghost iteration counters of R-FOR loops (number of items taken so far)
        for idx in spec.desugar_for.iter().chain(spec.desugar_for_plain.iter()) {
            text = text.replace(&format!("__fjx_ghost_decl!({idx});"), &format!("let ghost mut __fjx_n{idx}: int = 0;"));
            text = text.replace(&format!("__fjx_ghost_inc!({idx});"), &format!("proof {{ __fjx_n{idx} = __fjx_n{idx} + 1; }}"));
        }
        // ghost binder for `for` loops under contract: `for x in E` -> `for x in it: E`
        while let Some(pos) = text.find("__fjx_iter!(") {
            let start = pos + "__fjx_iter!(".len();
            let bytes = text.as_bytes();
            let mut depth = 1;
            let mut i = start;
            while i < bytes.len() && depth > 0 {
                match bytes[i] {
                    b'(' => depth += 1,
                    b')' => depth -= 1,
                    _ => {}
                }
                i += 1;
            }
            let inner = text[start..i - 1].to_string();
            text.replace_range(pos..i, &format!("it: {}", inner));
        }
        let bu = if self.broadcast.is_empty() || spec.spec_only { String::new() } else { format!("broadcast use {};", self.broadcast) };
        splice_before_brace(&mut text, "__fjx_contract!();", &spec.contract, &bu);
        for n in 0..n_loops {
            let marker = format!("__fjx_loop!({n});");
            let empty = vec![];
            let lines = spec.loops.get(&n).unwrap_or(&empty);
            splice_before_brace(&mut text, &marker, lines, "");
        }
        // loop-start anchors
        for n in 0..n_loops {
            let marker = format!("__fjx_loopstart!({n});");
            let repl = spec
                .proofs
                .iter()
                .filter(|(needle, _, _)| needle.trim() == format!("@loop-start {n}"))
                .map(|(_, _, lines)| lines.join("\n"))
                .collect::<Vec<_>>()
                .join("\n");
            text = text.replace(&marker, &repl);
        }
        for n in 0..n_loops {
            let marker = format!("__fjx_loopend!({n});");
            let repl = spec
                .proofs
                .iter()
                .filter(|(needle, _, _)| needle.trim() == format!("@loop-end {n}"))
                .map(|(_, _, lines)| lines.join("\n"))
                .collect::<Vec<_>>()
                .join("\n");
            text = text.replace(&marker, &repl);
        }
        for (needle, _, _) in spec.proofs.iter() {
            if let Some(k) = needle.trim().strip_prefix("@loop-end ") {
                let k: usize = k.parse().unwrap_or_else(|_| die("bad @loop-end"));
                if k >= n_loops {
                    die(&format!("lost anchor: @loop-end {k}: function has {n_loops} loops"));
                }
            }
            if let Some(k) = needle.trim().strip_prefix("@loop-start ") {
                let k: usize = k.parse().unwrap_or_else(|_| die("bad @loop-start"));
                if k >= n_loops {
                    die(&format!("lost anchor: @loop-start {k}: function has {n_loops} loops"));
                }
            }
        }
        for (i, (needle, _, lines)) in spec.proofs.iter().enumerate() {
            if needle.starts_with("@loop-start") || needle.starts_with("@loop-end") {
                continue;
            }
            let marker = format!("__fjx_proof!({i});");
            if spec.optional_proofs.contains(&i) && !text.contains(&marker) {
                continue;
            }
            let pos = text.find(&marker).unwrap_or_else(|| die("internal: proof marker lost"));
            text.replace_range(pos..pos + marker.len(), &lines.join("\n"));
        }

        let begin_line = self.out.lines().count() + 2;
        let _ = writeln!(
            self.out,
            "// ---- fjx: extracted from {}:{}-{} ({}{}) props={} ----",
            spec.file,
            found.start_line,
            found.end_line,
            spec.impl_key.as_ref().map(|k| format!("{k}::")).unwrap_or_default(),
            spec.name,
            spec.props.join("+")
        );
        self.out.push_str(&text);
        if !text.ends_with('\n') {
            self.out.push('\n');
        }
        let end_line = self.out.lines().count();
        let _ = writeln!(self.out, "// ---- fjx: end {} ----", spec.name);

        self.n_extracted += 1;
        self.report.push(format!(
            "{{\"kind\":\"fn\",\"file\":{},\"impl\":{},\"fn\":{},\"emitted_as\":{},\"qual\":{},\"props\":{},\"src_lines\":[{},{}],\"gen_lines\":[{},{}],\"src_text\":{},\"rules\":{},\"tokens_src\":{},\"tokens_deleted\":{},\"tokens_inserted\":{},\"deleted\":{},\"inserted\":{},\"loops\":{},\"world\":{},\"spec_only\":{},\"as_trait\":{},\"contract_file\":{}}}",
            jstr(&spec.file),
            jstr(spec.impl_key.as_deref().unwrap_or("")),
            jstr(&spec.name),
            jstr(spec.rename.as_deref().unwrap_or(&spec.name)),
            jstr(&match &found.impl_header {
                Some((_, _, ty)) => format!("{}::{}", tok(ty), spec.rename.as_deref().unwrap_or(&spec.name)),
                None => spec.rename.clone().unwrap_or(spec.name.clone()),
            }),
            jlist(&spec.props),
            found.start_line,
            found.end_line,
            begin_line,
            end_line,
            jstr(&src_text),
            jlist(&log),
            src_tokens.len(),
            nd,
            ni,
            jlist(&del),
            jlist(&ins),
            n_loops,
            spec.world,
            spec.spec_only,
            spec.as_trait,
            jstr(spec.contract_file.as_deref().unwrap_or(""))
        ));
    }

    /// R-WORLD effect table, derived from the shim: a method name whose every declaration so far takes the ghost
    /// world gets the pattern `*.name`, unless the name is also a common std method name (those need an explicit
    /// receiver pattern in the unit file, because syn has no types)
    fn auto_world_patterns(&self) -> Vec<String> {
        const STOP: &[&str] = &[
            "insert", "remove", "get", "next", "clear", "len", "load", "store", "read", "write", "open", "send", "lock",
            "iter", "push", "pop", "contains_key", "first", "last", "take", "drop", "new", "clone", "default", "flush",
            "range", "prefix", "set", "is_empty", "values", "keys", "entry", "retain", "min", "max", "fetch_max", "fetch_add",
            "recv", "try_send", "join", "finish", "update", "sum", "map", "close",
        ];
        let mut with: BTreeMap<String, (usize, usize)> = BTreeMap::new();
        let text = &self.out;
        let bytes = text.as_bytes();
        let mut i = 0;
        while let Some(p) = text[i..].find("fn ") {
            let start = i + p + 3;
            i = start;
            if start >= 4 && (bytes[start - 4] as char).is_alphanumeric() {
                continue;
            }
            let name_end = text[start..].find(|c: char| !(c.is_alphanumeric() || c == '_')).map(|e| start + e).unwrap_or(text.len());
            let name = &text[start..name_end];
            if name.is_empty() {
                continue;
            }
            // parameter list: up to the matching ')'
            if let Some(po) = text[name_end..].find('(') {
                let mut depth = 0;
                let mut j = name_end + po;
                let b = text.as_bytes();
                while j < b.len() {
                    match b[j] {
                        b'(' => depth += 1,
                        b')' => {
                            depth -= 1;
                            if depth == 0 {
                                break;
                            }
                        }
                        _ => {}
                    }
                    j += 1;
                }
                let params = &text[name_end + po..j.min(text.len())];
                let has_self = params.contains("self");
                if !has_self {
                    continue;
                }
                let e = with.entry(name.to_string()).or_insert((0, 0));
                if params.contains("Tracked(w)") {
                    e.0 += 1;
                } else {
                    e.1 += 1;
                }
            }
        }
        with.into_iter()
            .filter(|(n, (a, b))| *a > 0 && *b == 0 && !STOP.contains(&n.as_str()))
            .map(|(n, _)| format!("*.{n}"))
            .collect()
    }

    /// every call `.name(first_arg, ..)` in the crate (tests included) must pass `<e>.iter()` as first argument
    fn check_iter_call_sites(&mut self, name: &str) {
        fn walk(dir: &Path, out: &mut Vec<PathBuf>) {
            if let Ok(rd) = std::fs::read_dir(dir) {
                for e in rd.flatten() {
                    let p = e.path();
                    if p.is_dir() {
                        walk(&p, out);
                    } else if p.extension().map(|x| x == "rs").unwrap_or(false) {
                        out.push(p);
                    }
                }
            }
        }
        let mut files = vec![];
        walk(&self.repo.join("src"), &mut files);
        struct V<'a> {
            name: &'a str,
            bad: Vec<String>,
            n: usize,
        }
        impl<'a, 'ast> syn::visit::Visit<'ast> for V<'a> {
            fn visit_expr_method_call(&mut self, mc: &'ast syn::ExprMethodCall) {
                if mc.method == self.name {
                    self.n += 1;
                    let ok = matches!(mc.args.first(), Some(Expr::MethodCall(i)) if i.method == "iter" && i.args.is_empty());
                    if !ok {
                        self.bad.push(tok(mc));
                    }
                }
                syn::visit::visit_expr_method_call(self, mc);
            }
        }
        let mut v = V { name, bad: vec![], n: 0 };
        for f in files {
            if let Ok(src) = std::fs::read_to_string(&f) {
                if let Ok(parsed) = syn::parse_file(&src) {
                    syn::visit::Visit::visit_file(&mut v, &parsed);
                }
            }
        }
        if !v.bad.is_empty() {
            die(&format!("unsupported construct: R-ITER needs every call site of `{name}` to pass `<e>.iter()`; found {}", v.bad[0]));
        }
    }

    fn extract_type(&mut self, file: &str, name: &str, derives: &[String]) {
        let (_, f) = self.load(file).clone();
        use syn::spanned::Spanned;
        let mut log = vec![];
        for item in &f.items {
            let (ident, sp) = match item {
                Item::Struct(s) => (s.ident.to_string(), s.span()),
                Item::Enum(s) => (s.ident.to_string(), s.span()),
                Item::Type(s) => (s.ident.to_string(), s.span()),
                Item::Const(s) => (s.ident.to_string(), s.span()),
                _ => continue,
            };
            if ident != name {
                continue;
            }
            let mut dummy = vec![];
            if cfg_of(&item_attrs(item), &mut dummy) == Some(false) {
                continue;
            }
            let mut it = item.clone();
            let src_tokens = token_strings(it.to_token_stream());
            // cfg on fields / variants
            CfgPass { log: &mut log }.visit_item_mut(&mut it);
            let mut ap = AttrPass { dropped: 0 };
            ap.visit_item_mut(&mut it);
            match &mut it {
                Item::Struct(s) => {
                    ap.dropped += s.attrs.len();
                    s.attrs.clear();
                }
                Item::Enum(s) => {
                    ap.dropped += s.attrs.len();
                    s.attrs.clear();
                }
                Item::Type(s) => {
                    ap.dropped += s.attrs.len();
                    s.attrs.clear();
                }
                Item::Const(s) => {
                    ap.dropped += s.attrs.len();
                    s.attrs.clear();
                }
                _ => {}
            }
            log.push(format!("R-ATTR dropped {} attribute(s)", ap.dropped));
            if let Item::Struct(st) = &mut it {
                let mut n = 0;
                for f in st.fields.iter_mut() {
                    if !matches!(f.vis, syn::Visibility::Public(_)) {
                        f.vis = parse_quote! { pub };
                        n += 1;
                    }
                }
                if n > 0 {
                    log.push(format!("R-VIS {} field(s) made pub (needed so that contracts can name them; no runtime meaning)", n));
                }
            }
            // R-VIS: a private type is spelled `pub` (the unit is a single module; contracts must be able to name it)
            match &mut it {
                Item::Struct(x) if !matches!(x.vis, syn::Visibility::Public(_)) => { x.vis = parse_quote! { pub }; log.push("R-VIS type made pub".into()); }
                Item::Enum(x) if !matches!(x.vis, syn::Visibility::Public(_)) => { x.vis = parse_quote! { pub }; log.push("R-VIS type made pub".into()); }
                _ => {}
            }
            if let Item::Const(c) = &mut it {
                if let syn::Type::Reference(r) = &mut *c.ty {
                    if r.lifetime.is_none() {
                        r.lifetime = Some(parse_quote! { 'static });
                        log.push("R-CONST elided lifetime of const spelled 'static".into());
                    }
                }
            }
            PathPass { table: &self.paths, log: &mut log }.visit_item_mut(&mut it);
            let out_tokens = token_strings(it.to_token_stream());
            let (del, ins, nd, ni) = token_diff(&src_tokens, &out_tokens);
            let mut text = rustfmt(&it.to_token_stream().to_string()).unwrap_or(it.to_token_stream().to_string());
            if !derives.is_empty() {
                text = format!("#[derive({})]\n{}", derives.join(", "), text);
                log.push(format!("R-ATTR kept derive({})", derives.join(", ")));
            }
            let _ = writeln!(self.out, "// ---- fjx: type {} from {}:{} ----", name, file, sp.start().line);
            self.out.push_str(&text);
            self.n_extracted += 1;
            self.report.push(format!(
                "{{\"kind\":\"type\",\"file\":{},\"name\":{},\"src_lines\":[{},{}],\"rules\":{},\"tokens_src\":{},\"tokens_deleted\":{},\"tokens_inserted\":{},\"deleted\":{},\"inserted\":{}}}",
                jstr(file),
                jstr(name),
                sp.start().line,
                sp.end().line,
                jlist(&log),
                src_tokens.len(),
                nd,
                ni,
                jlist(&del),
                jlist(&ins)
            ));
            return;
        }
        die(&format!("lost anchor: type {name} not found in {file}"));
    }

    fn extract_const(&mut self, file: &str, name: &str, contract: &[String], proof: &[String], assume: bool) {
        let (_, f) = self.load(file).clone();
        use syn::spanned::Spanned;
        for item in &f.items {
            if let Item::Const(c) = item {
                if c.ident != name {
                    continue;
                }
                let mut log = vec![];
                let src_tokens = token_strings(c.to_token_stream());
                let mut c = c.clone();
                c.attrs.clear();
                if let syn::Type::Reference(r) = &mut *c.ty {
                    if r.lifetime.is_none() {
                        r.lifetime = Some(parse_quote! { 'static });
                    }
                }
                let mut it = Item::Const(c.clone());
                PathPass { table: &self.paths, log: &mut log }.visit_item_mut(&mut it);
                if let Item::Const(cc) = it {
                    c = cc;
                }
                log.push("R-CONST `const X: T = E;` emitted as `exec const X: T ensures .. { E }` (elided lifetime spelled 'static)".into());
                let vis = &c.vis;
                let ident = &c.ident;
                let ty = &c.ty;
                let e = &c.expr;
                let sp = item.span();
                let _ = writeln!(self.out, "// ---- fjx: const {} from {}:{} ----", name, file, sp.start().line);
                if assume {
                    let _ = writeln!(self.out, "#[verifier::external_body] // ASSUMED: value of a literal Verus cannot evaluate");
                    log.push("R-CONST contract ASSUMED (literal not evaluable by the verifier)".into());
                }
                let _ = writeln!(self.out, "{} exec const {}: {}", vis.to_token_stream(), ident, nospace_ty(&ty.to_token_stream().to_string()));
                for l in contract {
                    let _ = writeln!(self.out, "{l}");
                }
                let _ = writeln!(self.out, "{{\n    let __fjx_c: {} = {};", nospace_ty(&ty.to_token_stream().to_string()), e.to_token_stream());
                for l in proof {
                    let _ = writeln!(self.out, "{l}");
                }
                let _ = writeln!(self.out, "    __fjx_c\n}}");
                self.n_extracted += 1;
                self.report.push(format!(
                    "{{\"kind\":\"const\",\"file\":{},\"name\":{},\"src_lines\":[{},{}],\"rules\":{},\"tokens_src\":{}}}",
                    jstr(file), jstr(name), sp.start().line, sp.end().line, jlist(&log), src_tokens.len()
                ));
                return;
            }
        }
        die(&format!("lost anchor: const {name} not found in {file}"));
    }

    /// R-MAC: a single-rule `macro_rules! name { ($x:expr) => { BODY }; }` is expanded by substitution
    fn register_macro(&mut self, file: &str, name: &str) {
        let (_, f) = self.load(file).clone();
        for item in &f.items {
            if let Item::Macro(m) = item {
                if m.ident.as_ref().map(|i| i == name).unwrap_or(false) {
                    let toks: Vec<TokenTree> = m.mac.tokens.clone().into_iter().collect();
                    // ( $ x : expr ) => { body } [;]
                    if toks.len() >= 4 {
                        if let (TokenTree::Group(pat), TokenTree::Group(body)) = (&toks[0], &toks[3]) {
                            let p: Vec<TokenTree> = pat.stream().into_iter().collect();
                            if p.len() == 4 && p[0].to_string() == "$" && p[2].to_string() == ":" && p[3].to_string() == "expr" && toks.len() <= 5 {
                                self.macros.push((name.to_string(), vec![p[1].to_string()], body.stream()));
                                return;
                            }
                            // ( $a : expr , $b : expr , .. ) => { body }
                            if toks.len() <= 5 && p.len() % 5 == 4 {
                                let mut vars = vec![];
                                let mut ok = true;
                                let mut k = 0;
                                while k < p.len() {
                                    if k + 3 < p.len() + 0 && p[k].to_string() == "$" && p[k + 2].to_string() == ":" && p[k + 3].to_string() == "expr" && (k + 4 == p.len() || p[k + 4].to_string() == ",") {
                                        vars.push(p[k + 1].to_string());
                                        k += 5;
                                    } else { ok = false; break; }
                                }
                                if ok && vars.len() > 1 {
                                    self.macros.push((name.to_string(), vars, body.stream()));
                                    return;
                                }
                            }
                        }
                    }
                    die(&format!("unsupported construct: macro {name} is not a single `($x:expr, ..) => {{..}}` rule"));
                }
            }
        }
        die(&format!("lost anchor: macro {name} not found in {file}"));
    }

    fn extract_macro(&mut self, file: &str, name: &str) {
        let (_, f) = self.load(file).clone();
        for item in &f.items {
            if let Item::Macro(m) = item {
                if m.ident.as_ref().map(|i| i == name).unwrap_or(false) {
                    let mut m = m.clone();
                    m.attrs.clear();
                    let _ = writeln!(self.out, "// ---- fjx: macro {} from {} ----", name, file);
                    let _ = writeln!(self.out, "{}", m.to_token_stream());
                    self.report.push(format!("{{\"kind\":\"macro\",\"file\":{},\"name\":{}}}", jstr(file), jstr(name)));
                    return;
                }
            }
        }
        die(&format!("lost anchor: macro {name} not found in {file}"));
    }

    fn process(&mut self, path: &Path, depth: usize) {
        if depth > 8 {
            die("include depth");
        }
        let text = std::fs::read_to_string(path).unwrap_or_else(|_| die(&format!("cannot read template {}", path.display())));
        let lines: Vec<&str> = text.lines().collect();
        let mut i = 0;
        while i < lines.len() {
            let l = lines[i];
            let t = l.trim_start();
            if let Some(d) = t.strip_prefix("//@") {
                let d = d.trim();
                let (cmd, rest) = d.split_once(char::is_whitespace).unwrap_or((d, ""));
                let rest = rest.trim();
                match cmd {
                    "include" => {
                        let p = self.contracts.join(rest);
                        let _ = writeln!(self.out, "// ==== include {} ====", rest);
                        self.process(&p, depth + 1);
                        let _ = writeln!(self.out, "// ==== end include {} ====", rest);
                    }
                    "expand-macro" => {
                        let parts: Vec<&str> = rest.split(" :: ").collect();
                        if parts.len() != 2 {
                            die("bad //@expand-macro");
                        }
                        self.register_macro(parts[0].trim(), parts[1].trim());
                    }
                    "type" => {
                        let (a, b) = rest.split_once("=>").unwrap_or_else(|| die("bad //@type"));
                        self.type_map.push((nospace(a), b.trim().to_string()));
                    }
                    "pure" => {
                        self.pure_names.extend(rest.split_whitespace().map(|s| s.to_string()));
                    }
                    "guards" => {
                        self.guards.extend(rest.split_whitespace().map(|s| s.to_string()));
                    }
                    "broadcast" => {
                        self.broadcast = rest.to_string();
                    }
                    "cursor-shim" => {
                        self.cursor_shim = true;
                    }
                    "identity-cast" => {
                        self.identity_casts.push(nospace(rest));
                    }
                    "vec-pushes" => {
                        self.vec_pushes = true;
                    }
                    "method-shim" => {
                        let (m, f) = rest.split_once("=>").unwrap_or_else(|| die("bad //@method-shim (method => function)"));
                        self.method_shims.push((m.trim().to_string(), f.trim().to_string()));
                    }
                    "range-shim" => {
                        self.range_shim = true;
                    }
                    "canary" => {
                        self.out.push_str("// vacuity guard: this MUST fail (otherwise the prelude is inconsistent)\nproof fn fjx_canary() ensures false {}\n");
                    }
                    "path" => {
                        let (a, b) = rest.split_once("=>").unwrap_or_else(|| die("bad //@path"));
                        let a: Vec<String> = a.trim().split("::").map(|s| s.to_string()).collect();
                        let b: Vec<String> = b.trim().split("::").map(|s| s.to_string()).collect();
                        self.paths.push((a, b));
                    }
                    "world" => {
                        self.world_pats.extend(rest.split_whitespace().map(|s| s.to_string()));
                    }
                    "extract-type" => {
                        let parts: Vec<&str> = rest.split(" :: ").collect();
                        if parts.len() != 2 {
                            die("bad //@extract-type");
                        }
                        let mut it = parts[1].split_whitespace();
                        let name = it.next().unwrap_or_else(|| die("bad //@extract-type"));
                        let mut derives = vec![];
                        for o in it {
                            if let Some(d) = o.strip_prefix("derive=") {
                                derives = d.split('+').map(|s| s.to_string()).collect();
                            }
                        }
                        self.extract_type(parts[0].trim(), name, &derives);
                    }
                    "extract-const" => {
                        let parts: Vec<&str> = rest.split(" :: ").collect();
                        if parts.len() != 2 {
                            die("bad //@extract-const");
                        }
                        let mut contract = vec![];
                        let mut proof = vec![];
                        let mut sec = 0;
                        i += 1;
                        loop {
                            if i >= lines.len() {
                                die("unterminated //@extract-const");
                            }
                            let t = lines[i].trim_start();
                            if let Some(d) = t.strip_prefix("//@") {
                                match d.trim() {
                                    "end" => break,
                                    "contract" => sec = 1,
                                    "proof" => sec = 2,
                                    _ => die("bad sub-directive in extract-const"),
                                }
                            } else if sec == 1 {
                                contract.push(lines[i].to_string());
                            } else if sec == 2 {
                                proof.push(lines[i].to_string());
                            }
                            i += 1;
                        }
                        let mut it2 = parts[1].split_whitespace();
                        let cname = it2.next().unwrap_or_else(|| die("bad //@extract-const"));
                        let assume = it2.any(|o| o == "assume");
                        self.extract_const(parts[0].trim(), cname, &contract, &proof, assume);
                    }
                    "extract-macro" => {
                        let parts: Vec<&str> = rest.split(" :: ").collect();
                        if parts.len() != 2 {
                            die("bad //@extract-macro");
                        }
                        self.extract_macro(parts[0].trim(), parts[1].trim());
                    }
                    "extract" => {
                        let parts: Vec<&str> = rest.split(" :: ").collect();
                        if parts.len() < 2 || parts.len() > 3 {
                            die(&format!("bad //@extract line: {rest}"));
                        }
                        let mut spec = ExtractSpec { file: parts[0].trim().to_string(), ret: "r".into(), line: i + 1, ..Default::default() };
                        if parts.len() == 3 {
                            spec.impl_key = Some(parts[1].trim().to_string());
                        }
                        let mut it = parts[parts.len() - 1].split_whitespace();
                        spec.name = it.next().unwrap_or_else(|| die("bad //@extract")).to_string();
                        for o in it {
                            if o == "world" {
                                spec.world = true
                            } else if o == "spec_only" {
                                spec.spec_only = true
                            } else if o == "inherent" {
                                spec.inherent = true
                            } else if o == "as_trait" {
                                spec.as_trait = true
                            } else if let Some(n) = o.strip_prefix("as=") {
                                spec.rename = Some(n.to_string())
                            } else if let Some(n) = o.strip_prefix("props=") {
                                spec.props = n.split('+').map(|s| s.to_string()).collect()
                            } else if let Some(n) = o.strip_prefix("iter_param=") {
                                spec.iter_params.push(n.to_string())
                            } else if let Some(n) = o.strip_prefix("iter_arg=") {
                                let (m, k) = n.split_once(':').unwrap_or_else(|| die("bad iter_arg"));
                                spec.iter_args.push((m.to_string(), k.parse().unwrap_or_else(|_| die("bad iter_arg index"))))
                            } else if let Some(n) = o.strip_prefix("desugar_for_plain=") {
                                spec.desugar_for_plain = n.split(',').map(|x| x.parse().unwrap_or_else(|_| die("bad desugar_for_plain"))).collect();
                            } else if let Some(n) = o.strip_prefix("desugar_for=") {
                                spec.desugar_for = n.split(',').map(|x| x.parse().unwrap_or_else(|_| die("bad desugar_for"))).collect();
                            } else if let Some(n) = o.strip_prefix("assoc=") {
                                let (a, t) = n.split_once(':').unwrap_or_else(|| die("bad assoc="));
                                spec.assoc.push((a.to_string(), t.replace('~', " ")));
                            } else if o == "no_decreases" {
                                spec.no_decreases = true
                            } else if o == "no_loop_isolation" {
                                spec.no_loop_isolation = true
                            } else if o == "boundmap" {
                                spec.boundmap = true
                            } else if o == "optmap" {
                                spec.optmap = true
                            } else if let Some(n) = o.strip_prefix("until=") {
                                spec.until = Some(n.replace('~', " "))
                            } else if let Some(n) = o.strip_prefix("ret=") {
                                spec.ret = n.to_string()
                            } else {
                                die(&format!("unknown extract option {o}"));
                            }
                        }
                        // sub-directives
                        i += 1;
                        #[derive(PartialEq)]
                        enum Sec {
                            None,
                            Contract,
                            Loop(usize),
                            Proof(usize),
                        }
                        let mut sec = Sec::None;
                        loop {
                            if i >= lines.len() {
                                die("unterminated //@extract");
                            }
                            let t = lines[i].trim_start();
                            if let Some(d) = t.strip_prefix("//@") {
                                let d = d.trim();
                                let (cmd, rest) = d.split_once(char::is_whitespace).unwrap_or((d, ""));
                                let rest = rest.trim();
                                match cmd {
                                    "end" => break,
                                    "contract" => sec = Sec::Contract,
                                    "anchor" => spec.stmt_anchor = Some(rest.to_string()),
                                    "to-block-end" => spec.to_block_end = true,
                                    "wrap-ok" => spec.wrap_ok = true,
                                    "refarg" => spec.refargs.extend(rest.split_whitespace().map(|x| x.to_string())),
                                    "stmts" => spec.stmts_n = rest.trim().parse().unwrap_or_else(|_| die("bad //@stmts")),
                                    "anchor-up" => spec.anchor_up = rest.parse().unwrap_or_else(|_| die("bad //@anchor-up")),
                                    "sig" => spec.sig_text = Some(rest.to_string()),
                                    "yield" => spec.yield_ident = Some(rest.to_string()),
                                    "contract-file" => {
                                        let p = self.contracts.join(rest);
                                        let t = std::fs::read_to_string(&p).unwrap_or_else(|_| die(&format!("cannot read contract file {rest}")));
                                        spec.contract.extend(t.lines().map(|l| l.to_string()));
                                        spec.contract_file = Some(rest.to_string());
                                        sec = Sec::Contract;
                                    }
                                    "world" => spec.world_pats.extend(rest.split_whitespace().map(|s| s.to_string())),
                                    "abstract" => {
                                        let (needle, repl) = rest.split_once("=>").unwrap_or_else(|| die("bad //@abstract (needle => statement)"));
                                        spec.abstracts.push((needle.trim().to_string(), repl.trim().to_string()));
                                    }
                                    "loop" => {
                                        let n: usize = rest.parse().unwrap_or_else(|_| die("bad //@loop"));
                                        spec.loops.entry(n).or_default();
                                        sec = Sec::Loop(n);
                                    }
                                    "proof" => {
                                        let (pos, needle) = rest.split_once(char::is_whitespace).unwrap_or_else(|| die("bad //@proof"));
                                        let after = match pos {
                                            "after" => true,
                                            "before" => false,
                                            "at-call" => { spec.optional_proofs.insert(spec.proofs.len()); false }
                                            _ => die("bad //@proof position"),
                                        };
                                        spec.proofs.push((needle.trim().to_string(), after, vec![]));
                                        sec = Sec::Proof(spec.proofs.len() - 1);
                                    }
                                    _ => die(&format!("unknown sub-directive {cmd}")),
                                }
                            } else {
                                match sec {
                                    Sec::None => {
                                        if !t.is_empty() {
                                            die("text before //@contract in extract block");
                                        }
                                    }
                                    Sec::Contract => spec.contract.push(lines[i].to_string()),
                                    Sec::Loop(n) => spec.loops.get_mut(&n).unwrap().push(lines[i].to_string()),
                                    Sec::Proof(k) => spec.proofs[k].2.push(lines[i].to_string()),
                                }
                            }
                            i += 1;
                        }
                        self.extract(&spec);
                    }
                    _ => die(&format!("unknown directive //@{cmd}")),
                }
            } else {
                self.out.push_str(l);
                self.out.push('\n');
            }
            i += 1;
        }
    }
}

fn main() {
    let args: Vec<String> = std::env::args().collect();
    if args.len() != 6 {
        eprintln!("usage: fjx <repo-root> <contracts-dir> <unit-template> <out.rs> <report.json>");
        std::process::exit(2);
    }
    let mut u = Unit {
        repo: PathBuf::from(&args[1]),
        contracts: PathBuf::from(&args[2]),
        paths: vec![],
        world_pats: vec![],
        broadcast: String::new(),
        macros: vec![],
        guards: vec![],
        pure_names: vec![],
        type_map: vec![],
        files: BTreeMap::new(),
        out: String::new(),
        report: vec![],
        n_extracted: 0,
        range_shim: false,
        cursor_shim: false,
        identity_casts: vec![],
        vec_pushes: false,
        method_shims: vec![],
    };
    u.process(Path::new(&args[3]), 0);
    std::fs::write(&args[4], &u.out).unwrap_or_else(|_| die("cannot write output"));
    let rep = format!("{{\"template\":{},\"items\":[\n{}\n]}}\n", jstr(&args[3]), u.report.join(",\n"));
    std::fs::write(&args[5], rep).unwrap_or_else(|_| die("cannot write report"));
}
