// D20 (C17, C13): a background worker that stops with an error (a flush that fails with an I/O error) leaves the loop WITHOUT
// decrementing the live-thread counter; Drop for DatabaseInner waits for that counter to reach 0, so dropping the last
// handle never returns: the directory lock is never released and the process cannot shut down cleanly.
// The I/O error is provoked without hooks: the keyspace's tables folder is replaced by a regular file, so the flush
// cannot create its table file.
use fjall::{Database, KeyspaceCreateOptions};

#[test]
fn dropping_the_database_after_a_worker_crash_returns() {
    let dir = tempfile::tempdir().unwrap();
    let db = Database::builder(&dir).worker_threads(1).open().unwrap();
    let a = db.keyspace("a", KeyspaceCreateOptions::default).unwrap();
    a.insert("k", "v").unwrap();
    // make the flush fail: the keyspace folder's table directory becomes unusable
    let ks_dir = a.path().to_path_buf();
    for e in std::fs::read_dir(&ks_dir).unwrap() {
        let e = e.unwrap();
        if e.file_type().unwrap().is_dir() { std::fs::remove_dir_all(e.path()).unwrap(); std::fs::write(e.path(), b"not a directory").unwrap(); }
    }
    let _ = a.rotate_memtable();
    std::thread::sleep(std::time::Duration::from_secs(2));   // the worker picks the flush task up and fails
    let (tx, rx) = std::sync::mpsc::channel();
    std::thread::spawn(move || { drop(a); drop(db); let _ = tx.send(()); });
    let done = rx.recv_timeout(std::time::Duration::from_secs(30)).is_ok();
    assert!(done, "dropping the last handles did not return within 30 s after a background worker had stopped with an error");
    let r = Database::builder(&dir).open();
    assert!(!matches!(r, Err(fjall::Error::Locked)), "directory still locked after the last handle was dropped");
}
