// D21 (C17): Drop for DatabaseInner tells the workers to stop with a BLOCKING `send(Close)` into the bounded worker channel,
// in a loop that runs while the live-thread counter is above zero. If the channel is full (workers busy or -- under load --
// not yet scheduled) and the last worker takes its Close, the dropping thread's pending send completes, it re-checks the
// counter before that worker has decremented it, sends once more into the now consumer-less full channel and blocks for ever:
// the last handle can never be dropped. Schedule-dependent, so the driver repeats open+drop under CPU load.
use fjall::{Database, KeyspaceCreateOptions};
use std::sync::{atomic::{AtomicBool, Ordering}, Arc};

#[test]
fn dropping_the_last_handle_returns_under_load() {
    let stop = Arc::new(AtomicBool::new(false));
    let n = std::thread::available_parallelism().map(|n| n.get()).unwrap_or(8) * 3;
    let burners: Vec<_> = (0..n).map(|_| { let stop = stop.clone(); std::thread::spawn(move || { let mut x = 0u64; while !stop.load(Ordering::Relaxed) { x = x.wrapping_mul(6364136223846793005).wrapping_add(1); std::hint::black_box(x); } }) }).collect();
    let mut hung_at = None;
    let started = std::time::Instant::now();
    for round in 0..1000 {
        if started.elapsed().as_secs() > 420 { break; }
        let dir = tempfile::tempdir().unwrap();
        let (tx, rx) = std::sync::mpsc::channel();
        let p = dir.path().to_path_buf();
        std::thread::spawn(move || {
            let db = Database::builder(&p).worker_threads(4).open().unwrap();
            let a = db.keyspace("a", KeyspaceCreateOptions::default).unwrap();
            // keep one worker busy (a flush of a few MB) while the handles are dropped, so that the Close messages pile up
            let v = vec![7u8; 64 * 1024];
            for i in 0..64u32 { a.insert(i.to_be_bytes(), &v).unwrap(); }
            let _ = a.rotate_memtable();
            drop(a); drop(db);
            let _ = tx.send(());
        });
        if rx.recv_timeout(std::time::Duration::from_secs(30)).is_err() { hung_at = Some(round); break; }
    }
    stop.store(true, Ordering::Relaxed);
    for b in burners { b.join().unwrap(); }
    assert!(hung_at.is_none(), "round {:?}: dropping the last handle did not return within 30 s", hung_at);
}
