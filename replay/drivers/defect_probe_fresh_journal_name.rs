// Observation probe (not a listed finding: the situation needs the journal files to be removed from outside):
// recover_journals' "no journal found" branch creates the new active journal as `<journals>/<id>` WITHOUT the `.jnl`
// suffix, so the next recovery does not recognise it.
use fjall::{Database, KeyspaceCreateOptions};

#[test]
fn fresh_journal_created_by_recovery_is_not_found_again() {
    let dir = tempfile::tempdir().unwrap();
    {
        let db = Database::builder(&dir).open().unwrap();
        let a = db.keyspace("a", KeyspaceCreateOptions::default).unwrap();
        a.insert("k0", "v0").unwrap();
        a.rotate_memtable_and_wait().unwrap();
    }
    // remove every journal file (external tampering)
    let jdir = dir.path().to_path_buf();
    let mut names = vec![];
    for e in std::fs::read_dir(&jdir).unwrap() { let e = e.unwrap(); if e.file_name().to_str().unwrap().ends_with(".jnl") { names.push(e.file_name()); std::fs::remove_file(e.path()).unwrap(); } }
    println!("removed {:?}", names);
    {
        let db = Database::builder(&dir).open().unwrap();
        let a = db.keyspace("a", KeyspaceCreateOptions::default).unwrap();
        a.insert("k1", "v1").unwrap();
        let names: Vec<_> = std::fs::read_dir(&jdir).unwrap().map(|e| e.unwrap().file_name()).collect();
        println!("journal dir after reopen: {:?}", names);
    }
    let r = Database::builder(&dir).open();
    match r {
        Ok(db) => {
            let a = db.keyspace("a", KeyspaceCreateOptions::default).unwrap();
            assert_eq!(a.get("k1").unwrap().as_deref(), Some(&b"v1"[..]), "acknowledged write lost: the journal created by recovery was not found again");
        }
        Err(e) => panic!("second reopen failed: {e:?}"),
    }
}
