use fjall::{Database, KeyspaceCreateOptions, OptimisticTxDatabase, Readable};

fn kv(g: fjall::Guard) -> (Vec<u8>, Vec<u8>) { let (k, v) = g.into_inner().unwrap(); (k.to_vec(), v.to_vec()) }

#[test]
fn d1_range_iter_frozen() {
    let dir = tempfile::tempdir().unwrap();
    let db = Database::builder(&dir).open().unwrap();
    let ks = db.keyspace("a", KeyspaceCreateOptions::default).unwrap();
    ks.insert("a1", "x").unwrap();
    ks.insert("a3", "x").unwrap();
    let it_range = ks.range("a0".."a9");
    let it_prefix = ks.prefix("a");
    let it_iter = ks.iter();
    ks.insert("a2", "late").unwrap();
    ks.insert("a1", "late").unwrap();
    let r: Vec<_> = it_range.map(kv).collect();
    let p: Vec<_> = it_prefix.map(kv).collect();
    let i: Vec<_> = it_iter.map(kv).collect();
    println!("range={:?}\nprefix={:?}\niter={:?}", r, p, i);
    assert_eq!(i.len(), 2, "iter frozen");
    assert_eq!(r.len(), 2, "range frozen");
    assert_eq!(p.len(), 2, "prefix frozen");
}

#[test]
fn d2_double_close() {
    let dir = tempfile::tempdir().unwrap();
    let db = OptimisticTxDatabase::builder(&dir).open().unwrap();
    let ks = db.keyspace("a", KeyspaceCreateOptions::default).unwrap();
    ks.insert("k", "v1").unwrap();
    let mut tx1 = db.write_tx().unwrap();
    let tx2 = db.write_tx().unwrap();
    assert_eq!(tx2.get(&ks, "k").unwrap().as_deref(), Some(&b"v1"[..]));
    tx1.insert(&ks, "other", "x");
    tx1.commit().unwrap().unwrap();
    // overwrite k several times
    ks.insert("k", "v2").unwrap();
    ks.insert("k", "v3").unwrap();
    let inner = db.inner();
    ks.inner().rotate_memtable_and_wait().unwrap(); ks.insert("zz","1").unwrap();
    println!("safe_to_gc={} tx2 instant?", inner.supervisor.snapshot_tracker.get_seqno_safe_to_gc());
    ks.inner().rotate_memtable_and_wait().unwrap();
    ks.inner().major_compact().unwrap();
    let got = tx2.get(&ks, "k").unwrap();
    println!("tx2 sees {:?}", got);
    assert_eq!(got.as_deref(), Some(&b"v1"[..]));
}

#[test]
fn d3_size_of_untracked() {
    let dir = tempfile::tempdir().unwrap();
    let db = OptimisticTxDatabase::builder(&dir).open().unwrap();
    let ks = db.keyspace("a", KeyspaceCreateOptions::default).unwrap();
    ks.insert("k", "v1").unwrap();
    let mut tx1 = db.write_tx().unwrap();
    let sz = tx1.size_of(&ks, "k").unwrap();
    assert_eq!(sz, Some(2));
    // concurrent commit changes k
    ks.insert("k", "longer").unwrap();
    tx1.insert(&ks, "derived", format!("{:?}", sz));
    let res = tx1.commit().unwrap();
    assert!(res.is_err(), "tx1 observed size_of(k) which was invalidated; must conflict");
}

#[test]
fn d5_id_reuse() {
    let dir = tempfile::tempdir().unwrap();
    {
        let db = Database::builder(&dir).open().unwrap();
        let a = db.keyspace("a", KeyspaceCreateOptions::default).unwrap();
        let b = db.keyspace("b", KeyspaceCreateOptions::default).unwrap();
        a.insert("ka", "va").unwrap();
        b.insert("kb", "vb").unwrap();
        db.delete_keyspace(b).unwrap();
    }
    {
        let db = Database::builder(&dir).open().unwrap();
        assert!(!db.keyspace_exists("b"));
        let c = db.keyspace("c", KeyspaceCreateOptions::default).unwrap();
        println!("c id = {}", c.id());
        assert_eq!(c.len().unwrap(), 0);
    }
    {
        let db = Database::builder(&dir).open().unwrap();
        let c = db.keyspace("c", KeyspaceCreateOptions::default).unwrap();
        let items: Vec<_> = c.iter().map(kv).collect();
        println!("c after reopen: {:?}", items);
        assert_eq!(items.len(), 0, "deleted keyspace's data reappeared in c");
    }
}

#[test]
fn d8_clear_then_ingest() {
    let dir = tempfile::tempdir().unwrap();
    {
        let db = Database::builder(&dir).open().unwrap();
        let a = db.keyspace("a", KeyspaceCreateOptions::default).unwrap();
        a.insert("old", "x").unwrap();
        a.clear().unwrap();
        let mut ing = a.start_ingestion().unwrap();
        ing.write("i1", "v").unwrap();
        ing.write("i2", "v").unwrap();
        ing.finish().unwrap();
        assert_eq!(a.len().unwrap(), 2);
    }
    {
        let db = Database::builder(&dir).open().unwrap();
        let a = db.keyspace("a", KeyspaceCreateOptions::default).unwrap();
        let items: Vec<_> = a.iter().map(kv).collect();
        println!("after reopen: {:?}", items);
        assert_eq!(items.len(), 2);
    }
}

#[test]
fn d8b_ingest_over_journaled_key() {
    let dir = tempfile::tempdir().unwrap();
    {
        let db = Database::builder(&dir).open().unwrap();
        let a = db.keyspace("a", KeyspaceCreateOptions::default).unwrap();
        a.insert("k", "old").unwrap();
        let mut ing = a.start_ingestion().unwrap();
        ing.write("k", "new").unwrap();
        ing.finish().unwrap();
        assert_eq!(a.get("k").unwrap().as_deref(), Some(&b"new"[..]));
    }
    {
        let db = Database::builder(&dir).open().unwrap();
        let a = db.keyspace("a", KeyspaceCreateOptions::default).unwrap();
        let g = a.get("k").unwrap();
        let s: Vec<_> = a.iter().map(kv).collect();
        println!("get={:?} scan={:?}", g, s);
        assert_eq!(g.as_deref(), Some(&b"new"[..]));
    }
}

#[test]
fn d6_start_seqno_alteration() {
    let dir = tempfile::tempdir().unwrap();
    {
        let db = Database::builder(&dir).open().unwrap();
        let a = db.keyspace("a", KeyspaceCreateOptions::default).unwrap();
        println!("seqno before = {}", db.seqno());
        a.insert("k", "v1").unwrap();
        a.insert("k", "v2").unwrap();
        a.insert("b", "1").unwrap();
    }
    // find first Start marker: tag=1 at offset 0: [1][u32 count][u64 seqno]
    let p = dir.path().join("0.jnl");
    let mut bytes = std::fs::read(&p).unwrap();
    println!("first bytes: {:?}", &bytes[..16]);
    assert_eq!(bytes[0], 1);
    // seqno LE at 5..13 ; set byte 6 (2nd byte) to 1 => +256
    bytes[6] ^= 1;
    std::fs::write(&p, &bytes).unwrap();
    {
        let db = Database::builder(&dir).open().unwrap();
        let a = db.keyspace("a", KeyspaceCreateOptions::default).unwrap();
        let items: Vec<_> = a.iter().map(kv).collect();
        println!("after alteration: {:?} seqno={}", items, db.seqno());
        let k = a.get("k").unwrap();
        assert!(k.as_deref() != Some(&b"v1"[..]) || a.get("b").unwrap().is_none(), "non-prefix state: k=v1 with b present");
    }
}

#[test]
fn d9_flush_bumps_visible_mid_batch() {
    use std::sync::{atomic::{AtomicBool, Ordering}, Arc};
    let dir = tempfile::tempdir().unwrap();
    let db = Database::builder(&dir).open().unwrap();
    let x = db.keyspace("x", KeyspaceCreateOptions::default).unwrap();
    let y = db.keyspace("y", KeyspaceCreateOptions::default).unwrap();
    let stop = Arc::new(AtomicBool::new(false));
    const N: usize = 20000;
    // writer: batches of N items, all keys get the same round value
    let w = { let db = db.clone(); let x = x.clone(); let stop = stop.clone(); std::thread::spawn(move || {
        let mut round = 0u64;
        while !stop.load(Ordering::Relaxed) {
            round += 1;
            let mut b = db.batch();
            for i in 0..N { b.insert(&x, format!("k{:06}", i), round.to_be_bytes()); }
            b.commit().unwrap();
        }
    })};
    // flusher on other keyspace
    let f = { let y = y.clone(); let stop = stop.clone(); std::thread::spawn(move || {
        let mut i = 0u64;
        while !stop.load(Ordering::Relaxed) {
            i += 1;
            y.insert("a", i.to_be_bytes()).unwrap();
            y.rotate_memtable_and_wait().unwrap();
        }
    })};
    let start = std::time::Instant::now();
    let mut torn = None;
    let mut checks = 0;
    while start.elapsed().as_secs() < 20 && torn.is_none() {
        let snap = db.snapshot();
        let first = snap.get(&x, "k000000").unwrap();
        let last = snap.get(&x, format!("k{:06}", N - 1)).unwrap();
        checks += 1;
        if first != last { torn = Some((first, last, snap.seqno())); }
    }
    stop.store(true, Ordering::Relaxed);
    w.join().unwrap(); f.join().unwrap();
    println!("checks={checks} torn={:?}", torn);
    assert!(torn.is_none(), "snapshot saw a partially applied batch");
}

#[test]
fn d12_torn_item_header_debug_assert() {
    let dir = tempfile::tempdir().unwrap();
    {
        let db = Database::builder(&dir).open().unwrap();
        let a = db.keyspace("a", KeyspaceCreateOptions::default).unwrap();
        a.insert("k0", "first").unwrap();
        a.insert("k", "abc").unwrap();
    }
    let p = dir.path().join("0.jnl");
    let mut bytes = std::fs::read(&p).unwrap();
    // batch 1: start(13) + item(21+2+5) + end(13) = 54 ; batch 2 starts at 54: start 13 -> item header at 67
    let item2 = 54 + 13;
    assert_eq!(bytes[item2], 2, "item tag");
    let cut = item2 + 17; // after value_len, before on_disk_value_len
    for b in bytes[cut..].iter_mut() { *b = 0; }
    std::fs::write(&p, &bytes).unwrap();
    let db = Database::builder(&dir).open().expect("reopen after torn tail must succeed");
    let a = db.keyspace("a", KeyspaceCreateOptions::default).unwrap();
    assert_eq!(a.get("k0").unwrap().as_deref(), Some(&b"first"[..]));
    assert_eq!(a.get("k").unwrap(), None);
}

#[test]
fn d10_meta_seqno_restore() {
    let dir = tempfile::tempdir().unwrap();
    {
        let db = Database::builder(&dir).open().unwrap();
        let a = db.keyspace("a", KeyspaceCreateOptions::default).unwrap();
        a.insert("ka", "va").unwrap();
        let b = db.keyspace("b", KeyspaceCreateOptions::default).unwrap();
        println!("seqno after creates = {}", db.seqno());
        db.delete_keyspace(b).unwrap();
        println!("seqno after delete = {} visible={}", db.seqno(), db.visible_seqno());
    }
    {
        let db = Database::builder(&dir).open().unwrap();
        println!("seqno after reopen = {} visible={}", db.seqno(), db.visible_seqno());
        let c = db.keyspace("c", KeyspaceCreateOptions::default).unwrap();
        println!("c id={} seqno now={}", c.id(), db.seqno());
        c.insert("kc", "vc").unwrap();
        let d = db.keyspace("d", KeyspaceCreateOptions::default).unwrap();
        d.insert("kd", "vd").unwrap();
        assert!(db.keyspace_exists("c"));
    }
    {
        let db = Database::builder(&dir).open().unwrap();
        println!("names after 2nd reopen: {:?}", db.list_keyspace_names());
        assert!(db.keyspace_exists("c"), "keyspace c vanished");
        let c = db.keyspace("c", KeyspaceCreateOptions::default).unwrap();
        assert_eq!(c.get("kc").unwrap().as_deref(), Some(&b"vc"[..]));
    }
}

#[test]
fn d11_with_capacity_batch_not_flushed() {
    let dir = tempfile::tempdir().unwrap();
    let db = Database::builder(&dir).open().unwrap();
    let a = db.keyspace("a", KeyspaceCreateOptions::default).unwrap();
    let mut b = fjall::OwnedWriteBatch::with_capacity(db.clone(), 4);
    b.insert(&a, "needle-key-1234567", "needle-value");
    b.commit().unwrap();
    // acknowledged; a process crash now keeps only what reached the OS
    let bytes = std::fs::read(dir.path().join("0.jnl")).unwrap();
    let found = bytes.windows(18).any(|w| w == b"needle-key-1234567");
    println!("with_capacity: record in OS file after ack: {found}");
    let mut b2 = db.batch();
    b2.insert(&a, "second-key-7654321", "v");
    b2.commit().unwrap();
    let bytes = std::fs::read(dir.path().join("0.jnl")).unwrap();
    println!("db.batch(): record in OS file after ack: {}", bytes.windows(18).any(|w| w == b"second-key-7654321"));
    assert!(found, "acknowledged batch is still only in the user-space buffer");
}

#[repr(C)]
struct Rlimit { cur: u64, max: u64 }
extern "C" {
    fn setrlimit(resource: i32, rlim: *const Rlimit) -> i32;
    fn signal(sig: i32, handler: usize) -> usize;
}
fn set_fsize(cur: u64) { unsafe { signal(25, 1); assert_eq!(0, setrlimit(1, &Rlimit { cur, max: u64::MAX })); } }

#[test]
fn d4_batch_write_error_does_not_poison() {
    let dir = tempfile::tempdir().unwrap();
    {
        let db = Database::builder(&dir).manual_journal_persist(true).open().unwrap();
        let a = db.keyspace("a", KeyspaceCreateOptions::default).unwrap();
        a.insert("first", "x").unwrap();
        db.persist(fjall::PersistMode::Buffer).unwrap();
        // any write() at file offset >= 20_000 now fails with EFBIG
        set_fsize(20_000);
        let val = vec![7u8; 1000];
        let mut failed_at = None;
        for round in 0..100 {
            let mut b = db.batch();
            for i in 0..3 { b.insert(&a, format!("r{round:03}-{i}"), val.clone()); }
            match b.commit() { Ok(()) => {}, Err(e) => { println!("commit {round} failed: {e:?}"); failed_at = Some(round); break; } }
        }
        assert!(failed_at.is_some(), "no injected failure happened");
        set_fsize(u64::MAX);
        // fail-stop demands that this is refused
        let mut b = db.batch();
        b.insert(&a, "after-failure", "acked");
        let r = b.commit();
        println!("commit after failure: {:?}", r.as_ref().map(|_| "Ok"));
        let p = db.persist(fjall::PersistMode::SyncAll);
        println!("persist after failure: {:?}", p.as_ref().map(|_| "Ok"));
        if r.is_ok() {
            drop(a); drop(db);
            let db = Database::builder(&dir).open().unwrap();
            let a = db.keyspace("a", KeyspaceCreateOptions::default).unwrap();
            let got = a.get("after-failure").unwrap();
            println!("after reopen: after-failure = {:?}, first = {:?}", got, a.get("first").unwrap());
            panic!("write acknowledged after a journal write failure (recovered: {})", got.is_some());
        }
    }
}
