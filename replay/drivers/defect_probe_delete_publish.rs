// D9-delete: MetaKeyspace::remove_keyspace draws a seqno and advances the shared visible seqno without the journal
// lock. A batch that has drawn its seqno N and is still writing its journal record (it takes the keyspace dictionary
// read lock only afterwards) is overtaken: delete_keyspace publishes N+2, then the batch applies its items one by one
// at seqno N -- every snapshot opened meanwhile sees part of the batch.
use fjall::{Database, KeyspaceCreateOptions, Readable};

#[test]
fn d9_delete_keyspace_bumps_visible_mid_batch() { run(true) }
#[test]
fn d9_create_keyspace_bumps_visible_mid_batch() { run(false) }
fn run(delete: bool) {
    use std::sync::{atomic::{AtomicBool, Ordering}, Arc};
    let dir = tempfile::tempdir().unwrap();
    let db = Database::builder(&dir).open().unwrap();
    let x = db.keyspace("x", KeyspaceCreateOptions::default).unwrap();
    let stop = Arc::new(AtomicBool::new(false));
    const N: usize = 20000;
    // writer: batches of N items, all keys get the same round value
    let w = { let db = db.clone(); let x = x.clone(); let stop = stop.clone(); std::thread::spawn(move || {
        let mut round = 0u64;
        while !stop.load(Ordering::Relaxed) {
            round += 1;
            let mut b = db.batch();
            for i in 0..N { b.insert(&x, format!("k{:06}", i), round.to_be_bytes()); }
            b.commit().unwrap();
        }
    })};
    // another thread creates and deletes an unrelated keyspace
    let d = { let db = db.clone(); let stop = stop.clone(); std::thread::spawn(move || {
        let mut i = 0u64;
        while !stop.load(Ordering::Relaxed) {
            i += 1;
            let t = db.keyspace(&format!("tmp{i}"), KeyspaceCreateOptions::default).unwrap();
            if delete { db.delete_keyspace(t).unwrap(); }
        }
    })};
    let start = std::time::Instant::now();
    let mut torn = None;
    let mut checks = 0;
    while start.elapsed().as_secs() < 15 && torn.is_none() {
        let snap = db.snapshot();
        let first = snap.get(&x, "k000000").unwrap();
        let last = snap.get(&x, format!("k{:06}", N - 1)).unwrap();
        checks += 1;
        if first != last { torn = Some((first, last)); }
    }
    stop.store(true, Ordering::Relaxed);
    w.join().unwrap(); d.join().unwrap();
    println!("checks={checks} torn={:?}", torn);
    assert!(torn.is_none(), "snapshot saw a partially applied batch");
}
