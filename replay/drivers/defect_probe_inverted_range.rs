use fjall::{KeyspaceCreateOptions, OptimisticTxDatabase, Readable};

#[test]
fn d15_inverted_range_panics_commit() {
    let dir = tempfile::tempdir().unwrap();
    let db = OptimisticTxDatabase::builder(&dir).open().unwrap();
    let ks = db.keyspace("a", KeyspaceCreateOptions::default).unwrap();
    ks.insert("m", "1").unwrap();
    let mut tx1 = db.write_tx().unwrap();
    let n = tx1.range(&ks, "z".."a").count();
    println!("inverted range yields {n} items");
    tx1.insert(&ks, "x", "1");
    ks.insert("m", "2").unwrap(); // a concurrent commit in the same keyspace
    let r = std::panic::catch_unwind(std::panic::AssertUnwindSafe(|| tx1.commit()));
    println!("commit with inverted range in read set: panicked={}", r.is_err());
    let after = ks.insert("y", "1");
    println!("next transactional write: {:?}", after.as_ref().map(|_| "Ok").map_err(|e| format!("{e:?}")));
    assert!(r.is_ok() && after.is_ok(), "commit panicked / database unusable afterwards");
}
