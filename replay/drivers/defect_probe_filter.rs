use fjall::{Database, KeyspaceCreateOptions};
use lsm_tree::compaction::filter::{CompactionFilter, Context, Factory, ItemAccessor, Verdict};
use std::sync::Arc;

struct AFilter;
impl CompactionFilter for AFilter {
    fn filter_item(&mut self, item: ItemAccessor<'_>, _ctx: &Context) -> lsm_tree::Result<Verdict> {
        if item.key().starts_with(b"a") { Ok(Verdict::Keep) } else { Ok(Verdict::Remove) }
    }
}
struct MyFactory;
impl Factory for MyFactory {
    fn name(&self) -> &str { "A" }
    fn make_filter(&self, _ctx: &Context) -> Box<dyn CompactionFilter> { Box::new(AFilter) }
}
fn open(dir: &std::path::Path) -> Database {
    Database::builder(dir)
        .with_compaction_filter_factories(Arc::new(|ks| match ks { "f" => Some(Arc::new(MyFactory)), _ => None }))
        .open().unwrap()
}

#[test]
fn d13_filtered_item_resurrected_by_replay() {
    let dir = tempfile::tempdir().unwrap();
    {
        let db = open(dir.path());
        let t = db.keyspace("f", KeyspaceCreateOptions::default).unwrap();
        t.insert("a", "a").unwrap();
        t.insert("b", "b").unwrap();
        t.rotate_memtable_and_wait().unwrap();
        t.major_compact().unwrap();
        assert!(t.contains_key("a").unwrap());
        assert!(!t.contains_key("b").unwrap(), "b observed filtered");
        println!("journals: {}", db.journal_count());
    }
    {
        let db = open(dir.path());
        let t = db.keyspace("f", KeyspaceCreateOptions::default).unwrap();
        let b = t.get("b").unwrap();
        println!("after reopen b = {:?}", b);
        assert!(b.is_none(), "filtered item came back in its original form after reopen");
    }
}
