use fjall::{Database, KeyspaceCreateOptions, Readable};

#[test]
fn d14_gc_sentinel_zero() {
    let mut bad = vec![];
    for a in 1u64..40 {
        let dir = tempfile::tempdir().unwrap();
        let db = Database::builder(&dir).open().unwrap();
        let s0 = db.snapshot();                 // instant 0, held for the whole test
        let ks = db.keyspace("a", KeyspaceCreateOptions::default).unwrap();
        assert_eq!(s0.seqno(), 0);
        for i in 0..a { ks.insert("k", i.to_be_bytes()).unwrap(); }
        let sa = db.snapshot();                 // instant a
        for i in 0..3u64 { ks.insert("k", (100 + i).to_be_bytes()).unwrap(); }
        let sb = db.snapshot();                 // instant a+3
        ks.insert("k", "last").unwrap();
        ks.rotate_memtable_and_wait().unwrap(); // runs pullup + gc
        let wm = db.supervisor.snapshot_tracker.get_seqno_safe_to_gc();
        if wm >= sa.seqno() { bad.push((a, sb.seqno(), wm)); }
        drop((s0, sa, sb));
    }
    println!("(live instant a, live instant b, watermark) with watermark >= a: {:?}", bad);
    assert!(bad.is_empty(), "GC watermark moved past a live snapshot");
}
