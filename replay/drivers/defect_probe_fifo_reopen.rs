// Probe (observation reported by a seeding sub-agent): FIFO keyspace + reopen + flush panics a worker inside lsm-tree
// ("L0 needs to be disjoint"): journal replay puts records that are already in a table back into the memtable (D8b family).
use fjall::{Database, KeyspaceCreateOptions};
use std::sync::Arc;

#[test]
fn fifo_keyspace_survives_reopen_and_flush() {
    let dir = tempfile::tempdir().unwrap();
    {
        let db = Database::builder(&dir).open().unwrap();
        let a = db.keyspace("a", || KeyspaceCreateOptions::default().compaction_strategy(Arc::new(fjall::compaction::Fifo::new(1_000_000_000, None)))).unwrap();
        for i in 0..100u32 { a.insert(format!("k{i:04}"), "v").unwrap(); }
        a.rotate_memtable_and_wait().unwrap();
        for i in 50..150u32 { a.insert(format!("k{i:04}"), "w").unwrap(); }
    }
    let db = Database::builder(&dir).open().unwrap();
    let a = db.keyspace("a", KeyspaceCreateOptions::default).unwrap();
    a.insert("zzz", "v").unwrap();
    let (tx, rx) = std::sync::mpsc::channel();
    let a2 = a.clone();
    std::thread::spawn(move || { let r = a2.rotate_memtable_and_wait(); let _ = tx.send(r.is_ok()); });
    let flushed = rx.recv_timeout(std::time::Duration::from_secs(20));
    assert_eq!(flushed, Ok(true), "flush after reopen did not complete");
    assert_eq!(a.get("k0060").unwrap().as_deref(), Some(&b"w"[..]));
}
