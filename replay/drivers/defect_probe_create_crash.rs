// D17: a process crash during the FIRST open (Database::create_new) after the journal file `0.jnl` was created and
// before the version marker was written leaves a directory that can never be opened again: no marker -> create_new is
// taken again -> Journal::create_new(0.jnl) uses File::create_new -> AlreadyExists.
// The state is reproduced exactly as create_new leaves it at that instant: directory, lock file, keyspaces/ folder,
// preallocated journal file, nothing else.
use fjall::Database;

#[test]
fn crash_between_journal_creation_and_version_marker_bricks_the_directory() {
    let dir = tempfile::tempdir().unwrap();
    let p = dir.path().join("db");
    std::fs::create_dir_all(&p).unwrap();
    std::fs::File::create_new(p.join("lock")).unwrap();
    std::fs::create_dir_all(p.join("keyspaces")).unwrap();
    let j = std::fs::File::create_new(p.join("0.jnl")).unwrap();
    j.set_len(16 * 1024 * 1024).unwrap();   // Writer::create_new preallocates; the length is irrelevant to the outcome
    j.sync_all().unwrap();
    drop(j);
    // (crash here: the version marker was never written)
    let r = Database::builder(&p).open();
    assert!(r.is_ok(), "reopening after a crash during creation failed: {:?}", r.err());
}

// D17 / D17b, systematically and against the real code only: the first open of a directory runs in a child process that is
// killed (strace fault injection: SIGKILL on entry of the n-th file-system system call) at EVERY system-call boundary in
// turn; after each kill the parent opens the directory, which must succeed.
#[test]
fn child_first_open() {
    // helper: does nothing unless it is the child of `crash_at_every_syscall_of_the_first_open`
    let Ok(p) = std::env::var("FJ_CHILD_DIR") else { return };
    let db = Database::builder(&p).open().unwrap();
    let a = db.keyspace("a", fjall::KeyspaceCreateOptions::default).unwrap();
    a.insert("k", "v").unwrap();
}

#[test]
fn crash_at_every_syscall_of_the_first_open() {
    if std::env::var("FJ_CHILD_DIR").is_ok() { return; }
    let exe = std::env::current_exe().unwrap();
    // strace counts invocations per system call, so every (call, k-th invocation) pair is one crash point
    let calls = ["openat", "mkdir", "mkdirat", "write", "pwrite64", "ftruncate", "fsync", "fdatasync", "rename", "renameat", "renameat2", "unlink", "unlinkat", "flock"];
    let names = ["", "lock", "keyspaces", "0.jnl", "version", "version.tmp"];
    let mut killed = 0;
    for call in calls {
        for n in 1..200 {
            let dir = tempfile::tempdir().unwrap();
            let p = dir.path().join("db");
            let st = std::process::Command::new("strace")
                .args(["-f", "-o", "/dev/null", "-e", &format!("trace={call}"), "-e", &format!("inject={call}:signal=SIGKILL:when={n}")])
                // only calls that touch the database directory's own entries count (not the test harness' start-up, not the trees)
                .args(names.iter().flat_map(|f| ["-P".to_string(), if f.is_empty() { p.display().to_string() } else { p.join(f).display().to_string() }]))
                .arg(&exe).args(["child_first_open", "--exact", "--test-threads", "1"])
                .env("FJ_CHILD_DIR", &p)
                .stdout(std::process::Stdio::null()).stderr(std::process::Stdio::null())
                .status().expect("strace is needed for this driver");
            if st.success() { break; }   // fewer than n invocations of this call: the child ran to completion
            killed += 1;
            if !p.exists() { continue; }   // killed before the directory was made
            let r = Database::builder(&p).open();
            assert!(r.is_ok(), "crash on entry of invocation #{n} of {call}() during the first open: reopening failed: {:?}; directory holds {:?}", r.err(),
                std::fs::read_dir(&p).unwrap().map(|e| e.unwrap().file_name()).collect::<Vec<_>>());
        }
    }
    println!("{killed} crash points explored");
    assert!(killed >= 10, "too few crash points");
}
