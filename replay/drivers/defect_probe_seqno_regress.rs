// D18 (C11): "sequence numbers handed out after the reopen are larger than every sequence number present in any journal":
// the seqno counter was restored from what the TREES still hold; records of a cleared (or deleted) keyspace stay in the
// journal with their seqnos, so after `clear` + reopen the counter fell back below seqnos that are still on disk.
use fjall::{Database, KeyspaceCreateOptions};

#[test]
fn seqno_counter_falls_back_after_clear_and_reopen() {
    let dir = tempfile::tempdir().unwrap();
    let before;
    {
        let db = Database::builder(&dir).open().unwrap();
        let a = db.keyspace("a", KeyspaceCreateOptions::default).unwrap();
        for i in 0..20u32 { a.insert(format!("k{i}"), "v").unwrap(); }
        a.clear().unwrap();
        before = db.seqno();   // every seqno below this one is in the journal (20 inserts and the clear marker)
    }
    let db = Database::builder(&dir).open().unwrap();
    let after = db.seqno();
    assert!(after >= before, "seqno counter after reopen is {after}, but the journal holds records up to seqno {}", before - 1);
}

#[test]
fn seqno_counter_falls_back_after_delete_and_reopen() {
    let dir = tempfile::tempdir().unwrap();
    let before;
    {
        let db = Database::builder(&dir).open().unwrap();
        let a = db.keyspace("a", KeyspaceCreateOptions::default).unwrap();
        for i in 0..20u32 { a.insert(format!("k{i}"), "v").unwrap(); }
        before = db.seqno();
        db.delete_keyspace(a).unwrap();
    }
    let db = Database::builder(&dir).open().unwrap();
    let after = db.seqno();
    assert!(after >= before, "seqno counter after reopen is {after}, but the journal holds records up to seqno {}", before - 1);
}
