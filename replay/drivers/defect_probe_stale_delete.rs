// D19 (C12): delete_keyspace through a handle of an ALREADY deleted keyspace, after the name was created again, removed the
// meta entries of the NEW keyspace (remove_keyspace resolves by name): the new keyspace keeps accepting writes, but is gone
// after a reopen together with everything written to it.
use fjall::{Database, KeyspaceCreateOptions};

#[test]
fn deleting_through_a_stale_handle_destroys_the_keyspace_that_took_over_the_name() {
    let dir = tempfile::tempdir().unwrap();
    {
        let db = Database::builder(&dir).open().unwrap();
        let old = db.keyspace("a", KeyspaceCreateOptions::default).unwrap();
        let stale = old.clone();
        db.delete_keyspace(old).unwrap();
        let new = db.keyspace("a", KeyspaceCreateOptions::default).unwrap();
        new.insert("k", "v").unwrap();
        // the stale handle names a keyspace that no longer exists; deleting "it" again must not touch the new one
        let _ = db.delete_keyspace(stale);
        assert!(db.keyspace_exists("a"), "the new keyspace \"a\" no longer exists after deleting through a stale handle");
        new.insert("k2", "v2").unwrap();
    }
    let db = Database::builder(&dir).open().unwrap();
    assert!(db.keyspace_exists("a"), "keyspace \"a\" is gone after reopen");
    let a = db.keyspace("a", KeyspaceCreateOptions::default).unwrap();
    assert_eq!(a.get("k").unwrap().as_deref(), Some(&b"v"[..]));
    assert_eq!(a.get("k2").unwrap().as_deref(), Some(&b"v2"[..]));
}
