#!/bin/bash
# confirm_round.sh <PROP> <seedout dir> <worktree> <offset> : confirm candidates <dir>/<PROP>/<N>/ in <worktree>, keep as seeded/<PROP>-<N+offset>
P=$1; OUT=$2; WT=$3; OFF=$4
for D in $OUT/$P/[0-9]*; do
  N=$(basename $D); M=$((N+OFF))
  [ -f $D/patch.diff ] && [ -f $D/demo.rs ] || continue
  /verif/selftest/confirm_seed.sh $WT $D $P-$M
  /verif/selftest/keep_seed.sh $D $P-$M $P
done
git -C /repo worktree remove --force $WT
echo "confirm_round $P done"
