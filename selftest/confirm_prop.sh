#!/bin/bash
# confirm_prop.sh <PROP> : confirm every candidate /tmp/seedout/<PROP>/<N>/ in the scratch worktree /tmp/wt_<PROP>,
# keep the confirmed ones as /verif/seeded/<PROP>-<N>/, then remove the worktree with its build output
P=$1
for D in /tmp/seedout/$P/[0-9]*; do
  N=$(basename $D)
  [ -f $D/patch.diff ] && [ -f $D/demo.rs ] || continue
  /verif/selftest/confirm_seed.sh /tmp/wt_$P $D $P-$N
  /verif/selftest/keep_seed.sh $D $P-$N $P
done
git -C /repo worktree remove --force /tmp/wt_$P
echo "confirm_prop $P done"
