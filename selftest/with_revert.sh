#!/bin/bash
# with_revert.sh <commit> <cmd...> : run cmd with VERIF_REPO pointing to a scratch copy of /repo in which <commit> is reverted
C=$1; shift
S=$(mktemp -d /tmp/fjrev.XXXXXX)
rsync -a --exclude target --exclude .git /repo/ $S/repo/
git -C /repo show --format= $C | (cd $S/repo && patch -R -p1 -s)
VERIF_REPO=$S/repo VERIF_BUILD=$S/build VERIF_EVIDENCE=$S/evidence VERIF_REPLAY_OUT=$S/replay "$@"
rc=$?
rm -rf $S
exit $rc
