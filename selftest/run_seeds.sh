#!/bin/bash
# run_seeds.sh [names...] : apply each kept seeded change to /repo, run ALL registered checks' quick commands, undo.
# prints one line per seed: which properties raised VIOLATION / UNDECIDED; updates seeded/<name>/meta.json detected_by
cd /verif
PROPS=$(python3 -c "import json; print(' '.join(c['property_id'] for c in json.load(open('MANIFEST.json'))['checks']))")
NAMES=${@:-$(ls seeded)}
for name in $NAMES; do
  P=seeded/$name/patch.diff
  git -C /repo checkout -q -- .
  if ! git -C /repo apply $PWD/$P 2>/dev/null; then
     if ! (cd /repo && patch -p1 --fuzz=3 -s < /verif/$P >/dev/null 2>&1); then echo "$name: PATCH DOES NOT APPLY"; git -C /repo checkout -q -- .; find /repo/src -name '*.orig' -o -name '*.rej' | xargs rm -f; continue; fi
  fi
  find /repo/src -name '*.orig' -o -name '*.rej' | xargs rm -f
  V=""; U=""
  for prop in $PROPS; do
    out=$(bin/check $prop 2>&1); rc=$?
    if [ $rc -eq 1 ]; then V="$V $prop($(echo "$out" | grep -c '^VIOLATION'))"; fi
    if [ $rc -eq 2 ]; then U="$U $prop"; fi
  done
  git -C /repo checkout -q -- .
  echo "$name: VIOLATION:[$V ] UNDECIDED:[$U ]"
  python3 - "$name" "$V" "$U" <<'PY'
import json,sys
name,v,u=sys.argv[1:4]
p=f"/verif/seeded/{name}/meta.json"
m=json.load(open(p))
m["detected_by"]=v.split()
m["undecided_in"]=u.split()
json.dump(m,open(p,"w"),indent=1)
PY
done
