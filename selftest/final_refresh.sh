#!/bin/bash
# final_refresh.sh: run every registered quick check against /repo (writes evidence/<id>.json), validate MANIFEST and evidence
cd /verif
python3 bin/gen_manifest.py >/dev/null
rc_all=0
for P in $(python3 -c "import json;print(' '.join(c['property_id'] for c in json.load(open('MANIFEST.json'))['checks']))"); do
  bin/check $P --tier quick 2>&1 | grep -v "^KNOWN" | tail -1
  rc=${PIPESTATUS[0]}; [ $rc -ne 0 ] && { echo "!! $P rc=$rc"; rc_all=1; }
done
python3-vt - <<'PY'
import json, jsonschema, glob
jsonschema.validate(json.load(open('/verif/MANIFEST.json')), json.load(open('/root/.vp/MANIFEST.schema.json')))
es = json.load(open('/root/.vp/EVIDENCE.schema.json'))
for f in sorted(glob.glob('/verif/evidence/*.json')):
    jsonschema.validate(json.load(open(f)), es)
print('manifest and', len(glob.glob('/verif/evidence/*.json')), 'evidence files validate')
PY
exit $rc_all
