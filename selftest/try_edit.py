#!/usr/bin/env python3
"""try_edit.py <relative file> <old text> <new text> <prop> [<prop>...]
apply one textual edit to a scratch copy of /repo (outside /repo and /verif), run the named checks against it, remove it."""
import os, shutil, subprocess, sys, tempfile
V = os.path.dirname(os.path.dirname(os.path.abspath(__file__)))
f, old, new = sys.argv[1:4]
props = sys.argv[4:]
s = tempfile.mkdtemp(prefix="fjedit_", dir="/tmp")
try:
    subprocess.run(["rsync", "-a", "--exclude", "target", "--exclude", ".git", "/repo/", s + "/repo/"], check=True)
    p = os.path.join(s, "repo", f)
    t = open(p).read()
    if t.count(old) != 1:
        print(f"edit anchor occurs {t.count(old)} times"); sys.exit(2)
    open(p, "w").write(t.replace(old, new))
    env = dict(os.environ, VERIF_REPO=s + "/repo", VERIF_BUILD=s + "/build", VERIF_EVIDENCE=s + "/evidence", VERIF_REPLAY_OUT=s + "/replay")
    for prop in props:
        r = subprocess.run([os.path.join(V, "bin/check"), prop], env=env, capture_output=True, text=True, cwd=V)
        lines = [l for l in r.stdout.split("\n") if l.startswith(("failed obligation", "VIOLATION", "UNDECIDED", "OK"))]
        print(f"[{prop}] exit={r.returncode}", " | ".join(l[:230] for l in lines[:6]))
finally:
    shutil.rmtree(s, ignore_errors=True)
