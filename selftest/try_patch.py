#!/usr/bin/env python3
"""try_patch.py <patch.diff>... : apply each patch to its own scratch copy of /repo, run `bin/check --all`, print per-property outcome"""
import os, shutil, subprocess, sys, tempfile
V = os.path.dirname(os.path.dirname(os.path.abspath(__file__)))
for patch in sys.argv[1:]:
    s = tempfile.mkdtemp(prefix="fjtry_", dir="/tmp")
    try:
        subprocess.run(["rsync", "-a", "--exclude", "target", "--exclude", ".git", "/repo/", s + "/repo/"], check=True)
        p = subprocess.run(["patch", "-p1", "--fuzz=3", "-s", "-i", os.path.abspath(patch)], cwd=s + "/repo", capture_output=True, text=True)
        if p.returncode != 0:
            print(patch, "PATCH DOES NOT APPLY", p.stdout[:200]); continue
        env = dict(os.environ, VERIF_REPO=s + "/repo", VERIF_BUILD=s + "/build", VERIF_EVIDENCE=s + "/evidence", VERIF_REPLAY_OUT=s + "/replay", VERIF_NO_DRIVERS="1")
        r = subprocess.run([os.path.join(V, "bin/check"), "--all"], env=env, capture_output=True, text=True, cwd=V)
        cur = []; vio = {}; und = {}
        for l in r.stdout.split("\n"):
            if l.startswith("RESULT "):
                prop = l.split("property=")[1].split()[0]; rc = int(l.split("exit=")[1])
                if rc == 1: vio[prop] = [x.split(" ")[2] for x in cur if x.startswith("failed obligation")]
                if rc == 2: und[prop] = [x[:160] for x in cur if x.startswith("UNDECIDED")][:2]
                cur = []
            else: cur.append(l)
        print(patch); print("  VIOLATION:", {k: sorted(set(v))[:4] for k, v in vio.items()}); print("  UNDECIDED:", und)
    finally:
        shutil.rmtree(s, ignore_errors=True)
