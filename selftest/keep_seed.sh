#!/bin/bash
# keep_seed.sh <OUT/N dir> <name> <property> : store a confirmed seeded change under /verif/seeded/<name>/
D=$1; NAME=$2; PROP=$3
python3 -c "import json,sys; d=json.load(open('$D/confirm.json')); sys.exit(0 if d.get('confirmed') else 1)" || { echo "$NAME not confirmed"; exit 1; }
mkdir -p /verif/seeded/$NAME
cp $D/patch.diff /verif/seeded/$NAME/patch.diff
cp $D/demo.rs /verif/seeded/$NAME/demo.rs
cp $D/notes.md /verif/seeded/$NAME/notes.md 2>/dev/null
python3 - "$D" "$NAME" "$PROP" <<'PY'
import json,sys
d,name,prop=sys.argv[1:4]
c=json.load(open(d+'/confirm.json'))
notes=open(d+'/notes.md').read() if True else ''
meta={"name":name,"breaks_property":prop,"needs_to_manifest":"see notes.md (written by the seeding sub-agent)",
      "confirmed_by":"selftest/confirm_seed.sh in a scratch worktree: full suite with patch, demo with patch (must fail), demo without patch (must pass)",
      "confirmation":c,"detected_by":None}
json.dump(meta,open(f"/verif/seeded/{name}/meta.json","w"),indent=1)
PY
echo kept $NAME
