#!/usr/bin/env python3
"""revert_fixes.py [-j N]: for every `fix:` commit of /repo, reverse-apply it on a scratch copy (outside /repo and /verif)
and run the check of the property recorded for it in known_findings.json "fixed" — the violation must be reported again."""
import json, os, re, shutil, subprocess, sys, tempfile
from concurrent.futures import ThreadPoolExecutor
V = os.path.dirname(os.path.dirname(os.path.abspath(__file__)))
fixed = json.load(open(os.path.join(V, "known_findings.json")))["fixed"]
jobs = []
for line in fixed:
    m = re.match(r"fixed: property=(C\d+) ([0-9a-f]+) (.*)", line)
    jobs.append((m.group(1), m.group(2), m.group(3)))

def one(job):
    prop, commit, what = job
    s = tempfile.mkdtemp(prefix="fjrevert_", dir="/tmp")
    try:
        subprocess.run(["rsync", "-a", "--exclude", "target", "--exclude", ".git", "/repo/", s + "/repo/"], check=True)
        diff = subprocess.run(["git", "-C", "/repo", "show", "--format=", commit], capture_output=True, text=True).stdout
        p = subprocess.run(["patch", "-R", "-p1", "--fuzz=3", "-s"], input=diff, cwd=s + "/repo", capture_output=True, text=True)
        if p.returncode != 0:
            return f"{commit} {prop}: reverse patch does not apply: {p.stdout[:200]}"
        env = dict(os.environ, VERIF_REPO=s + "/repo", VERIF_BUILD=s + "/build", VERIF_EVIDENCE=s + "/evidence", VERIF_REPLAY_OUT=s + "/replay", VERIF_KEEP_DRIVER_CACHE="1")
        r = subprocess.run([os.path.join(V, "bin/check"), prop], env=env, capture_output=True, text=True, cwd=V)
        obs = [l.split(" ")[2] for l in r.stdout.split("\n") if l.startswith("failed obligation")]
        vio = [l for l in r.stdout.split("\n") if l.startswith("VIOLATION")]
        replayed = [l for l in vio if not l.endswith("no-failing-input-found")]
        return f"{commit} {prop}: exit={r.returncode} obligations={sorted(set(obs))} replayed_on_real_code={len(replayed)}/{len(vio)}  ({what[:60]})"
    finally:
        shutil.rmtree(s, ignore_errors=True)

J = int(sys.argv[2]) if len(sys.argv) > 2 and sys.argv[1] == "-j" else 2
with ThreadPoolExecutor(max_workers=J) as ex:
    for line in ex.map(one, jobs):
        print(line, flush=True)
