#!/bin/bash
# try_seed.sh <patch.diff> <prop> [<prop>...] : apply a seeded change to /repo, run the checks, undo
P=$1; shift
cd /repo && git apply $P || { echo "patch does not apply"; exit 2; }
cd /verif
for prop in "$@"; do
  out=$(bin/check $prop 2>&1); rc=$?
  echo "[$prop] exit=$rc $(echo "$out" | grep -E "^VIOLATION|^UNDECIDED|^OK|^KNOWN" | head -3 | tr '\n' ' ')"
done
git -C /repo checkout -- .
