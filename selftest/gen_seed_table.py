#!/usr/bin/env python3
"""gen_seed_table.py: regenerate the table of DESIGN.md section 11.7 from seeded/*/meta.json (after selftest/sweep_seeds.py)."""
import json, os, re
V = os.path.dirname(os.path.dirname(os.path.abspath(__file__)))
rows = []
stats = {"n": 0, "own": 0, "other": 0, "undecided": 0, "missed": 0}
def key(n):
    m = re.match(r"(C\d+)-(\d+)", n); return (m.group(1), int(m.group(2)))
for name in sorted(os.listdir(os.path.join(V, "seeded")), key=key):
    d = os.path.join(V, "seeded", name)
    m = json.load(open(os.path.join(d, "meta.json")))
    title = ""
    n = os.path.join(d, "notes.md")
    if os.path.exists(n):
        title = open(n).readline().strip().lstrip("# ").replace("|", "/")
    own = m.get("breaks_property")
    det = m.get("detected_by") or []
    und = m.get("undecided_in") or []
    dd = m.get("detection_details") or {}
    own_obl = ", ".join(sorted({x.split(" ")[2] for x in dd.get(own, []) if x.startswith("failed obligation")}))[:260] if own in det else "-"
    stats["n"] += 1
    if own in det: stats["own"] += 1
    elif det: stats["other"] += 1
    elif und: stats["undecided"] += 1
    else: stats["missed"] += 1
    rows.append(f"| {name} | {own} | {title[:150]} | `{own_obl}` | {' '.join(det) or '-'} | {' '.join(und) or '-'} |")
table = "| seed | breaks | change (from the seeding agent's notes) | obligation(s) of the property's own check that fail | all checks that raise VIOLATION | undecided |\n|---|---|---|---|---|---|\n" + "\n".join(rows) + "\n"
p = os.path.join(V, "DESIGN.md")
s = open(p).read()
i = s.index("| seed | breaks | change")
j = s.index("\n### 11.6", i)
s = s[:i] + table + s[j:]
open(p, "w").write(s)
print(stats)
