#!/bin/bash
# confirm_seed.sh <worktree> <OUT/N dir> <name>  -- confirms a seeded change in a scratch worktree:
#  (1) suite passes with patch, (2) demo fails with patch, (3) demo passes without patch. Writes <OUT/N>/confirm.json
WT=$1; D=$2; NAME=$3
cd $WT || exit 2
git checkout -q -- . ; rm -f tests/demo_confirm.rs
git apply $D/patch.diff || { echo "{\"name\":\"$NAME\",\"error\":\"patch does not apply\"}" > $D/confirm.json; exit 1; }
SUITE=$(timeout 1500 cargo test --offline --workspace --no-fail-fast --lib --tests 2>&1 | grep -E "^test result|FAILED|^test .* FAILED" )
SUITE_FAILS=$(echo "$SUITE" | grep -c "FAILED")
# a failure under load of a test that passes when re-run alone (write_buffer_size_* are timing sensitive) is a flake, not the change
if [ "$SUITE_FAILS" -gt 0 ]; then
  NAMES=$(echo "$SUITE" | sed -n 's/^test \(.*\) \.\.\. FAILED$/\1/p' | sort -u)
  STILL=0
  for T in $NAMES; do
    R=$(timeout 600 cargo test --offline --workspace --lib --tests -- --exact "$T" 2>&1 | grep -E "^test .* FAILED" | wc -l)
    [ "$R" -gt 0 ] && STILL=$((STILL+1))
  done
  if [ "$STILL" -eq 0 ] && [ -n "$NAMES" ]; then echo "flaky under load, passed when re-run alone: $NAMES" >&2; SUITE_FAILS=0; fi
fi
SUITE_OK=$(echo "$SUITE" | grep -c "test result: ok")
cp $D/demo.rs tests/demo_confirm.rs
WITH=$(timeout 900 cargo test --offline --test demo_confirm -- --test-threads 1 2>&1 | grep -E "^test result" | tail -1)
git checkout -q -- .
WITHOUT=$(timeout 900 cargo test --offline --test demo_confirm -- --test-threads 1 2>&1 | grep -E "^test result" | tail -1)
rm -f tests/demo_confirm.rs
python3 - "$NAME" "$SUITE_OK" "$SUITE_FAILS" "$WITH" "$WITHOUT" > $D/confirm.json <<'PY'
import sys, json
name, ok, fails, w, wo = sys.argv[1:6]
print(json.dumps({"name": name, "suite_ok_lines_with_patch": int(ok), "suite_failed_lines_with_patch": int(fails),
  "demo_with_patch": w, "demo_without_patch": wo,
  "confirmed": int(fails) == 0 and int(ok) >= 20 and ("FAILED" in w or "failed" in w and "0 failed" not in w) and "ok" in wo and "0 failed" in wo}))
PY
cat $D/confirm.json
