#!/usr/bin/env python3
"""benign.py: behaviour-preserving edits of fjall (renamed local, reordered independent statements, extra log line, added
comment, equivalent control flow). Each is applied to a scratch copy of /repo and ALL checks are run: none may exit 1
(an alarm on code where the property holds); exit 2 (undecided) is tolerated but reported."""
import os, shutil, subprocess, sys, tempfile
V = os.path.dirname(os.path.dirname(os.path.abspath(__file__)))
EDITS = [
 ("rename local in Keyspace::insert", "src/keyspace/mod.rs", [("@fn:insert", None)]),
 ("extra log line in Writer::persist", "src/journal/writer.rs", [("    pub(crate) fn persist(&mut self, mode: PersistMode) -> std::io::Result<()> {\n", "    pub(crate) fn persist(&mut self, mode: PersistMode) -> std::io::Result<()> {\n        log::trace!(\"persisting journal\");\n")]),
 ("comment in has_conflict", "src/tx/optimistic/conflict_manager.rs", [("        if reads_lock.is_empty() {\n            return false;\n        }\n", "        // nothing was read: nothing can conflict\n        if reads_lock.is_empty() {\n            return false;\n        }\n")]),
 ("contains_key: match instead of nested if-let (tx)", "src/tx/write_tx.rs", [("            if let Some(item) = memtable.get(key, SeqNo::MAX) {\n                return Ok(!item.key.is_tombstone());\n            }", "            match memtable.get(key, SeqNo::MAX) {\n                Some(item) => return Ok(!item.key.is_tombstone()),\n                None => {}\n            }")]),
 ("check_version: early return for None", "src/db.rs", [("        if let Some(version) = FormatVersion::parse_file_header(&bytes) {", "        let parsed = FormatVersion::parse_file_header(&bytes);\n        if let Some(version) = parsed {")]),
 ("policy decode: b != 0", "src/keyspace/config/pinning.rs", [("v.push(b == 1);", "v.push(b != 0);")]),
 ("recover_keyspaces: max via if", "src/recovery.rs", [("        highest_id = highest_id.max(keyspace_id);", "        if keyspace_id > highest_id {\n            highest_id = keyspace_id;\n        }")]),
 ("maintenance: extra debug log", "src/journal/manager.rs", [("    pub(crate) fn maintenance(&mut self) -> crate::Result<()> {\n", "    pub(crate) fn maintenance(&mut self) -> crate::Result<()> {\n        log::debug!(\"journal maintenance\");\n")]),
 ("commit (tx): prev_key compare via as_ref", "src/tx/write_tx.rs", [("                if let Some(prev_key) = &prev_key {\n                    if item.key.user_key == prev_key {\n                        continue;\n                    }\n                }", "                if prev_key.as_ref() == Some(&item.key.user_key) {\n                    continue;\n                }")]),
 ("drop: extra log line in the wait loop", "src/db.rs", [("            std::thread::sleep(std::time::Duration::from_micros(10));\n        }\n", "            log::trace!(\"waiting for workers\");\n            std::thread::sleep(std::time::Duration::from_micros(10));\n        }\n")]),
 ("create_new: comment and log line before the marker", "src/db.rs", [("        // NOTE: Lastly, fsync version marker, which contains the version\n", "        log::trace!(\"writing version marker\");\n        // NOTE: Lastly, fsync version marker, which contains the version\n")]),
 ("remove_keyspace: seqno drawn via a named counter reference", "src/meta_keyspace.rs", [("        let seqno = self.seqno_generator.next();\n\n        let mut ingestion = self.inner.ingestion()?;\n        {\n            // Remove all config KVs", "        let generator = &self.seqno_generator;\n        let seqno = generator.next();\n\n        let mut ingestion = self.inner.ingestion()?;\n        {\n            // Remove all config KVs")]),
 ("worker loop: extra log line in the error arm", "src/worker_pool.rs", [("                                    poison_dart.poison();\n", "                                    log::warn!(\"worker stops\");\n                                    poison_dart.poison();\n")]),
 ("rotate_journal: sealed path bound before use", "src/journal/manager.rs", [("        let (sealed_path, _) = journal_writer.rotate()?;\n", "        let rotated = journal_writer.rotate()?;\n        let sealed_path = rotated.0;\n")]),
 ("Keyspace::len: count via checked pattern", "src/keyspace/mod.rs", [("            let _ = guard.key()?;\n            count += 1;\n        }\n\n        Ok(count)\n    }\n\n    /// Returns `true` if the keyspace is empty.", "            guard.key()?;\n            count += 1;\n        }\n\n        Ok(count)\n    }\n\n    /// Returns `true` if the keyspace is empty.")]),
 ("mark_range: reorder independent lets", "src/tx/optimistic/conflict_manager.rs", [("        let start = match range.start_bound() {\n            Bound::Included(k) => Bound::Included(k.clone()),\n            Bound::Excluded(k) => Bound::Excluded(k.clone()),\n            Bound::Unbounded => Bound::Unbounded,\n        };\n\n        let end = match range.end_bound() {\n            Bound::Included(k) => Bound::Included(k.clone()),\n            Bound::Excluded(k) => Bound::Excluded(k.clone()),\n            Bound::Unbounded => Bound::Unbounded,\n        };", "        let end = match range.end_bound() {\n            Bound::Included(k) => Bound::Included(k.clone()),\n            Bound::Excluded(k) => Bound::Excluded(k.clone()),\n            Bound::Unbounded => Bound::Unbounded,\n        };\n\n        let start = match range.start_bound() {\n            Bound::Included(k) => Bound::Included(k.clone()),\n            Bound::Excluded(k) => Bound::Excluded(k.clone()),\n            Bound::Unbounded => Bound::Unbounded,\n        };")]),
 ("encode_kvs: two rows swapped, max_memtable_size bytes bound by a let", "src/keyspace/options.rs", [("            {\n                let key = encode_config_key(keyspace_id, \"level_count\");\n                (key, [self.level_count].into())\n            },\n            {\n                let key = encode_config_key(keyspace_id, \"manual_journal_persist\");\n                (key, [u8::from(self.manual_journal_persist)].into())\n            },\n", "            {\n                let key = encode_config_key(keyspace_id, \"manual_journal_persist\");\n                (key, [u8::from(self.manual_journal_persist)].into())\n            },\n            {\n                let key = encode_config_key(keyspace_id, \"level_count\");\n                (key, [self.level_count].into())\n            },\n"), ("                let key = encode_config_key(keyspace_id, \"max_memtable_size\");\n                (key, self.max_memtable_size.to_le_bytes().into())", "                let k = encode_config_key(keyspace_id, \"max_memtable_size\");\n                let bytes = self.max_memtable_size.to_le_bytes();\n                (k, bytes.into())")]),
 ("WorkerPool::start: debug line after the counter is raised", "src/worker_pool.rs", [("        thread_counter.fetch_add(pool_size, Relaxed);\n", "        thread_counter.fetch_add(pool_size, Relaxed);\n        log::trace!(\"counted {pool_size} workers\");\n")]),
 ("TxDatabase::keyspace: handle bound by a let", "src/tx/single_writer/mod.rs", [("        Ok(SingleWriterTxKeyspace {\n            inner: keyspace,\n            db: self.clone(),\n        })", "        let db = self.clone();\n        let handle = SingleWriterTxKeyspace { inner: keyspace, db };\n        Ok(handle)")]),
]
bad = 0
ONLY = sys.argv[1:]   # optional: substrings of the titles to run
for (title, f, subs) in EDITS:
    if ONLY and not any(o in title for o in ONLY):
        continue
    s = tempfile.mkdtemp(prefix="fjbenign_", dir="/tmp")
    try:
        subprocess.run(["rsync", "-a", "--exclude", "target", "--exclude", ".git", "/repo/", s + "/repo/"], check=True)
        p = os.path.join(s, "repo", f); t = open(p).read(); ok = True
        for (old, new) in subs:
            if new is None:   # rename the local `journal_writer` -> `jw` inside Keyspace::insert only
                i = t.find("    pub fn insert<")
                if i < 0: ok = False; break
                j = t.index("\n    }\n", i)
                if "journal_writer" not in t[i:j]: ok = False; break
                t = t[:i] + t[i:j].replace("journal_writer", "jw") + t[j:]
            else:
                if t.count(old) != 1: ok = False; break
                t = t.replace(old, new)
        if not ok:
            print(f"{title}: EDIT ANCHOR LOST (edit not applied)"); continue
        open(p, "w").write(t)
        env = dict(os.environ, VERIF_REPO=s + "/repo", VERIF_BUILD=s + "/build", VERIF_EVIDENCE=s + "/evidence", VERIF_REPLAY_OUT=s + "/replay", VERIF_NO_DRIVERS="1")
        r = subprocess.run([os.path.join(V, "bin/check"), "--all"], env=env, capture_output=True, text=True, cwd=V)
        res = {l.split("property=")[1].split()[0]: int(l.split("exit=")[1]) for l in r.stdout.split("\n") if l.startswith("RESULT ")}
        alarms = [k for k, v in res.items() if v == 1]; und = [k for k, v in res.items() if v == 2]
        print(f"{title}: alarms={alarms} undecided={und}", flush=True)
        if alarms:
            bad += 1
            print("   ", [l for l in r.stdout.split("\n") if l.startswith("failed obligation")][:4])
    finally:
        shutil.rmtree(s, ignore_errors=True)
sys.exit(1 if bad else 0)
