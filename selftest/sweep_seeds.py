#!/usr/bin/env python3
"""sweep_seeds.py [-j N] [names...]
For each kept seeded change (seeded/<name>/patch.diff): copy /repo's working tree (without target/.git) to a scratch
directory OUTSIDE /repo and /verif, apply the patch there, run every registered check's quick command against the copy
(VERIF_REPO / VERIF_BUILD / VERIF_EVIDENCE / VERIF_REPLAY_OUT point into the scratch directory, so neither /repo nor
the committed evidence is touched), record which properties raise VIOLATION / UNDECIDED in seeded/<name>/meta.json,
remove the scratch directory.  /repo itself is never modified by this script."""
import json, os, shutil, subprocess, sys, tempfile
from concurrent.futures import ThreadPoolExecutor

V = os.path.dirname(os.path.dirname(os.path.abspath(__file__)))
REPO = "/repo"
args = sys.argv[1:]
J = 3
if args and args[0] == "-j":
    J = int(args[1]); args = args[2:]
names = args or sorted(os.listdir(os.path.join(V, "seeded")))
props = [c["property_id"] for c in json.load(open(os.path.join(V, "MANIFEST.json")))["checks"]]


import re
UNIT_FILES = {}
_reg = json.load(open(os.path.join(V, "contracts/registry.json")))
for _u, _cfg in _reg["units"].items():
    _t = open(os.path.join(V, _cfg["template"])).read()
    UNIT_FILES[_u] = set(re.findall(r"^//@(?:extract|extract-type|extract-const|expand-macro|extract-macro)\s+(\S+)", _t, re.M))


def affected_units(patch_text):
    """a unit's generated file depends only on /verif/contracts and on the source files its template extracts from: a change that
    touches none of them leaves the unit's verdict as on the unchanged tree (which passes), so only the others are re-verified"""
    files = set(re.findall(r"^\+\+\+ b/(\S+)", patch_text, re.M))
    return sorted(u for u, fs in UNIT_FILES.items() if fs & files)


def one(name):
    d = os.path.join(V, "seeded", name)
    if not os.path.exists(os.path.join(d, "patch.diff")):
        return name, None, None, "no patch.diff"
    s = tempfile.mkdtemp(prefix="fjsweep_" + name + "_", dir="/tmp")
    try:
        subprocess.run(["rsync", "-a", "--exclude", "target", "--exclude", ".git", REPO + "/", s + "/repo/"], check=True)
        p = subprocess.run(["patch", "-p1", "--fuzz=3", "-s", "-i", os.path.join(d, "patch.diff")], cwd=s + "/repo", capture_output=True, text=True)
        if p.returncode != 0:
            return name, None, None, "PATCH DOES NOT APPLY: " + (p.stdout + p.stderr)[:300]
        au = affected_units(open(os.path.join(d, "patch.diff")).read())
        env = dict(os.environ, VERIF_REPO=s + "/repo", VERIF_BUILD=s + "/build", VERIF_EVIDENCE=s + "/evidence", VERIF_REPLAY_OUT=s + "/replay", VERIF_NO_DRIVERS="1", VERIF_ONLY_UNITS=",".join(au) or "none")
        vio, und, details = [], [], {}
        r = subprocess.run([os.path.join(V, "bin/check"), "--all"], env=env, capture_output=True, text=True, cwd=V)
        cur = []
        for l in r.stdout.split("\n"):
            if l.startswith("RESULT "):
                prop = l.split("property=")[1].split()[0]; rc = int(l.split("exit=")[1])
                if rc == 1:
                    vio.append(prop); details[prop] = [x for x in cur if x.startswith("failed obligation")][:6]
                elif rc == 2:
                    und.append(prop); details[prop] = [x for x in cur if x.startswith("UNDECIDED")][:3]
                cur = []
            else:
                cur.append(l)
        return name, vio, und, details
    finally:
        shutil.rmtree(s, ignore_errors=True)


with ThreadPoolExecutor(max_workers=J) as ex:
    for name, vio, und, details in ex.map(one, names):
        if vio is None:
            print(f"{name}: {details}")
            continue
        mp = os.path.join(V, "seeded", name, "meta.json")
        m = json.load(open(mp))
        m["detected_by"] = vio
        m["undecided_in"] = und
        m["detection_details"] = details
        own = m.get("breaks_property")
        m["detected_by_own_property"] = own in vio
        json.dump(m, open(mp, "w"), indent=1)
        print(f"{name}: breaks={own} own={'YES' if own in vio else 'no '} VIOLATION={vio} UNDECIDED={und}", flush=True)
