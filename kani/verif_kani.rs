// Kani harnesses on the UNEXTRACTED crate (injected as `#[cfg(kani)] mod verif_kani;` into a scratch copy of /repo).
// Every harness here is loop-free over full-domain symbolic inputs: a complete proof, not a bounded stand-in.
use crate::journal::entry::Entry;
use crate::version::FormatVersion;
use lsm_tree::coding::{Decode, Encode};

/// C15: Start marker encode -> decode is the identity for every (item_count, seqno)
#[kani::proof]
fn k_entry_start_roundtrip() {
    let item_count: u32 = kani::any();
    let seqno: u64 = kani::any();
    let e = Entry::Start { item_count, seqno };
    let mut buf = Vec::new();
    e.encode_into(&mut buf).unwrap();
    assert!(buf.len() == 13);
    let d = Entry::decode_from(&mut &buf[..]).unwrap();
    assert!(d == e);
}

/// C15: End marker (checksum + trailer) round trip for every checksum
#[kani::proof]
fn k_entry_end_roundtrip() {
    let c: u64 = kani::any();
    let e = Entry::End(c);
    let mut buf = Vec::new();
    e.encode_into(&mut buf).unwrap();
    assert!(buf.len() == 13);
    let d = Entry::decode_from(&mut &buf[..]).unwrap();
    assert!(d == e);
}

/// C15: Clear marker round trip for every keyspace id
#[kani::proof]
fn k_entry_clear_roundtrip() {
    let keyspace_id: u64 = kani::any();
    let e = Entry::Clear { keyspace_id };
    let mut buf = Vec::new();
    e.encode_into(&mut buf).unwrap();
    let d = Entry::decode_from(&mut &buf[..]).unwrap();
    assert!(d == e);
}

/// C17: a 4-byte version marker is accepted iff it is "FJL" followed by a known version byte, for all 2^32 markers
#[kani::proof]
fn k_version_header_accepted_iff() {
    let b: [u8; 4] = kani::any();
    let r = FormatVersion::parse_file_header(&b);
    let magic = b[0] == b'F' && b[1] == b'J' && b[2] == b'L';
    match r {
        Some(v) => assert!(magic && u8::from(v) == b[3] && (1..=3).contains(&b[3])),
        None => assert!(!magic || !(1..=3).contains(&b[3])),
    }
}

/// C17: what write_file_header writes is accepted again as the same version
#[kani::proof]
fn k_version_header_roundtrip() {
    let x: u8 = kani::any();
    kani::assume(x >= 1 && x <= 3);
    let v = FormatVersion::try_from(x).unwrap();
    let mut buf = Vec::new();
    v.write_file_header(&mut buf).unwrap();
    assert!(buf.len() == 4);
    assert!(FormatVersion::parse_file_header(&buf) == Some(v));
}
