#!/usr/bin/env python3
"""regenerates MANIFEST.json from contracts/registry.json + contracts/claims.json (keeps it valid at all times)"""
import json, os
V = os.path.dirname(os.path.dirname(os.path.abspath(__file__)))
reg = json.load(open(os.path.join(V, "contracts/registry.json")))
claims = json.load(open(os.path.join(V, "contracts/claims.json")))
props = [json.loads(l)["id"] for l in open(os.path.join(V, "properties.jsonl"))]
checks = []
na = []
for p in props:
    c = claims.get(p, {})
    if p in reg["properties"] and c.get("claimed"):
        checks.append({
            "property_id": p,
            "quick_cmd": f"bin/check {p} --tier quick",
            "thorough_cmd": f"bin/check {p} --tier thorough",
            "evidence_file": f"/verif/evidence/{p}.json",
            "replay_cmd_template": "bin/check --replay {path}",
            "engine": "verus+fjx" + ("+kani" if reg["properties"][p].get("kani") else ""),
            "level_claimed": {"category": "proof", "text": c["text"], "design_ref": c.get("design_ref", "DESIGN.md section 6")},
            "level_note": c["note"],
            "technique": c.get("technique", "contract-based deductive verification: Verus discharges requires/ensures/invariants spliced onto functions extracted mechanically from /repo on every run"),
        })
    else:
        na.append({"property_id": p, "reason": c.get("na_reason", "not claimed: no unit built for it yet")})
m = {
    "version": 1,
    "setup_cmd": "cargo build --offline --release --manifest-path tools/fjx/Cargo.toml",
    "hooks": {
        "guard": "fjall_verif",
        "enable": "none needed: the verifier reads /repo/src directly (no hook commits); witness drivers use the public API only",
        "baseline_off_cmd": "cd /repo && cargo test --workspace --no-fail-fast --offline",
        "source_commits": [],
        "add_only": True,
    },
    "engines": [
        {"name": "fjx", "path": "tools/fjx", "serves_properties": [c["property_id"] for c in checks],
         "kind_free_text": "syn-based mechanical extractor: real fjall functions -> single-file Verus units with contracts spliced in"},
        {"name": "verus", "path": "/usr/local/bin/verus", "serves_properties": [c["property_id"] for c in checks],
         "kind_free_text": "deductive verifier (SMT, modular, unbounded)"},
        {"name": "kani", "path": "bin/kani_runner.py", "serves_properties": [p for p in props if reg["properties"].get(p, {}).get("kani")],
         "kind_free_text": "Kani 0.68 / CBMC: complete loop-free full-domain harnesses (kani/verif_kani.rs) on the unextracted crate, thorough tier only"},
    ],
    "checks": checks,
    "not_applicable": na,
    "notes": "exit 2 + 'UNDECIDED' = lost anchor / unsupported construct / resource limit: never an alarm. See DESIGN.md.",
}
json.dump(m, open(os.path.join(V, "MANIFEST.json"), "w"), indent=1)
print("MANIFEST.json:", len(checks), "checks,", len(na), "not_applicable")
