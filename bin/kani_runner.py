"""Kani back end: complete (loop-free, full-domain) harnesses on the UNEXTRACTED crate.
A scratch copy of the repository (outside /repo and /verif, removed afterwards) gets `#[cfg(kani)] mod verif_kani;` appended to
src/lib.rs and kani/verif_kani.rs copied next to it; nothing in /repo is touched."""
import os, re, shutil, subprocess, tempfile, time

def run(repo, verif, harness_names, tier):
    s = tempfile.mkdtemp(prefix="fjkani_", dir=os.environ.get("TMPDIR", "/tmp"))
    out = {"harnesses": [], "wall_s": 0.0}
    t0 = time.time()
    try:
        subprocess.run(["rsync", "-a", "--exclude", "target", "--exclude", ".git", repo.rstrip("/") + "/", s + "/repo/"], check=True)
        shutil.copy(os.path.join(verif, "kani/verif_kani.rs"), s + "/repo/src/verif_kani.rs")
        with open(s + "/repo/src/lib.rs", "a") as f:
            f.write("\n#[cfg(kani)] mod verif_kani;\n")
        env = dict(os.environ, CARGO_NET_OFFLINE="true")
        for h in harness_names:
            p = subprocess.run(["cargo", "kani", "--harness", h], cwd=s + "/repo", env=env, capture_output=True, text=True, timeout=1800)
            txt = p.stdout + p.stderr
            if "VERIFICATION:- SUCCESSFUL" in txt:
                status = "SUCCESS"
            elif "VERIFICATION:- FAILED" in txt:
                status = "FAILED"
            else:
                status = "UNDECIDED"   # build error, unsupported feature, timeout: never an alarm
            rec = {"name": h, "status": status, "complete": True, "bound": None,
                   "property": "kani harness " + h, "output": txt[-3000:], "counterexample": None}
            m = re.search(r"Verification Time: ([0-9.]+)s", txt)
            rec["solver_s"] = float(m.group(1)) if m else None
            if status == "FAILED":
                # concrete counterexample: Kani prints a unit test that replays the failing input on the real code
                q = subprocess.run(["cargo", "kani", "--harness", h, "-Z", "concrete-playback", "--concrete-playback=print"],
                                   cwd=s + "/repo", env=env, capture_output=True, text=True, timeout=1800)
                qt = q.stdout + q.stderr
                i = qt.find("Concrete playback unit test")
                rec["counterexample"] = qt[i:i + 3000] if i >= 0 else None
                failed = [l.strip() for l in txt.split("\n") if "Status: FAILURE" in l or ("Description:" in l and False)]
                rec["failed_checks"] = re.findall(r"Check \d+: [^\n]*\n\s*- Status: FAILURE\n\s*- Description: \"([^\"]*)\"", txt)[:5]
            out["harnesses"].append(rec)
    except Exception as e:
        out["harnesses"].append({"name": "*", "status": "UNDECIDED", "complete": True, "output": repr(e)[:500]})
    finally:
        shutil.rmtree(s, ignore_errors=True)
    out["wall_s"] = round(time.time() - t0, 1)
    return out
