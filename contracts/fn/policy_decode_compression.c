    requires bytes.at_start(), is_stored_policy(ee_comp(), bytes.rs().all),
    ensures decodes_to_what_was_stored(ee_comp(), bytes.rs().all, r), // [C16:compression-decode-returns-what-encode-stored]
