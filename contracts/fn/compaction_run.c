    requires old(w).trees.dom().contains(keyspace.tree.id@), tracker_wf_publish(snapshot_tracker), inv(*old(w)),
        old(w).deleted.dom().contains(keyspace.is_deleted.id@),
    ensures
        final(w).tracker == old(w).tracker && final(w).journal == old(w).journal && final(w).poison == old(w).poison, // [C01:compaction-frame]
        forall|k: u64| old(w).trees.dom().contains(k) ==> final(w).trees.dom().contains(k) && (#[trigger] final(w).trees[k]).applied == old(w).trees[k].applied, // [C01:maintenance-keeps-applied-ops]
        !old(w).reclaim_due ==> !final(w).reclaim_due,   // (only a flush makes a reclaim pass due)
