    requires tracker_wf(self), tracker_inv(*old(w)),
        forall|i: u64| #![trigger old(w).tracker.live[i]] old(w).tracker.live[i] + 1 < usize::MAX, // stated bound: fewer than 2^64-1 views open at one instant
    ensures
        tracker_inv(*final(w)), // [C05:P-REG]
        only_tracker(*old(w), *final(w)),
        r.instant == final(w).visible, // [C05:view-instant-is-visible-seqno-at-creation] [C06:view-instant-is-visible-seqno-at-creation]
        r.tracker == *self,
        final(w).tracker.live == live_inc(old(w).tracker.live, r.instant), // [C05:registered-once]
        final(w).tracker.freed >= old(w).tracker.freed,
