    requires bytes.at_start(), is_stored_policy(ee_filter(), bytes.rs().all),
    ensures decodes_to_what_was_stored(ee_filter(), bytes.rs().all, r), // [C16:filter-decode-returns-what-encode-stored]
