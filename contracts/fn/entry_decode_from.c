    requires
        0 <= old(reader).rs().pos <= old(reader).rs().all.len(),
    ensures
        read_frame(old(reader).rs(), final(reader).rs()),
        r is Ok ==> parse_at(old(reader).rs().all, old(reader).rs().pos) == Some((entry_view(r->Ok_0), final(reader).rs().pos)), // [C15:decode-sound] [C03:decode-sound]
        !old(reader).rs().may_fail ==> (r is Ok <==> parse_at(old(reader).rs().all, old(reader).rs().pos) is Some), // [C15:decode-complete] [C03:decode-complete]
        !old(reader).rs().may_fail ==> (r matches Err(Error::Io(e)) ==> e.kind == IoErrorKind::UnexpectedEof), // [C03:eof-class]
