    requires old(self).wf(*old(w)),
        old(w).journal.locked, // [C10:watermarks-and-rotation-in-one-critical-section]
        all_ks_wf(watermarks@, *old(w)),
    ensures
        r is Ok ==> final(self).wf(*final(w)) && final(w).sealed.len() == old(w).sealed.len() + 1
            && final(w).sealed.last().wms == wms_view(watermarks@) // [C10:recorded-watermarks-are-the-captured-ones]
            && final(w).sealed.drop_last() == old(w).sealed, // [C10:sealed-at-the-back]
        r is Err ==> final(self).wf(*final(w)) && final(w).sealed == old(w).sealed,
        final(w).journal.locked,
