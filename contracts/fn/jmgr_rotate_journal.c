    requires old(self).wf(*old(w)),
        old(w).journal.locked, // [C10:watermarks-and-rotation-in-one-critical-section]
        all_ks_wf(watermarks@, *old(w)),
        old(w).journal.os_len <= old(w).journal.len && old(w).journal.synced_len <= old(w).journal.os_len,
        covers_all_memtables(watermarks@, *old(w)), // [C10:watermarks-cover-every-unflushed-memtable-at-sealing-time] [C02:watermarks-cover-every-unflushed-memtable-at-sealing-time]
    ensures
        r is Ok ==> final(self).wf(*final(w)) && final(w).sealed.len() == old(w).sealed.len() + 1
            && final(w).sealed.last().wms == wms_view(watermarks@) // [C10:recorded-watermarks-are-the-captured-ones]
            && final(w).sealed.drop_last() == old(w).sealed, // [C10:sealed-at-the-back]
        r is Ok ==> final(w).sealed.last().path == old(w).journal.path && final(w).journal.path != old(w).journal.path, // [C10:queued-item-names-the-file-just-sealed] [C04:queued-item-names-the-file-just-sealed] [C02:queued-item-names-the-file-just-sealed]
        r is Err ==> final(self).wf(*final(w)) && final(w).sealed == old(w).sealed,
        final(w).journal.locked,
        r is Ok ==> final(w).journal.failed == old(w).journal.failed, // [C13:successful-rotation-is-not-a-journal-failure]
        *final(w) == (World { journal: final(w).journal, sealed: final(w).sealed, ..*old(w) }),
        final(w).journal.recs == old(w).journal.recs && final(w).journal.len == old(w).journal.len,
        final(w).journal.os_len >= old(w).journal.os_len && final(w).journal.os_len <= final(w).journal.len,
        final(w).journal.synced_len >= old(w).journal.synced_len && final(w).journal.synced_len <= final(w).journal.os_len,
