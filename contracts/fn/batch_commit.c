    requires inv(*old(w)), !old(w).journal.locked, self.wf(*old(w)),
        old(w).seqno < 0x7fff_ffff_ffff_ffff, // stated bound: fewer than 2^63 writes
    ensures
        final(w).journal.failed ==> final(w).poison[final(w).db_poison], // [C13:P-POISON-error-poisons] [C03:P-POISON-error-poisons]
        old(w).poison[old(w).db_poison] && self.data@.len() > 0 ==> r is Err && untouched(*old(w), *final(w)), // [C13:P-POISON-refuse-when-poisoned]
        inv(*final(w)), // [C06:inv] [C13:inv]
        !final(w).journal.locked, // [C06:critical-section-closed]
        r is Err ==> final(w).trees == old(w).trees && final(w).visible == old(w).visible, // [C13:failed-call-applies-nothing] [C03:failed-batch-applies-nothing]
        final(w).deleted == old(w).deleted && final(w).db_poison == old(w).db_poison,
        self.data@.len() == 0 ==> r is Ok && *final(w) == *old(w), // [C08:empty-batch-is-noop]
