    requires inv(*old(w)), !old(w).journal.locked, ks_wf(self, *old(w)),
        old(w).seqno < 0x7fff_ffff_ffff_ffff, // stated bound: fewer than 2^63 writes
        forall|k2: Slice| #[trigger] call_ensures(<K as Into<Slice>>::into, (key,), k2) ==> within_limits(k2@, Seq::<u8>::empty()),
    ensures
        // C13 fail-stop
        final(w).journal.failed ==> final(w).poison[final(w).db_poison], // [C13:P-POISON-error-poisons]
        old(w).poison[old(w).db_poison] ==> r is Err && untouched(*old(w), *final(w)), // [C13:P-POISON-refuse-when-poisoned]
        // C12 deleted keyspace refuses
        old(w).deleted[self.is_deleted.id@] ==> r is Err && untouched(*old(w), *final(w)), // [C12:refuse-when-deleted]
        inv(*final(w)), // [C06:inv] [C13:inv]
        r is Err ==> final(w).trees == old(w).trees && final(w).visible == old(w).visible, // [C13:failed-call-applies-nothing] [C02:failed-call-applies-nothing]
        // frame: other keyspaces untouched (C12), flags only ever set
        forall|k: u64| k != self.id && old(w).trees.dom().contains(k) ==> final(w).trees.dom().contains(k) && #[trigger] final(w).trees[k] == old(w).trees[k], // [C12:frame-other-keyspaces] [C01:frame-other-keyspaces]
        final(w).deleted == old(w).deleted && final(w).db_poison == old(w).db_poison,
        !final(w).journal.locked, // [C06:critical-section-closed] (every exit, rule R-SCOPE)
        r is Ok ==> final(w).inflight is None, // [C06:critical-section-closed]
        r is Ok ==> (exists|k2: Slice| into_slice(key, k2)
                && (final(w).trees[self.id].applied == old(w).trees[self.id].applied.push(ApplyG { kind: ApplyKind::Remove, key: #[trigger] k2@, value: Seq::empty(), seqno: old(w).seqno })
                 || final(w).trees[self.id].applied == old(w).trees[self.id].applied.push(ApplyG { kind: ApplyKind::RemoveWeak, key: #[trigger] k2@, value: Seq::empty(), seqno: old(w).seqno }))), // [C01:remove-effect]
        r is Ok ==> final(w).seqno == old(w).seqno + 1, // [C06:one-seqno-per-op]
        r is Ok ==> final(w).visible == (if old(w).visible > old(w).seqno + 1 { old(w).visible } else { (old(w).seqno + 1) as u64 }), // [C06:visible-after-apply]
        r is Ok ==> final(w).journal.recs.len() == old(w).journal.recs.len() + 1 && final(w).journal.recs.last().seqno == old(w).seqno, // [C02:journaled-before-ack]
        r is Ok ==> (self.config.manual_journal_persist || final(w).journal.recs.last().end <= final(w).journal.os_len), // [C02:in-os-before-ack]
