    ensures
        r is Ok ==> final(writer).sink() == old(writer).sink() + enc_item(keyspace_id, key@, value@, value_type, compression), // [C15:item-layout] [C03:item-layout]
        r is Err ==> old(writer).sink().is_prefix_of(final(writer).sink()), // [C03:append-only]
        final(writer).infallible() == old(writer).infallible(), old(writer).infallible() ==> r is Ok, // [C03:vec-sink-never-fails]
