    requires ks_wf(self.keyspace, *old(w)), self.inner.tree@ == self.keyspace.id, inv(*old(w)), tracker_inv(*old(w)), !old(w).journal.locked,
        tracker_wf_publish(&self.keyspace.supervisor.snapshot_tracker), !old(w).poison[old(w).db_poison],
    ensures
        !final(w).journal.locked, // [C06:critical-section-closed]
        final(w).journal.recs == old(w).journal.recs, // [C04:ingest-writes-no-journal-record]
        forall|k: u64| old(w).trees.dom().contains(k) ==> final(w).trees.dom().contains(k) && (#[trigger] final(w).trees[k]).applied == old(w).trees[k].applied,
