    requires !old(w).journal.locked,   // no self-deadlock
    ensures r is Ok ==> *final(w) == (World { journal: JournalG { locked: true, ..old(w).journal }, poison_checked: false, ..*old(w) }), // [C06:lock-acquired]
            r is Err ==> *final(w) == *old(w) && old(w).journal.mutex_poisoned,
