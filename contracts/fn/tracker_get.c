    requires tracker_wf_publish(self),
    ensures *final(w) == *old(w), r == old(w).visible, // [C05:get-is-the-visible-seqno-not-a-gc-threshold]
