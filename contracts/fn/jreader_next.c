    requires old(self).wf(),
    ensures
        final(self).wf(), final(self).same_file(old(self)), final(w).io_faults == old(w).io_faults,
        old(self).pos() <= final(self).pos(),
        match r {
            Some(Ok(e)) => parse_at(old(self).all(), old(self).pos()) == Some((entry_view(e), final(self).pos())) // [C02:entry-iff-decodes] [C03:entry-iff-decodes] [C15:entry-iff-decodes] [C11:entry-iff-decodes] [C04:entry-iff-decodes]
                            && final(self).last_valid_pos == final(self).pos() && *final(w) == *old(w), // [C03:last-valid-pos-is-entry-end]
            Some(Err(_)) => final(self).last_valid_pos == old(self).last_valid_pos && (old(self).faulty() || old(w).io_faults)
                            && (final(w).trunc == old(w).trunc || final(w).trunc == old(w).trunc.push(trunc_ev(old(self), old(self).last_valid_pos))),
            None => final(self).last_valid_pos == old(self).last_valid_pos
                            && final(w).trunc == (if final(self).pos() > old(self).last_valid_pos { old(w).trunc.push(trunc_ev(old(self), old(self).last_valid_pos)) } else { old(w).trunc }), // [C03:truncate-iff-moved]
        },
        !old(self).faulty() ==> (parse_at(old(self).all(), old(self).pos()) is Some <==> r matches Some(Ok(_))), // [C02:entry-iff-decodes] [C03:entry-iff-decodes] [C11:entry-iff-decodes] [C04:entry-iff-decodes]
