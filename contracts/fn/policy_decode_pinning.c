    requires bytes.at_start(), is_stored_policy(ee_bool(), bytes.rs().all),
    ensures decodes_to_what_was_stored(ee_bool(), bytes.rs().all, r), // [C16:pinning-decode-returns-what-encode-stored]
