    requires old(self).wf(),
    ensures
        final(self).wf(), // [C09:wf] [C02:wf-dirty-flag-makes-persist-flush] [C13:wf-dirty-flag-makes-persist-flush]
        final(self).appended(old(self)), // [C02:append-only] [C03:append-only]
        r is Ok ==> final(self).file.logical() == old(self).file.logical()
            + enc_batch(seqno, seq![OpV::Clear { keyspace_id }], old(self).compression, old(self).compression_threshold), // [C03:batch-framing] [C04:clear-journaled]
