    requires self.wf(*old(w)),
    ensures *final(w) == *old(w),
        // exactly the keyspaces that still pin the oldest journal (in watermark order)
        self.items@.len() == 0 ==> r@.len() == 0,
        self.items@.len() > 0 ==> (forall|j: int| 0 <= j < self.items@[0].watermarks@.len() ==>
            ((old(w).trees[(#[trigger] self.items@[0].watermarks@[j]).keyspace.id].persisted is None
              || old(w).trees[self.items@[0].watermarks@[j].keyspace.id].persisted->Some_0 < self.items@[0].watermarks@[j].lsn)
             ==> exists|q: int| 0 <= q < r@.len() && r@[q].id == self.items@[0].watermarks@[j].keyspace.id)), // [C10:pinning-keyspaces-get-flushed]
