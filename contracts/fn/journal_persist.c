    requires !old(w).journal.locked, inv(*old(w)),
    ensures
        final(w).seqno == old(w).seqno && final(w).visible == old(w).visible && final(w).inflight == old(w).inflight && final(w).poison == old(w).poison
            && final(w).deleted == old(w).deleted && final(w).trees == old(w).trees && final(w).db_poison == old(w).db_poison && final(w).pending == old(w).pending
            && final(w).db_manual_persist == old(w).db_manual_persist,
        !final(w).journal.locked, // [C09:lock-released]
        final(w).journal.recs == old(w).journal.recs, final(w).journal.len == old(w).journal.len,
        final(w).journal.os_len >= old(w).journal.os_len && final(w).journal.os_len <= final(w).journal.len,
        final(w).journal.synced_len >= old(w).journal.synced_len && final(w).journal.synced_len <= final(w).journal.os_len,
        r is Ok ==> final(w).journal.os_len == old(w).journal.len && final(w).journal.failed == old(w).journal.failed, // [C09:journal-persist-flushes]
        r is Ok && mode != PersistMode::Buffer ==> final(w).journal.synced_len == old(w).journal.len, // [C09:journal-persist-syncs]
        r is Err ==> final(w).journal.failed || final(w).journal == old(w).journal,
