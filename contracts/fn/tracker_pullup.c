    requires tracker_wf(self), tracker_inv(*old(w)),
    ensures
        tracker_inv(*final(w)), // [C05:P-REG] [C05:watermark-below-every-live-view]
        only_tracker(*old(w), *final(w)),
        final(w).tracker.live == old(w).tracker.live,
        final(w).tracker.freed >= old(w).tracker.freed, // [C05:watermark-monotone]
