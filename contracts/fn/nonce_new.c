    // a new live view: the table entry was incremented by the caller (open / clone_snapshot) under the gc read lock
    requires old(w).tracker.rlock,  // [C05:registered-under-gc-lock]
        tcount(old(w).tracker, seqno) == old(w).tracker.live[seqno] + 1, // [C05:registered-before-the-view-exists]
    ensures r.instant == seqno, r.tracker == tracker,
        *final(w) == (World { tracker: TrackerG { live: live_inc(old(w).tracker.live, seqno), ..old(w).tracker }, ..*old(w) }),
