    requires forall|i: int| 0 <= i < keyspaces.vals@.len() ==> ks_wf(&(#[trigger] keyspaces.vals@[i]), *old(w)),
    ensures *final(w) == *old(w),
        // every keyspace with data in a memtable (active or sealed) gets a watermark = its highest memtable seqno
        forall|i: int| 0 <= i < keyspaces.vals@.len() && old(w).trees[(#[trigger] keyspaces.vals@[i]).id].mem_max is Some ==>
            has_wm(r@, keyspaces.vals@[i].id, old(w).trees[keyspaces.vals@[i].id].mem_max->Some_0), // [C10:watermark-covers-all-memtables] [C02:watermark-covers-all-memtables]
        all_ks_wf(r@, *old(w)),
