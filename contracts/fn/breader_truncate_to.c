    ensures
        final(w).io_faults == old(w).io_faults,
        r is Ok ==> final(w).trunc == old(w).trunc.push(trunc_ev(&self.reader, last_valid_pos)), // [C03:truncate-event]
        r is Err ==> final(w).trunc == old(w).trunc || final(w).trunc == old(w).trunc.push(trunc_ev(&self.reader, last_valid_pos)),
        !old(w).io_faults ==> r is Ok,
