    requires old(self).wf(),
    ensures
        final(self).reader.same_file(&old(self).reader), final(w).io_faults == old(w).io_faults,
        // safety, unconditional: the file is only ever cut at a position >= the end of the last complete batch
        forall|i: int| old(w).trunc.len() <= i < final(w).trunc.len() ==>
            (#[trigger] final(w).trunc[i]).path == old(self).reader.path.id@ && final(w).trunc[i].len >= old(self).last_valid_pos, // [C03:never-cut-complete-batch] [C02:never-cut-complete-batch]
        old(w).trunc.len() <= final(w).trunc.len(),
        forall|i: int| 0 <= i < old(w).trunc.len() ==> final(w).trunc[i] == old(w).trunc[i],
        // a batch is emitted only as the state machine says
        r matches Some(Ok(b)) ==> (br_run(old(self).state(), old(self).reader.all(), old(self).reader.pos()) matches Outcome::Batch(bv, s2, p2)
            && bv == batch_view(b) && s2 == final(self).state() && p2 == final(self).reader.pos()) && final(self).wf() && *final(w) == *old(w), // [C03:emit-iff-complete] [C15:checksum-verified] [C02:batch-content]
        // functional result on the idealised (fault-free) run
        !old(self).reader.faulty() && !old(w).io_faults ==> match br_run(old(self).state(), old(self).reader.all(), old(self).reader.pos()) {
            Outcome::Batch(bv, s2, p2) => r matches Some(Ok(_)),
            Outcome::End { truncate_to } => r is None && (truncate_to matches Some(l) ==> final(w).trunc.len() > old(w).trunc.len() && final(w).trunc.last().len == l), // [C03:discard-open-batch]
            Outcome::Err(e) => r matches Some(Err(Error::JournalRecovery(e2))) && e2 == e, // [C15:damage-is-error]
        },
