    requires tracker_wf(self), tracker_inv(*old(w)), old(w).tracker.live[nonce.instant] > 0,   // the nonce being cloned is live
        old(w).tracker.live[nonce.instant] + 1 < usize::MAX, // stated bound: fewer than 2^64-1 views open at one instant
    ensures
        tracker_inv(*final(w)), // [C05:P-REG]
        only_tracker(*old(w), *final(w)),
        r.instant == nonce.instant, // [C05:clone-keeps-instant]
        r.tracker == *self,
        final(w).tracker.live == live_inc(old(w).tracker.live, r.instant), // [C05:registered-once]
        final(w).tracker.freed >= old(w).tracker.freed,
