    requires tracker_wf(&old(self).tracker), tracker_inv(*old(w)), old(w).tracker.live[old(self).instant] > 0,   // self is a live view
    ensures
        tracker_inv(*final(w)), // [C05:P-REG]
        only_tracker(*old(w), *final(w)),
        final(w).tracker.live == live_dec(old(w).tracker.live, old(self).instant), // [C05:unregister-exactly-once]
        final(w).tracker.freed >= old(w).tracker.freed,
