    requires inv(*old(w)), !old(w).journal.locked, self.is_poisoned.id@ == old(w).db_poison,
    ensures
        inv(*final(w)), // [C13:inv]
        final(w).journal.failed ==> final(w).poison[final(w).db_poison], // [C13:P-POISON-error-poisons]
        old(w).poison[old(w).db_poison] ==> r is Err && untouched(*old(w), *final(w)), // [C13:P-POISON-refuse-when-poisoned]
        !final(w).journal.locked,
        final(w).trees == old(w).trees && final(w).visible == old(w).visible && final(w).journal.recs == old(w).journal.recs && final(w).journal.len == old(w).journal.len, // [C09:persist-frame]
        r is Ok ==> final(w).journal.os_len == final(w).journal.len, // [C09:db-persist-flushes] [C02:persist-buffer]
        r is Ok && mode != PersistMode::Buffer ==> final(w).journal.synced_len == final(w).journal.len, // [C09:db-persist-syncs]
