    requires old(self).reader.inner.path@ == old(self).path.id@,
    ensures
        *final(self) == *old(self),
        final(w).io_faults == old(w).io_faults,
        r is Ok ==> final(w).trunc == old(w).trunc.push(trunc_ev(old(self), pos)), // [C03:truncate-event]
        r is Err ==> final(w).trunc == old(w).trunc || final(w).trunc == old(w).trunc.push(trunc_ev(old(self), pos)),
        !old(w).io_faults ==> r is Ok,
