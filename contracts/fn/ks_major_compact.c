    requires ks_wf(self, *old(w)), tracker_wf_publish(&self.supervisor.snapshot_tracker), inv(*old(w)),
    ensures
        final(w).tracker == old(w).tracker && final(w).journal == old(w).journal && final(w).poison == old(w).poison,
        forall|k: u64| old(w).trees.dom().contains(k) ==> final(w).trees.dom().contains(k) && (#[trigger] final(w).trees[k]).applied == old(w).trees[k].applied, // [C01:maintenance-keeps-applied-ops]
