    requires bytes.at_start(), is_stored_policy(ee_u32(), bytes.rs().all),
    ensures decodes_to_what_was_stored(ee_u32(), bytes.rs().all, r), // [C16:block_size-decode-returns-what-encode-stored]
