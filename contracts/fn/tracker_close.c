    requires tracker_wf(self), !old(w).tracker.rlock && !old(w).tracker.wlock,
        tcount(old(w).tracker, nonce.instant) == old(w).tracker.live[nonce.instant] + 1, // [C05:unregister-exactly-once]
        forall|i: u64| i != nonce.instant ==> (#[trigger] tcount(old(w).tracker, i)) == old(w).tracker.live[i],
        forall|i: u64| #![trigger old(w).tracker.live[i]] i > 0 && old(w).tracker.live[i] > 0 ==> old(w).tracker.freed < i,
        old(w).visible > 0 ==> old(w).tracker.freed < old(w).visible, old(w).visible == 0 ==> old(w).tracker.freed == 0,
        forall|i: u64| #![trigger old(w).tracker.live[i]] old(w).tracker.live[i] > 0 ==> i <= old(w).visible,
        forall|i: u64| #[trigger] old(w).tracker.data.dom().contains(i) ==> old(w).tracker.data[i] < usize::MAX && i <= old(w).visible,
    ensures
        tracker_inv(*final(w)), // [C05:P-REG]
        only_tracker(*old(w), *final(w)),
        final(w).tracker.live == old(w).tracker.live,
        final(w).tracker.freed >= old(w).tracker.freed,
