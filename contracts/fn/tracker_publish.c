    requires tracker_wf_publish(self), old(w).journal.locked, // [C06:P-VIS-publish-under-lock]
        old(w).inflight == Some(batch_seqno), // [C06:P-PUBLISH-own-seqno]
        old(w).pending.len() == 0, // [C06:P-PUBLISH-after-full-apply] [C03:publish-after-full-apply]
        batch_seqno < u64::MAX,
    ensures *final(w) == (World { inflight: None, visible: if old(w).visible > batch_seqno + 1 { old(w).visible } else { (batch_seqno + 1) as u64 }, ..*old(w) }),
