    requires old(self).buf@.len() == 0,
    ensures
        final(self).appended(old(self)), final(self).is_buffer_dirty == old(self).is_buffer_dirty,
        r is Ok ==> final(self).file.logical() == old(self).file.logical() + enc_start(item_count, seqno) // [C03:start-marker]
                    && r->Ok_0 == 13,
        r is Err ==> final(self).file.logical().is_prefix_of(old(self).file.logical() + enc_start(item_count, seqno)),
