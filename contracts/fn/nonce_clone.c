    requires tracker_wf(&self.tracker), tracker_inv(*old(w)), old(w).tracker.live[self.instant] > 0,   // self is a live view
        old(w).tracker.live[self.instant] + 1 < usize::MAX,
    ensures
        tracker_inv(*final(w)), // [C05:P-REG]
        only_tracker(*old(w), *final(w)),
        r.instant == self.instant, // [C05:clone-keeps-instant]
        r.tracker == self.tracker,
        final(w).tracker.live == live_inc(old(w).tracker.live, self.instant), // [C05:registered-once]
        final(w).tracker.freed >= old(w).tracker.freed,
