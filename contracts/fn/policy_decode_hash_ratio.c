    requires bytes.at_start(), is_stored_policy(ee_f32(), bytes.rs().all),
    ensures decodes_to_what_was_stored(ee_f32(), bytes.rs().all, r), // [C16:hash_ratio-decode-returns-what-encode-stored]
