    requires tracker_wf_publish(self),
    ensures *final(w) == *old(w), r == old(w).tracker.freed, // [C05:gc-threshold-is-the-watermark] [C01:gc-threshold-is-the-watermark]
