    ensures
        final(w).io_faults == old(w).io_faults,
        r is Ok ==> final(w).trunc == (if self.is_in_batch { old(w).trunc.push(trunc_ev(&self.reader, self.last_valid_pos)) } else { old(w).trunc }), // [C04:discard-open-batch] [C11:discard-open-batch] [C03:discard-open-batch] [C09:repaired-journal-keeps-later-appends-recoverable] [C15:repaired-journal-keeps-later-commits-recoverable]
        r is Err ==> final(w).trunc == old(w).trunc || final(w).trunc == old(w).trunc.push(trunc_ev(&self.reader, self.last_valid_pos)),
        !old(w).io_faults ==> r is Ok,
