    requires old(self).wf(), batch_size == items@.len(), items@.len() <= 0xffff_ffff, items_within_limits(items@),
        payload(ops_of(items@), items@.len() as int, old(self).compression, old(self).compression_threshold).len() < 0x7fff_ffff_ffff_ff00, // stated bound: batch shorter than 2^63 bytes
    ensures
        final(self).wf(), // [C09:wf] [C02:wf-dirty-flag-makes-persist-flush] [C13:wf-dirty-flag-makes-persist-flush]
        final(self).appended(old(self)), // [C02:append-only] [C03:append-only]
        r is Ok && batch_size > 0 ==> final(self).file.logical() == old(self).file.logical()
            + enc_batch(seqno, ops_of(items@), old(self).compression, old(self).compression_threshold), // [C03:batch-framing] [C15:compressor-choice] [C01:journaled-op]
        r is Ok && batch_size == 0 ==> final(self).file.logical() == old(self).file.logical(),
