    ensures r == tag_of_byte(value), // [C15:tag-decode]
