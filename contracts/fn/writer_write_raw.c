    requires old(self).wf(), within_limits(key@, value@),
    ensures
        final(self).wf(), // [C09:wf] [C02:wf-dirty-flag-makes-persist-flush] [C13:wf-dirty-flag-makes-persist-flush]
        final(self).appended(old(self)), // [C02:append-only] [C03:append-only]
        r is Ok ==> final(self).file.logical() == old(self).file.logical()
            + enc_batch(seqno, seq![OpV::Item { keyspace_id, key: key@, value: value@, value_type }], old(self).compression, old(self).compression_threshold), // [C03:batch-framing] [C15:compressor-choice] [C01:journaled-op]
