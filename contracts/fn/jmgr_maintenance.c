    requires old(self).wf(*old(w)),
    ensures
        final(self).wf(*final(w)), // [C10:queue-is-registry]
        // journals are reclaimed oldest first: what remains is a suffix of the queue, what was unlinked is the prefix, in order
        exists|k: int| 0 <= k <= old(self).items@.len() && #[trigger] old(w).sealed.skip(k) == final(w).sealed
            && final(w).removed == old(w).removed + Seq::new(k as nat, |i: int| old(w).sealed[i].path), // [C10:oldest-first] [C10:only-evictable-unlinked]
        *final(w) == (World { sealed: final(w).sealed, removed: final(w).removed, ..*old(w) }), // [C10:frame]
