    requires old(self).wf(*old(w)),
    ensures
        final(self).wf(*final(w)), // [C10:queue-is-registry]
        // journals are reclaimed oldest first: what remains is a suffix of the queue, what was unlinked is the prefix, in order
        exists|k: int| 0 <= k <= old(self).items@.len() && #[trigger] old(w).sealed.skip(k) == final(w).sealed
            && final(w).removed == old(w).removed + Seq::new(k as nat, |i: int| old(w).sealed[i].path), // [C10:oldest-first] [C10:only-evictable-unlinked]
        *final(w) == (World { sealed: final(w).sealed, removed: final(w).removed, ..*old(w) }), // [C10:frame]
        // eviction is complete: the manager stops only at a journal that is still needed (C10: once everything
        // is flushed or deleted the number of journal files returns to one)
        r is Ok && final(w).sealed.len() > 0 ==> !evictable(final(w).sealed[0], *final(w)), // [C10:reclaims-every-reclaimable-journal] [C12:deleted-keyspace-does-not-pin-journals]
