    requires bytes.at_start(), is_stored_policy(ee_u8(), bytes.rs().all),
    ensures decodes_to_what_was_stored(ee_u8(), bytes.rs().all, r), // [C16:restart_interval-decode-returns-what-encode-stored]
