    requires old(self).wf(*old(w)),
        forall|j: int| 0 <= j < item.watermarks@.len() ==> ks_wf(&(#[trigger] item.watermarks@[j]).keyspace, *old(w)),
        item.path.id@ != old(w).journal.path, // [C10:only-sealed-files-are-queued] [C04:only-sealed-files-are-queued] [C02:only-sealed-files-are-queued]
    ensures
        final(self).wf(*final(w)), // [C10:queue-is-registry]
        *final(w) == (World { sealed: old(w).sealed.push(item_view(item)), ..*old(w) }), // [C10:sealed-at-the-back]
