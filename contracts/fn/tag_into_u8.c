    ensures r == tag_byte(val), // [C15:tag-encode]
