    requires inv(*old(w)), !old(w).journal.locked, ks_wf(self, *old(w)),
        old(w).seqno < 0x7fff_ffff_ffff_ffff, // stated bound: fewer than 2^63 writes
        forall|k2: Slice, v2: Slice| #[trigger] call_ensures(<K as Into<Slice>>::into, (key,), k2) && #[trigger] call_ensures(<V as Into<Slice>>::into, (value,), v2) ==> within_limits(k2@, v2@), // documented limits of the API (keys < 2^16, values < 2^32 bytes)
    ensures
        // C13 fail-stop
        final(w).journal.failed ==> final(w).poison[final(w).db_poison], // [C13:P-POISON-error-poisons]
        old(w).poison[old(w).db_poison] ==> r is Err && untouched(*old(w), *final(w)), // [C13:P-POISON-refuse-when-poisoned]
        // C12 deleted keyspace refuses
        old(w).deleted[self.is_deleted.id@] ==> r is Err && untouched(*old(w), *final(w)), // [C12:refuse-when-deleted]
        inv(*final(w)), // [C06:inv] [C13:inv]
        r is Err ==> final(w).trees == old(w).trees && final(w).visible == old(w).visible, // [C13:failed-call-applies-nothing] [C02:failed-call-applies-nothing]
        // frame: other keyspaces untouched (C12), flags only ever set
        forall|k: u64| k != self.id && old(w).trees.dom().contains(k) ==> final(w).trees.dom().contains(k) && #[trigger] final(w).trees[k] == old(w).trees[k], // [C12:frame-other-keyspaces] [C01:frame-other-keyspaces]
        final(w).deleted == old(w).deleted && final(w).db_poison == old(w).db_poison,
        !final(w).journal.locked, // [C06:critical-section-closed] (every exit, rule R-SCOPE)
        r is Ok ==> final(w).inflight is None, // [C06:critical-section-closed]
        r is Ok ==> (exists|k2: Slice, v2: Slice| #![auto] into_slice(key, k2) && into_slice(value, v2)
                && final(w).trees[self.id].applied == old(w).trees[self.id].applied.push(ApplyG { kind: ApplyKind::Insert, key: k2@, value: v2@, seqno: old(w).seqno })), // [C01:insert-effect]
        r is Ok ==> final(w).seqno == old(w).seqno + 1, // [C06:one-seqno-per-op]
        r is Ok ==> final(w).visible == (if old(w).visible > old(w).seqno + 1 { old(w).visible } else { (old(w).seqno + 1) as u64 }), // [C06:visible-after-apply]
        r is Ok ==> final(w).journal.recs.len() == old(w).journal.recs.len() + 1 && final(w).journal.recs.last().seqno == old(w).seqno, // [C02:journaled-before-ack]
        r is Ok ==> (self.config.manual_journal_persist || final(w).journal.recs.last().end <= final(w).journal.os_len), // [C02:in-os-before-ack]
