    requires ks_wf(self, *old(w)), tracker_wf_publish(&self.supervisor.snapshot_tracker), inv(*old(w)), tracker_inv(*old(w)),
        old(w).journal.locked,   // the caller hands over the journal guard
    ensures
        !final(w).journal.locked, // [C06:critical-section-closed] [C14:rotation-releases-lock]
        final(w).journal.recs == old(w).journal.recs && final(w).poison == old(w).poison, // [C01:rotation-frame]
        forall|k: u64| old(w).trees.dom().contains(k) ==> final(w).trees.dom().contains(k) && (#[trigger] final(w).trees[k]).applied == old(w).trees[k].applied, // [C01:maintenance-keeps-applied-ops]
        tracker_inv(*final(w)), // [C05:P-REG]
        !old(w).reclaim_due ==> !final(w).reclaim_due,   // (only a flush makes a reclaim pass due)
