    requires old(self).wf(),
    ensures
        final(self).wf(), // [C09:wf] [C02:wf-dirty-flag-makes-persist-flush] [C13:wf-dirty-flag-makes-persist-flush]
        final(self).file.logical() == old(self).file.logical(), // [C09:persist-keeps-content] [C02:append-only]
        old(self).file.inner.os@.is_prefix_of(final(self).file.inner.os@), // [C09:os-monotone]
        final(self).compression == old(self).compression && final(self).compression_threshold == old(self).compression_threshold,
        r is Ok ==> final(self).file.buffered@.len() == 0 && final(self).file.inner.os@ == old(self).file.logical(), // [C09:buffer-flushed] [C02:persist-buffer]
        r is Ok && mode != PersistMode::Buffer ==> final(self).file.inner.synced@ == old(self).file.logical(), // [C09:synced]
        mode == PersistMode::Buffer ==> final(self).file.inner.synced@ == old(self).file.inner.synced@,
        r is Err ==> (final(self).file.inner.synced@ == old(self).file.inner.synced@ || final(self).file.inner.synced@ == final(self).file.inner.os@),
