    requires old(self).wf(),
    ensures
        *final(self) == *old(self),
        final(w).io_faults == old(w).io_faults,
        r is Ok ==> final(w).trunc == (if old(self).pos() > old(self).last_valid_pos { old(w).trunc.push(trunc_ev(old(self), old(self).last_valid_pos)) } else { old(w).trunc }), // [C03:truncate-iff-moved]
        r is Err ==> final(w).trunc == old(w).trunc || final(w).trunc == old(w).trunc.push(trunc_ev(old(self), old(self).last_valid_pos)), // [C03:truncate-only-to-last-valid]
        !old(w).io_faults && !old(self).faulty() ==> r is Ok,
