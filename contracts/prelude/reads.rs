// ===== prelude/reads.rs — TRUSTED BASE: lsm-tree read API with a ghost READ LOG =====
// Every tree read is an event (keyspace id, instant). A view (Snapshot, transaction, iterator) is frozen in time
// (C05) iff every read it issues carries the view's own instant; plain keyspace reads see the latest state
// (SeqNo::MAX). What lsm-tree answers for (key, instant) is its MVCC contract (assumed).
pub struct ReadEv { pub ks: u64, pub instant: u64, pub scan: bool, pub local: bool }
pub struct BItemV { pub ks: u64, pub key: Seq<u8>, pub value: Seq<u8>, pub vt: ValueType }
pub struct RWorld { pub reads: Seq<ReadEv>, pub committed: Seq<Seq<BItemV>>,   // read log; batches handed to WriteBatch::commit
    pub committed_with: Seq<int> }   // ... and the durability level each was committed with (encoded: U-TX dur_code)
pub struct AnyTreeR { pub id: Ghost<u64> }
pub struct IterGuardImpl { pub id: Ghost<int> }   // one item of a scan (identity)
impl Guard {
    // Guard::key (src/guard.rs: self.0.key().map_err(Into::into)): loads the key, may fail with an I/O error (key-value separation)
    #[verifier::external_body] pub fn key(self) -> (r: FjResult<UserKey>) { unimplemented!() }
}
pub struct Guard(pub IterGuardImpl);
/// the boxed lsm-tree iterator: remembers at which instant (and over which local memtable) it was opened
pub struct InnerIter { pub ks: Ghost<u64>, pub at: Ghost<u64>, pub local: Ghost<Option<u64>>,
    pub todo: Ghost<Seq<int>> }   // identities of the items not yet yielded, in key order (a double-ended iterator takes from either end)
impl InnerIter {
    #[verifier::external_body] pub fn next(&mut self) -> (r: Option<IterGuardImpl>)
        ensures final(self).at == old(self).at, final(self).ks == old(self).ks, final(self).local == old(self).local,
            r is Some == (old(self).todo@.len() > 0), r matches Some(g) ==> g.id@ == old(self).todo@[0] && final(self).todo@ == old(self).todo@.skip(1),
            r is None ==> final(self).todo == old(self).todo,
    { unimplemented!() }
    #[verifier::external_body] pub fn next_back(&mut self) -> (r: Option<IterGuardImpl>)
        ensures final(self).at == old(self).at, final(self).ks == old(self).ks, final(self).local == old(self).local,
            r is Some == (old(self).todo@.len() > 0), r matches Some(g) ==> g.id@ == old(self).todo@.last() && final(self).todo@ == old(self).todo@.drop_last(),
            r is None ==> final(self).todo == old(self).todo,
    { unimplemented!() }
}
pub struct MemtableArc { pub id: Ghost<int>, pub items: Ghost<Seq<IV>> }     // Arc<lsm_tree::Memtable>: a transaction's local write set for one keyspace (identity, versions in iteration order)
pub struct IV { pub key: Seq<u8>, pub value: Seq<u8>, pub vt: ValueType, pub seqno: u64 }   // one version as Memtable::iter yields it
impl Clone for MemtableArc { #[verifier::external_body] fn clone(&self) -> (r: MemtableArc) ensures r == *self { unimplemented!() } }
pub open spec fn local_of(m: Option<(MemtableArc, u64)>) -> Option<u64> { match m { Some(p) => Some(p.1), None => None } }
pub open spec fn point_read(o: RWorld, n: RWorld, ks: u64, instant: u64) -> bool {
    n.reads == o.reads.push(ReadEv { ks, instant, scan: false, local: false })
}
/// what the tree of keyspace `ks` answers for `key` at `instant` (lsm-tree's MVCC contract: assumed, uninterpreted);
/// contains_key and size_of are the same answer seen as presence / length
pub uninterp spec fn snap_get(ks: u64, key: Seq<u8>, instant: u64) -> Option<Seq<u8>>;
/// the bytes a generic key argument stands for
pub uninterp spec fn key_bytes<K>(k: K) -> Seq<u8>;
pub broadcast axiom fn key_bytes_of_slice(k: &[u8]) ensures #[trigger] key_bytes::<&[u8]>(k) == k@;
pub open spec fn oview(v: Option<UserValue>) -> Option<Seq<u8>> { match v { Some(x) => Some(x@), None => None } }
pub open spec fn olen(v: Option<Seq<u8>>) -> Option<u32> { match v { Some(x) => Some(x.len() as u32), None => None } }
impl AnyTreeR {
    #[verifier::external_body]
    pub fn get<K: AsRef<[u8]>>(&self, key: K, seqno: u64, Tracked(w): Tracked<&mut RWorld>) -> (r: Result<Option<UserValue>, lsm_tree::Error>)
        ensures point_read(*old(w), *final(w), self.id@, seqno), r matches Ok(v) ==> oview(v) == snap_get(self.id@, key_bytes(key), seqno) { unimplemented!() }
    #[verifier::external_body]
    pub fn contains_key<K: AsRef<[u8]>>(&self, key: K, seqno: u64, Tracked(w): Tracked<&mut RWorld>) -> (r: Result<bool, lsm_tree::Error>)
        ensures point_read(*old(w), *final(w), self.id@, seqno), r matches Ok(b) ==> b == (snap_get(self.id@, key_bytes(key), seqno) is Some) { unimplemented!() }
    #[verifier::external_body]
    pub fn size_of<K: AsRef<[u8]>>(&self, key: K, seqno: u64, Tracked(w): Tracked<&mut RWorld>) -> (r: Result<Option<u32>, lsm_tree::Error>)
        ensures point_read(*old(w), *final(w), self.id@, seqno), r matches Ok(s) ==> s == olen(snap_get(self.id@, key_bytes(key), seqno)) { unimplemented!() }
    #[verifier::external_body]
    pub fn is_empty(&self, seqno: u64, index: Option<(MemtableArc, u64)>, Tracked(w): Tracked<&mut RWorld>) -> (r: Result<bool, lsm_tree::Error>)
        ensures final(w).reads == old(w).reads.push(ReadEv { ks: self.id@, instant: seqno, scan: true, local: index is Some }) { unimplemented!() }
    #[verifier::external_body]
    pub fn first_key_value(&self, seqno: u64, index: Option<(MemtableArc, u64)>, Tracked(w): Tracked<&mut RWorld>) -> (r: Option<IterGuardImpl>)
        ensures final(w).reads == old(w).reads.push(ReadEv { ks: self.id@, instant: seqno, scan: true, local: index is Some }) { unimplemented!() }
    #[verifier::external_body]
    pub fn last_key_value(&self, seqno: u64, index: Option<(MemtableArc, u64)>, Tracked(w): Tracked<&mut RWorld>) -> (r: Option<IterGuardImpl>)
        ensures final(w).reads == old(w).reads.push(ReadEv { ks: self.id@, instant: seqno, scan: true, local: index is Some }) { unimplemented!() }
    #[verifier::external_body]
    pub fn iter(&self, seqno: u64, index: Option<(MemtableArc, u64)>, Tracked(w): Tracked<&mut RWorld>) -> (r: InnerIter)
        ensures final(w).reads == old(w).reads.push(ReadEv { ks: self.id@, instant: seqno, scan: true, local: index is Some }),
                r.ks == self.id, r.at@ == seqno, r.local@ == local_of(index), r.todo@.len() < usize::MAX { unimplemented!() }   // ASSUMED: fewer than 2^64 items
    #[verifier::external_body]
    pub fn range<K: AsRef<[u8]>, R: std::ops::RangeBounds<K>>(&self, range: R, seqno: u64, index: Option<(MemtableArc, u64)>, Tracked(w): Tracked<&mut RWorld>) -> (r: InnerIter)
        ensures final(w).reads == old(w).reads.push(ReadEv { ks: self.id@, instant: seqno, scan: true, local: index is Some }),
                r.ks == self.id, r.at@ == seqno, r.local@ == local_of(index), r.todo@.len() < usize::MAX { unimplemented!() }   // ASSUMED: fewer than 2^64 items
    #[verifier::external_body]
    pub fn prefix<K: AsRef<[u8]>>(&self, prefix: K, seqno: u64, index: Option<(MemtableArc, u64)>, Tracked(w): Tracked<&mut RWorld>) -> (r: InnerIter)
        ensures final(w).reads == old(w).reads.push(ReadEv { ks: self.id@, instant: seqno, scan: true, local: index is Some }),
                r.ks == self.id, r.at@ == seqno, r.local@ == local_of(index), r.todo@.len() < usize::MAX { unimplemented!() }   // ASSUMED: fewer than 2^64 items
}
/// every read event appended between two worlds was issued at `instant`
pub open spec fn reads_only_at(o: RWorld, n: RWorld, instant: u64) -> bool {
    o.reads.len() <= n.reads.len()
    && (forall|i: int| 0 <= i < o.reads.len() ==> (#[trigger] n.reads[i]) == o.reads[i])
    && (forall|i: int| o.reads.len() <= i < n.reads.len() ==> (#[trigger] n.reads[i]).instant == instant)
}
// AsRef is used generically (`impl AsRef<Keyspace>`, `K: AsRef<[u8]>`): declare the std trait to Verus
#[verifier::external_trait_specification]
pub trait ExAsRef<T: core::marker::PointeeSized>: core::marker::PointeeSized { type ExternalTraitSpecificationFor: AsRef<T>; fn as_ref(&self) -> &T; }
