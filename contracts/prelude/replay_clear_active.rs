// only for units that do not include prelude/sealed.rs (which gives the sealed-journal meaning of the same call)
impl AnyTree {
    // lsm-tree AbstractTree::clear_active_memtable: replaces ONLY the active memtable by an empty one; sealed
    // memtables and tables stay (so it is not the replay of a journaled clear)
    #[verifier::external_body]
    pub fn clear_active_memtable(&self, Tracked(w): Tracked<&mut World>)
        requires old(w).trees.dom().contains(self.id@),
        ensures *final(w) == (World { trees: old(w).trees.insert(self.id@, TreeG { applied: old(w).trees[self.id@].applied.push(ApplyG { kind: ApplyKind::ClearActive, key: Seq::empty(), value: Seq::empty(), seqno: 0 }), ..old(w).trees[self.id@] }), ..*old(w) }),
    { unimplemented!() }
}
