// ===== prelude/io.rs — TRUSTED BASE: std::io::{Write,Read} + byteorder-lite extension methods =====
// `Write` merges std::io::Write and byteorder::WriteBytesExt (blanket-implemented for every Write in
// byteorder-lite); `Read` merges std::io::Read and ReadBytesExt. A sink has a ghost view of the bytes
// accepted so far; a failed write may have appended any prefix (old view is a prefix of new view).

pub struct LittleEndian;
pub struct BigEndian;
pub trait ByteOrder { spec fn is_le() -> bool; }
impl ByteOrder for LittleEndian { open spec fn is_le() -> bool { true } }
impl ByteOrder for BigEndian { open spec fn is_le() -> bool { false } }

#[verifier::opaque]
pub open spec fn le16(x: u16) -> Seq<u8> { seq![(x & 0xff) as u8, ((x >> 8) & 0xff) as u8] }
#[verifier::opaque]
pub open spec fn le32(x: u32) -> Seq<u8> { le16((x & 0xffff) as u16) + le16(((x >> 16) & 0xffff) as u16) }
#[verifier::opaque]
pub open spec fn le64(x: u64) -> Seq<u8> { le32((x & 0xffff_ffff) as u32) + le32(((x >> 32) & 0xffff_ffff) as u32) }
pub open spec fn rev(s: Seq<u8>) -> Seq<u8> { Seq::new(s.len(), |i: int| s[s.len() - 1 - i]) }
pub open spec fn enc16<B: ByteOrder>(x: u16) -> Seq<u8> { if B::is_le() { le16(x) } else { rev(le16(x)) } }
pub open spec fn enc32<B: ByteOrder>(x: u32) -> Seq<u8> { if B::is_le() { le32(x) } else { rev(le32(x)) } }
pub open spec fn enc64<B: ByteOrder>(x: u64) -> Seq<u8> { if B::is_le() { le64(x) } else { rev(le64(x)) } }

#[verifier::opaque]
pub open spec fn de16(s: Seq<u8>) -> u16 { (s[0] as u16) | ((s[1] as u16) << 8) }
#[verifier::opaque]
pub open spec fn de32(s: Seq<u8>) -> u32 { (de16(s.subrange(0, 2)) as u32) | ((de16(s.subrange(2, 4)) as u32) << 16) }
#[verifier::opaque]
pub open spec fn de64(s: Seq<u8>) -> u64 { (de32(s.subrange(0, 4)) as u64) | ((de32(s.subrange(4, 8)) as u64) << 32) }
pub open spec fn dec16<B: ByteOrder>(s: Seq<u8>) -> u16 { if B::is_le() { de16(s) } else { de16(rev(s)) } }
pub open spec fn dec32<B: ByteOrder>(s: Seq<u8>) -> u32 { if B::is_le() { de32(s) } else { de32(rev(s)) } }
pub open spec fn dec64<B: ByteOrder>(s: Seq<u8>) -> u64 { if B::is_le() { de64(s) } else { de64(rev(s)) } }

pub trait Write: Sized {
    spec fn sink(&self) -> Seq<u8>;
    /// true for in-memory sinks (Vec<u8>): writes never fail and never change this flag
    spec fn infallible(&self) -> bool;
    fn write_all(&mut self, buf: &[u8]) -> (r: Result<(), IoError>)
        ensures r is Ok ==> final(self).sink() == old(self).sink() + buf@,
                r is Err ==> old(self).sink().is_prefix_of(final(self).sink()),
                final(self).infallible() == old(self).infallible(), old(self).infallible() ==> r is Ok;
    // std::io::Write::write: may accept any prefix of the buffer (short write)
    fn write(&mut self, buf: &[u8]) -> (r: Result<usize, IoError>)
        ensures r is Ok ==> r->Ok_0 <= buf@.len() && final(self).sink() == old(self).sink() + buf@.subrange(0, r->Ok_0 as int),
                r is Err ==> final(self).sink() == old(self).sink(),
                final(self).infallible() == old(self).infallible(), old(self).infallible() ==> r is Ok && r->Ok_0 == buf@.len();
    fn write_u8(&mut self, x: u8) -> (r: Result<(), IoError>)
        ensures r is Ok ==> final(self).sink() == old(self).sink() + seq![x],
                r is Err ==> old(self).sink().is_prefix_of(final(self).sink()),
                final(self).infallible() == old(self).infallible(), old(self).infallible() ==> r is Ok;
    fn write_u16<B: ByteOrder>(&mut self, x: u16) -> (r: Result<(), IoError>)
        ensures r is Ok ==> final(self).sink() == old(self).sink() + enc16::<B>(x),
                r is Err ==> old(self).sink().is_prefix_of(final(self).sink()),
                final(self).infallible() == old(self).infallible(), old(self).infallible() ==> r is Ok;
    fn write_u32<B: ByteOrder>(&mut self, x: u32) -> (r: Result<(), IoError>)
        ensures r is Ok ==> final(self).sink() == old(self).sink() + enc32::<B>(x),
                r is Err ==> old(self).sink().is_prefix_of(final(self).sink()),
                final(self).infallible() == old(self).infallible(), old(self).infallible() ==> r is Ok;
    fn write_u64<B: ByteOrder>(&mut self, x: u64) -> (r: Result<(), IoError>)
        ensures r is Ok ==> final(self).sink() == old(self).sink() + enc64::<B>(x),
                r is Err ==> old(self).sink().is_prefix_of(final(self).sink()),
                final(self).infallible() == old(self).infallible(), old(self).infallible() ==> r is Ok;
}

// Vec<u8> as a sink: std's impl never fails.
impl Write for Vec<u8> {
    open spec fn sink(&self) -> Seq<u8> { self@ }
    open spec fn infallible(&self) -> bool { true }
    #[verifier::external_body]
    fn write_all(&mut self, buf: &[u8]) -> (r: Result<(), IoError>)
        ensures r is Ok
    { unimplemented!() }
    #[verifier::external_body]
    fn write(&mut self, buf: &[u8]) -> (r: Result<usize, IoError>) { unimplemented!() }
    #[verifier::external_body]
    fn write_u8(&mut self, x: u8) -> (r: Result<(), IoError>) ensures r is Ok { unimplemented!() }
    #[verifier::external_body]
    fn write_u16<B: ByteOrder>(&mut self, x: u16) -> (r: Result<(), IoError>) ensures r is Ok { unimplemented!() }
    #[verifier::external_body]
    fn write_u32<B: ByteOrder>(&mut self, x: u32) -> (r: Result<(), IoError>) ensures r is Ok { unimplemented!() }
    #[verifier::external_body]
    fn write_u64<B: ByteOrder>(&mut self, x: u64) -> (r: Result<(), IoError>) ensures r is Ok { unimplemented!() }
}

// A source is a ghost pair (all bytes of the underlying stream, position). Reads never change `all`.
// read_exact and the fixed-width readers fail with UnexpectedEof iff fewer bytes remain (std contract for
// in-memory and file readers); `may_fail()` says whether the source can also fail for other reasons (real I/O).
// id: ghost identity of the underlying stream (a path identity for files); reads never change it
pub struct RS { pub all: Seq<u8>, pub pos: int, pub may_fail: bool, pub id: int }
pub trait Read: Sized {
    spec fn rs(&self) -> RS;
    fn read_exact(&mut self, buf: &mut [u8]) -> (r: Result<(), IoError>)
        requires 0 <= old(self).rs().pos <= old(self).rs().all.len(),
        ensures read_frame(old(self).rs(), final(self).rs()),
                r is Ok ==> read_ok(old(self).rs(), final(self).rs(), old(buf)@.len() as int)
                    && final(buf)@ == old(self).rs().all.subrange(old(self).rs().pos, old(self).rs().pos + old(buf)@.len()),
                r is Err ==> read_err(old(self).rs(), old(buf)@.len() as int, r->Err_0),
                final(buf)@.len() == old(buf)@.len();
    fn read_u8(&mut self) -> (r: Result<u8, IoError>)
        requires 0 <= old(self).rs().pos <= old(self).rs().all.len(),
        ensures read_frame(old(self).rs(), final(self).rs()),
                r is Ok ==> read_ok(old(self).rs(), final(self).rs(), 1) && r->Ok_0 == old(self).rs().all[old(self).rs().pos],
                r is Err ==> read_err(old(self).rs(), 1, r->Err_0);
    fn read_u16<B: ByteOrder>(&mut self) -> (r: Result<u16, IoError>)
        requires 0 <= old(self).rs().pos <= old(self).rs().all.len(),
        ensures read_frame(old(self).rs(), final(self).rs()),
                r is Ok ==> read_ok(old(self).rs(), final(self).rs(), 2) && r->Ok_0 == dec16::<B>(old(self).rs().all.subrange(old(self).rs().pos, old(self).rs().pos + 2)),
                r is Err ==> read_err(old(self).rs(), 2, r->Err_0);
    fn read_u32<B: ByteOrder>(&mut self) -> (r: Result<u32, IoError>)
        requires 0 <= old(self).rs().pos <= old(self).rs().all.len(),
        ensures read_frame(old(self).rs(), final(self).rs()),
                r is Ok ==> read_ok(old(self).rs(), final(self).rs(), 4) && r->Ok_0 == dec32::<B>(old(self).rs().all.subrange(old(self).rs().pos, old(self).rs().pos + 4)),
                r is Err ==> read_err(old(self).rs(), 4, r->Err_0);
    fn read_u64<B: ByteOrder>(&mut self) -> (r: Result<u64, IoError>)
        requires 0 <= old(self).rs().pos <= old(self).rs().all.len(),
        ensures read_frame(old(self).rs(), final(self).rs()),
                r is Ok ==> read_ok(old(self).rs(), final(self).rs(), 8) && r->Ok_0 == dec64::<B>(old(self).rs().all.subrange(old(self).rs().pos, old(self).rs().pos + 8)),
                r is Err ==> read_err(old(self).rs(), 8, r->Err_0);
}
/// what every read preserves
pub open spec fn read_frame(o: RS, n: RS) -> bool {
    n.all == o.all && n.may_fail == o.may_fail && n.id == o.id && o.pos <= n.pos <= n.all.len()
}
pub open spec fn read_ok(o: RS, n: RS, len: int) -> bool {
    o.pos + len <= o.all.len() && n.pos == o.pos + len
}
pub open spec fn read_err(o: RS, len: int, e: IoError) -> bool {
    !o.may_fail ==> o.pos + len > o.all.len() && e.kind == IoErrorKind::UnexpectedEof
}

// lsm-tree 3.1.10 src/compression.rs: `impl Encode/Decode for CompressionType` (one tag byte: 0 None, 1 Lz4)
impl CompressionType {
    #[verifier::external_body]
    pub fn encode_into<W: Write>(&self, writer: &mut W) -> (r: Result<(), lsm_tree::Error>)
        ensures r is Ok ==> final(writer).sink() == old(writer).sink() + comp_bytes(*self),
                r is Err ==> old(writer).sink().is_prefix_of(final(writer).sink()),
                final(writer).infallible() == old(writer).infallible(), old(writer).infallible() ==> r is Ok,
    { unimplemented!() }
    #[verifier::external_body]
    pub fn decode_from<R: Read>(reader: &mut R) -> (r: Result<CompressionType, lsm_tree::Error>)
        requires 0 <= old(reader).rs().pos <= old(reader).rs().all.len(),
        ensures
            read_frame(old(reader).rs(), final(reader).rs()),
            r is Ok ==> read_ok(old(reader).rs(), final(reader).rs(), 1) && comp_of_byte(old(reader).rs().all[old(reader).rs().pos]) == Some(r->Ok_0),
            r is Err && !old(reader).rs().may_fail ==>
                   (old(reader).rs().pos + 1 > old(reader).rs().all.len() && (r->Err_0 matches lsm_tree::Error::Io(e) && e.kind == IoErrorKind::UnexpectedEof))
                || (old(reader).rs().pos + 1 <= old(reader).rs().all.len() && comp_of_byte(old(reader).rs().all[old(reader).rs().pos]) is None && !(r->Err_0 is Io)),
    { unimplemented!() }
}
pub open spec fn comp_of_byte(b: u8) -> Option<CompressionType> {
    match b { 0u8 => Some(CompressionType::None), 1u8 => Some(CompressionType::Lz4), _ => None }
}

// ---- byteview / lsm_tree::Slice construction (lsm-tree 3.1.10 src/slice/slice_default/mod.rs) ----
pub struct SliceBuilder { pub v: Vec<u8> }   // byteview::Builder: a mutable byte buffer of fixed length
pub struct ByteView { pub v: Vec<u8> }
impl SliceBuilder {
    pub open spec fn view(&self) -> Seq<u8> { self.v@ }
    #[verifier::external_body]
    pub fn len(&self) -> (r: usize) ensures r == self@.len() { unimplemented!() }
    #[verifier::external_body]
    pub fn freeze(self) -> (r: ByteView) ensures r.v@ == self@ { unimplemented!() }
}
impl std::ops::Deref for SliceBuilder {
    type Target = [u8];
    #[verifier::external_body]
    fn deref(&self) -> (r: &[u8]) ensures r@ == self@ { unimplemented!() }
}
impl std::ops::DerefMut for SliceBuilder {
    #[verifier::external_body]
    fn deref_mut(&mut self) -> (r: &mut [u8]) ensures r@ == old(self)@, final(self)@ == final(r)@ { unimplemented!() }
}
impl vstd::std_specs::convert::FromSpecImpl<ByteView> for Slice {
    open spec fn obeys_from_spec() -> bool { true }
    open spec fn from_spec(b: ByteView) -> Slice { Slice { v: b.v } }
}
impl From<ByteView> for Slice {
    fn from(b: ByteView) -> Slice { Slice { v: b.v } }
}
impl Slice {
    // UNSAFE in the real crate (uninitialised buffer); modelled as a buffer of arbitrary content
    #[verifier::external_body]
    pub fn builder_unzeroed(len: usize) -> (r: SliceBuilder) ensures r@.len() == len { unimplemented!() }
    #[verifier::external_body]
    pub fn from_reader<R: Read>(reader: &mut R, len: usize) -> (r: Result<Slice, IoError>)
        requires 0 <= old(reader).rs().pos <= old(reader).rs().all.len(),
        ensures read_frame(old(reader).rs(), final(reader).rs()),
                r is Ok ==> read_ok(old(reader).rs(), final(reader).rs(), len as int)
                    && r->Ok_0@ == old(reader).rs().all.subrange(old(reader).rs().pos, old(reader).rs().pos + len),
                r is Err ==> read_err(old(reader).rs(), len as int, r->Err_0),
    { unimplemented!() }
}
// lz4_flex::decompress_into: idealised as a deterministic partial function of the input, inverse of compress.
pub uninterp spec fn lz4_decompress_spec(s: Seq<u8>) -> Option<Seq<u8>>;
pub broadcast axiom fn lz4_inverse(v: Seq<u8>)
    ensures #[trigger] lz4_decompress_spec(lz4_compress_spec(v)) == Some(v);
pub struct DecompressError {}
pub mod lz4_flex_d {
    use super::*;
    #[verifier::external_body]
    pub fn decompress_into(input: &[u8], output: &mut [u8]) -> (r: Result<usize, DecompressError>)
        ensures
            final(output)@.len() == old(output)@.len(),
            r is Ok <==> (lz4_decompress_spec(input@) is Some && lz4_decompress_spec(input@)->Some_0.len() <= old(output)@.len()),
            r is Ok ==> r->Ok_0 == lz4_decompress_spec(input@)->Some_0.len()
                && final(output)@.subrange(0, r->Ok_0 as int) == lz4_decompress_spec(input@)->Some_0
                && (r->Ok_0 == old(output)@.len() ==> final(output)@ == lz4_decompress_spec(input@)->Some_0),
    { unimplemented!() }
}
