// ===== prelude/replay.rs — TRUSTED BASE for U-REPLAY: recovery-time world, reader abstraction, meta dictionary =====
pub struct ItemV { pub keyspace_id: u64, pub key: Seq<u8>, pub value: Seq<u8>, pub value_type: ValueType }
pub struct BatchV { pub seqno: u64, pub items: Seq<ItemV>, pub cleared: Seq<u64> }
#[derive(PartialEq, Eq)]
pub enum ApplyKind { Insert, Remove, RemoveWeak, Clear, ClearActive }
pub struct ApplyG { pub kind: ApplyKind, pub key: Seq<u8>, pub value: Seq<u8>, pub seqno: u64 }
pub struct TreeG {
    pub applied: Seq<ApplyG>,           // memtable operations replayed so far, in order
    pub persisted: Option<u64>,         // highest seqno in the tree's tables
    pub mem_max: Option<u64>,           // highest seqno in its ACTIVE memtable
    pub sealed_max: Option<u64>,        // highest seqno in its sealed (rotated, not yet flushed) memtables
}
pub struct World {
    pub trees: Map<u64, TreeG>,         // by keyspace id
    pub meta_names: Map<u64, Seq<u8>>,  // meta keyspace: id -> name ('n' rows)
    pub dict: Map<Seq<u8>, u64>,        // in-memory dictionary: name -> id of the registered handle
    pub seqno: u64, pub visible: u64,   // the two shared counters
    pub recovering: bool,               // no other thread has a handle yet
    pub active: bool,                   // the journal being replayed is the ACTIVE one: what is re-applied stays in the active memtable
    pub level_violations: Seq<(u64, u64)>,
    pub next_ks_id: u64,                // Database.keyspace_id_counter: the next internal keyspace id to hand out
    pub queue: Seq<QItemG>,             // JournalManager: sealed journals awaiting eviction, oldest first
    pub discarded: Seq<u64>,            // trees whose replayed active memtable was thrown away again (sealed-journal skip rule)
}
pub struct QItemG { pub path: int, pub wms: Seq<(u64, u64)> }   // (keyspace id of the handle, lsn)
/// which registered keyspace a journaled id resolves to at replay time (C12: unknown ids are skipped)
pub open spec fn resolve(w: World, id: u64) -> Option<u64> {
    if w.meta_names.dom().contains(id) && w.dict.dom().contains(w.meta_names[id]) { Some(w.dict[w.meta_names[id]]) } else { None }
}
pub open spec fn kind_of(vt: ValueType) -> ApplyKind {
    match vt { ValueType::Value => ApplyKind::Insert, ValueType::Tombstone => ApplyKind::Remove, ValueType::WeakTombstone => ApplyKind::RemoveWeak, ValueType::Indirection => ApplyKind::Insert }
}
pub open spec fn push_apply(t: Map<u64, TreeG>, k: u64, a: ApplyG) -> Map<u64, TreeG> {
    t.insert(k, TreeG { applied: t[k].applied.push(a), mem_max: Some(if t[k].mem_max is Some && t[k].mem_max->Some_0 > a.seqno { t[k].mem_max->Some_0 } else { a.seqno }), ..t[k] })
}
/// C02/C03/C12: what replaying one item must do
pub open spec fn replay_item(w: World, t: Map<u64, TreeG>, it: ItemV, seqno: u64) -> Map<u64, TreeG> {
    match resolve(w, it.keyspace_id) {
        Some(k) => push_apply(t, k, ApplyG { kind: kind_of(it.value_type), key: it.key, value: if it.value_type == ValueType::Value { it.value } else { Seq::empty() }, seqno }),
        None => t,
    }
}
pub open spec fn replay_items(w: World, t: Map<u64, TreeG>, items: Seq<ItemV>, n: int, seqno: u64) -> Map<u64, TreeG>
    decreases n
{ if n <= 0 { t } else { replay_item(w, replay_items(w, t, items, n - 1, seqno), items[n - 1], seqno) } }
/// clear(): every layer of the tree is dropped; in particular the active memtable is empty afterwards
pub open spec fn clear_tree(t: Map<u64, TreeG>, k: u64) -> Map<u64, TreeG> {
    t.insert(k, TreeG { applied: t[k].applied.push(ApplyG { kind: ApplyKind::Clear, key: Seq::empty(), value: Seq::empty(), seqno: 0 }), mem_max: None, ..t[k] })
}
pub open spec fn replay_clear(w: World, t: Map<u64, TreeG>, id: u64, seqno: u64) -> Map<u64, TreeG> {
    match resolve(w, id) {
        Some(k) => clear_tree(t, k),
        None => t,
    }
}
pub open spec fn replay_clears(w: World, t: Map<u64, TreeG>, ids: Seq<u64>, n: int, seqno: u64) -> Map<u64, TreeG>
    decreases n
{ if n <= 0 { t } else { replay_clear(w, replay_clears(w, t, ids, n - 1, seqno), ids[n - 1], seqno) } }
pub open spec fn replay_batch(w: World, t: Map<u64, TreeG>, b: BatchV) -> Map<u64, TreeG> {
    replay_clears(w, replay_items(w, t, b.items, b.items.len() as int, b.seqno), b.cleared, b.cleared.len() as int, b.seqno)
}
pub open spec fn replay_batches(w: World, t: Map<u64, TreeG>, bs: Seq<BatchV>, n: int) -> Map<u64, TreeG>
    decreases n
{ if n <= 0 { t } else { replay_batch(w, replay_batches(w, t, bs, n - 1), bs[n - 1]) } }

// ---- journal batch reader, abstracted to the sequence of batches it will emit (its contract is U-READER's br_run)
pub struct ReadBatchItem { pub keyspace_id: InternalKeyspaceId, pub key: UserKey, pub value: UserValue, pub value_type: ValueType }
pub struct Batch { pub seqno: SeqNo, pub items: Vec<ReadBatchItem>, pub cleared_keyspaces: Vec<InternalKeyspaceId> }
pub open spec fn item_view(i: ReadBatchItem) -> ItemV { ItemV { keyspace_id: i.keyspace_id, key: i.key@, value: i.value@, value_type: i.value_type } }
pub open spec fn items_view(v: Seq<ReadBatchItem>) -> Seq<ItemV> { Seq::new(v.len(), |i: int| item_view(v[i])) }
pub open spec fn batch_view(b: Batch) -> BatchV { BatchV { seqno: b.seqno, items: items_view(b.items@), cleared: b.cleared_keyspaces@ } }
pub struct JournalBatchReader { pub emits: Ghost<Seq<BatchV>>, pub idx: Ghost<int> }
impl JournalBatchReader {
    #[verifier::external_body]
    pub fn next(&mut self) -> (r: Option<Result<Batch, Error>>)
        requires 0 <= old(self).idx@ <= old(self).emits@.len(),
        ensures final(self).emits == old(self).emits, 0 <= final(self).idx@ <= final(self).emits@.len(),
            r matches Some(Ok(b)) ==> old(self).idx@ < old(self).emits@.len() && batch_view(b) == old(self).emits@[old(self).idx@] && final(self).idx@ == old(self).idx@ + 1,
            r is None ==> old(self).idx@ == old(self).emits@.len() && final(self).idx@ == old(self).idx@,
            r matches Some(Err(_)) ==> final(self).idx@ == old(self).idx@,
    { unimplemented!() }
}
// ---- meta keyspace and dictionary
pub struct StrView { pub s: Ghost<Seq<u8>> }
pub struct MetaKeyspace { pub inner: AnyTree }   // the meta keyspace's own tree is tree 0 (keyspaces/0)
impl MetaKeyspace {
    // ASSUMED contract of MetaKeyspace::resolve_id (not under contract): reads the 'n'+id row of the meta tree
    #[verifier::external_body]
    pub fn resolve_id(&self, id: InternalKeyspaceId, Tracked(w): Tracked<&mut World>) -> (r: Result<Option<StrView>, Error>)
        ensures *final(w) == *old(w),
            r matches Ok(Some(n)) ==> old(w).meta_names.dom().contains(id) && n.s@ == old(w).meta_names[id],
            r matches Ok(None) ==> !old(w).meta_names.dom().contains(id),
    { unimplemented!() }
}
impl MetaKeyspace {
    // contract of MetaKeyspace::get_highest_seqno: proved in U-METASEQ from the same clause text, assumed in the other units
    #[verifier::external_body]
    pub fn get_highest_seqno(&self, Tracked(w): Tracked<&mut World>) -> (r: Option<u64>)
        requires self.inner.id@ == 0, old(w).trees.dom().contains(0),
        ensures *final(w) == *old(w), r == highest(old(w).trees[0]), r is Some ==> r->Some_0 < u64::MAX,
    { unimplemented!() }
}
pub struct AnyTree { pub id: Ghost<u64> }
pub struct Keyspace { pub id: InternalKeyspaceId, pub tree: AnyTree, pub name: StrView }
impl Clone for Keyspace { #[verifier::external_body] fn clone(&self) -> (r: Keyspace) ensures r == *self { unimplemented!() } }   // Arc clone: same handle
pub struct KsReadGuard { pub vals: Vec<Keyspace> }
impl KsReadGuard {
    // HashMap<KeyspaceKey, Keyspace>::get through the read guard
    #[verifier::external_body]
    pub fn get(&self, name: &StrView, Tracked(w): Tracked<&mut World>) -> (r: Option<&Keyspace>)
        ensures *final(w) == *old(w),
            r matches Some(k) ==> old(w).dict.dom().contains(name.s@) && k.id == old(w).dict[name.s@] && k.tree.id@ == k.id && old(w).trees.dom().contains(k.id),
            r is None ==> !old(w).dict.dom().contains(name.s@),
    { unimplemented!() }
    pub fn values(&self) -> (r: &Vec<Keyspace>) ensures r == &self.vals { &self.vals }
}
/// P-LEVEL (C04): lsm-tree point reads stop at the first hit in layer order, so a replayed memtable version must
/// be newer than everything already in the tree's tables (otherwise `get` answers from the stale journal record
/// while scans merge by seqno). Violations are LOGGED here and constrained by the slice contracts.
pub open spec fn level_ok(t: TreeG, seqno: u64) -> bool { t.persisted is None || seqno > t.persisted->Some_0 }
impl AnyTree {
    #[verifier::external_body]
    pub fn insert(&self, key: UserKey, value: UserValue, seqno: u64, Tracked(w): Tracked<&mut World>) -> (r: (u64, u64))
        requires old(w).recovering, old(w).trees.dom().contains(self.id@),
                 // (for a SEALED journal the rebuilt memtable is judged as a whole afterwards: P-KEEP in U-SEALED)
                 old(w).active ==> level_ok(old(w).trees[self.id@], seqno), // [C04:P-LEVEL] [C01:P-LEVEL] [C18:P-REPLAY]
        ensures *final(w) == (World { trees: push_apply(old(w).trees, self.id@, ApplyG { kind: ApplyKind::Insert, key: key@, value: value@, seqno }), ..*old(w) }),
    { unimplemented!() }
    #[verifier::external_body]
    pub fn remove(&self, key: UserKey, seqno: u64, Tracked(w): Tracked<&mut World>) -> (r: (u64, u64))
        requires old(w).recovering, old(w).trees.dom().contains(self.id@),
                 // (for a SEALED journal the rebuilt memtable is judged as a whole afterwards: P-KEEP in U-SEALED)
                 old(w).active ==> level_ok(old(w).trees[self.id@], seqno), // [C04:P-LEVEL] [C01:P-LEVEL] [C18:P-REPLAY]
        ensures *final(w) == (World { trees: push_apply(old(w).trees, self.id@, ApplyG { kind: ApplyKind::Remove, key: key@, value: Seq::empty(), seqno }), ..*old(w) }),
    { unimplemented!() }
    #[verifier::external_body]
    pub fn remove_weak(&self, key: UserKey, seqno: u64, Tracked(w): Tracked<&mut World>) -> (r: (u64, u64))
        requires old(w).recovering, old(w).trees.dom().contains(self.id@),
                 // (for a SEALED journal the rebuilt memtable is judged as a whole afterwards: P-KEEP in U-SEALED)
                 old(w).active ==> level_ok(old(w).trees[self.id@], seqno), // [C04:P-LEVEL] [C01:P-LEVEL] [C18:P-REPLAY]
        ensures *final(w) == (World { trees: push_apply(old(w).trees, self.id@, ApplyG { kind: ApplyKind::RemoveWeak, key: key@, value: Seq::empty(), seqno }), ..*old(w) }),
    { unimplemented!() }
    // a replayed clear drops every layer of the tree: it must not be older than anything already in the tables (P-CLEAR)
    #[verifier::external_body]
    pub fn clear(&self, Tracked(w): Tracked<&mut World>) -> (r: Result<(), lsm_tree::Error>)
        requires old(w).recovering, old(w).trees.dom().contains(self.id@),
        ensures *final(w) == (World { trees: clear_tree(old(w).trees, self.id@), ..*old(w) }),
    { unimplemented!() }
    #[verifier::external_body]
    pub fn get_highest_seqno(&self, Tracked(w): Tracked<&mut World>) -> (r: Option<u64>)
        requires old(w).trees.dom().contains(self.id@),
        ensures *final(w) == *old(w), r == highest(old(w).trees[self.id@]),
                r is Some ==> r->Some_0 < u64::MAX,   // ASSUMED: seqnos never reach u64::MAX
    { unimplemented!() }
    #[verifier::external_body]
    pub fn get_highest_memtable_seqno(&self, Tracked(w): Tracked<&mut World>) -> (r: Option<u64>)
        requires old(w).trees.dom().contains(self.id@),
        ensures *final(w) == *old(w), r == old(w).trees[self.id@].mem_max, r is Some ==> r->Some_0 < u64::MAX,
    { unimplemented!() }
    #[verifier::external_body]
    pub fn get_highest_persisted_seqno(&self, Tracked(w): Tracked<&mut World>) -> (r: Option<u64>)
        requires old(w).trees.dom().contains(self.id@),
        ensures *final(w) == *old(w), r == old(w).trees[self.id@].persisted, r is Some ==> r->Some_0 < u64::MAX,
    { unimplemented!() }
    #[verifier::external_body] pub fn active_memtable(&self) -> (r: MemtableH) { unimplemented!() }
}
pub struct MemtableH { pub dummy: u8 }
impl MemtableH {
    #[verifier::external_body] pub fn size(&self) -> (r: u64) { unimplemented!() }
    #[verifier::external_body] pub fn len(&self) -> (r: usize) { unimplemented!() }
}
pub open spec fn omax(a: Option<u64>, b: Option<u64>) -> Option<u64> {
    match (a, b) { (Some(x), Some(y)) => Some(if x > y { x } else { y }), (Some(x), None) => Some(x), (None, Some(y)) => Some(y), (None, None) => None }
}
pub open spec fn highest(t: TreeG) -> Option<u64> { omax(omax(t.persisted, t.mem_max), t.sealed_max) }
pub struct ClearResult { pub seqno: Ghost<u64>, pub ok: bool }
impl ClearResult { pub fn ok(self) -> (r: Option<()>) { if self.ok { Some(()) } else { None } } }
pub struct SequenceNumberCounter { pub is_visible: Ghost<bool> }
impl SequenceNumberCounter {
    #[verifier::external_body]
    pub fn fetch_max(&self, v: u64, Tracked(w): Tracked<&mut World>) -> (r: u64)
        requires old(w).recovering,
        ensures self.is_visible@ ==> *final(w) == (World { visible: if v > old(w).visible { v } else { old(w).visible }, ..*old(w) }),
               !self.is_visible@ ==> *final(w) == (World { seqno: if v > old(w).seqno { v } else { old(w).seqno }, ..*old(w) }),
    { unimplemented!() }
    #[verifier::external_body]
    pub fn get(&self, Tracked(w): Tracked<&mut World>) -> (r: u64)
        ensures *final(w) == *old(w), r == (if self.is_visible@ { old(w).visible } else { old(w).seqno }),
    { unimplemented!() }
}
pub struct WriteBufferManager { pub dummy: u8 }
impl WriteBufferManager { #[verifier::external_body] pub fn allocate(&self, n: u64) -> (r: u64) { unimplemented!() } }
pub struct SnapshotTrackerH { pub dummy: u8 }
impl SnapshotTrackerH {
    // SnapshotTracker::set (proved in U-TRACKER: `seqno.fetch_max(value)` on the visible-seqno counter)
    #[verifier::external_body]
    pub fn set(&self, value: u64, Tracked(w): Tracked<&mut World>)
        requires old(w).recovering,
        ensures *final(w) == (World { visible: if value > old(w).visible { value } else { old(w).visible }, ..*old(w) }),
    { unimplemented!() }
}
pub struct Supervisor { pub seqno: SequenceNumberCounter, pub write_buffer_size: WriteBufferManager, pub snapshot_tracker: SnapshotTrackerH }
// Database.keyspace_id_counter (a SequenceNumberCounter used as id allocator)
pub struct IdCounter { pub dummy: u8 }
impl IdCounter {
    #[verifier::external_body]
    pub fn fetch_max(&self, v: u64, Tracked(w): Tracked<&mut World>) -> (r: u64)
        ensures *final(w) == (World { next_ks_id: if v > old(w).next_ks_id { v } else { old(w).next_ks_id }, ..*old(w) }),
    { unimplemented!() }
}
pub struct Database { pub meta_keyspace: MetaKeyspace, pub supervisor: Supervisor, pub keyspace_id_counter: IdCounter }
/// P-ID (C12): every keyspace id that occurs in a replayed journal record is below the id counter, so it is never handed out again
pub open spec fn ids_below(b: BatchV, n_items: int, n_cleared: int, c: u64) -> bool {
    (forall|j: int| 0 <= j < n_items ==> (#[trigger] b.items[j]).keyspace_id < c) && (forall|j: int| 0 <= j < n_cleared ==> (#[trigger] b.cleared[j]) < c)
}
pub open spec fn all_ids_below(bs: Seq<BatchV>, n: int, c: u64) -> bool {
    forall|i: int| 0 <= i < n ==> ids_below(#[trigger] bs[i], bs[i].items.len() as int, bs[i].cleared.len() as int, c)
}
/// ASSUMED about journal content: no record carries the id u64::MAX (ids are drawn from a counter that starts at 1)
pub open spec fn ids_valid(bs: Seq<BatchV>) -> bool { all_ids_below(bs, bs.len() as int, u64::MAX) }

pub open spec fn no_indirection(bs: Seq<BatchV>) -> bool {
    forall|i: int, j: int| 0 <= i < bs.len() && 0 <= j < bs[i].items.len() ==> (#[trigger] bs[i].items[j]).value_type != ValueType::Indirection
}
/// only the trees change during replay (and the keyspace id counter grows)
pub open spec fn replay_frame(o: World, n: World) -> bool {
    n == (World { trees: n.trees, next_ks_id: n.next_ks_id, seqno: n.seqno, ..o }) && n.next_ks_id >= o.next_ks_id && n.seqno >= o.seqno && (forall|k: u64| #[trigger] n.trees.dom().contains(k) <==> o.trees.dom().contains(k))
}
/// C11: the seqno counter is above the seqno of every batch replayed from a journal -- whether or not the batch's keyspaces
/// still hold that data (a cleared or deleted keyspace keeps its records in the journal). (ASSUMED: no journaled seqno is u64::MAX)
pub open spec fn seqnos_below(bs: Seq<BatchV>, n: int, c: u64) -> bool { forall|i: int| 0 <= i < n ==> (#[trigger] bs[i]).seqno < u64::MAX ==> bs[i].seqno < c }
