// ===== prelude/sealed.rs — TRUSTED BASE for U-SEALED: sealed-journal recovery (watermarks, skip rule, re-enqueue) =====
pub struct PathBuf { pub id: Ghost<int> }
impl Clone for PathBuf { #[verifier::external_body] fn clone(&self) -> (r: PathBuf) ensures r.id == self.id { unimplemented!() } }
impl PathBuf { #[verifier::external_body] pub fn display(&self) -> (r: u8) { unimplemented!() } }
/// P-KEEP (C04, C18, C01): a memtable rebuilt from a sealed journal may be kept (sealed, later flushed on top of the
/// tables) only if it holds something newer than the keyspace's tables; otherwise everything in it is already in the
/// tables -- possibly in a form changed since (compaction filter verdict, ingestion) -- and re-applying it would undo that
pub open spec fn keep_ok(t: TreeG) -> bool { t.persisted is None || t.mem_max is None || t.mem_max->Some_0 > t.persisted->Some_0 }
/// C02: a rebuilt memtable may be thrown away only if everything in it is already in the tables
pub open spec fn discard_ok(t: TreeG) -> bool { t.mem_max is None || (t.persisted is Some && t.persisted->Some_0 >= t.mem_max->Some_0) }
pub struct SealedMemtable { pub hs: Ghost<Option<u64>> }
impl SealedMemtable {
    #[verifier::external_body] pub fn get_highest_seqno(&self) -> (r: Option<u64>) ensures r == self.hs@ { unimplemented!() }
    #[verifier::external_body] pub fn size(&self) -> (r: u64) { unimplemented!() }
}
impl AnyTree {
    // lsm-tree AbstractTree::clear_active_memtable: drops the active memtable's content
    #[verifier::external_body]
    pub fn clear_active_memtable(&self, Tracked(w): Tracked<&mut World>)
        requires old(w).recovering, old(w).trees.dom().contains(self.id@),
                 discard_ok(old(w).trees[self.id@]), // [C02:replayed-data-discarded-only-if-already-in-tables] [C03:replayed-data-discarded-only-if-already-in-tables] [C04:replayed-data-discarded-only-if-already-in-tables] [C10:replayed-data-discarded-only-if-already-in-tables]
        ensures *final(w) == (World { trees: old(w).trees.insert(self.id@, TreeG { applied: Seq::empty(), mem_max: None, ..old(w).trees[self.id@] }), discarded: old(w).discarded.push(self.id@), ..*old(w) }),
    { unimplemented!() }
    // lsm-tree AbstractTree::rotate_memtable: seals the active memtable if it is not empty
    #[verifier::external_body]
    pub fn rotate_memtable(&self, Tracked(w): Tracked<&mut World>) -> (r: Option<SealedMemtable>)
        requires old(w).recovering, old(w).trees.dom().contains(self.id@),
                 keep_ok(old(w).trees[self.id@]), // [C04:P-KEEP-sealed-replay-kept-only-if-newer-than-tables] [C18:P-KEEP-sealed-replay-kept-only-if-newer-than-tables] [C01:P-KEEP-sealed-replay-kept-only-if-newer-than-tables]
        ensures r is Some <==> old(w).trees[self.id@].mem_max is Some,
                r is Some ==> r->Some_0.hs@ == old(w).trees[self.id@].mem_max,
                *final(w) == (World { trees: old(w).trees.insert(self.id@, TreeG { mem_max: None, sealed_max: omax(old(w).trees[self.id@].sealed_max, old(w).trees[self.id@].mem_max), ..old(w).trees[self.id@] }), ..*old(w) }),
    { unimplemented!() }
}
// crate::HashMap<InternalKeyspaceId, EvictionWatermark>: represented by its entries in the map's (unspecified but fixed)
// iteration order: keys@[i] is the journaled keyspace id under which vals[i] is stored; keys are distinct
pub struct HashMap<K, V> { pub vals: Vec<V>, pub keys: Ghost<Seq<K>> }
pub open spec fn wm_pair(e: EvictionWatermark) -> (u64, u64) { (e.keyspace.id, e.lsn) }
pub open spec fn wm_pairs(v: Seq<EvictionWatermark>) -> Seq<(u64, u64)> { Seq::new(v.len(), |i: int| wm_pair(v[i])) }
pub open spec fn wm_ok(e: EvictionWatermark) -> bool { e.keyspace.tree.id@ == e.keyspace.id }
impl HashMap<InternalKeyspaceId, EvictionWatermark> {
    // R-HOF targets of `entry(k).and_modify(f).or_insert_with(g)`: lookup / overwrite / insert of one key. Iteration order of a
    // HashMap is unspecified (an insert may even permute it); every contract over this map is insensitive to the order
    #[verifier::external_body]
    pub fn hof_get(&self, k: InternalKeyspaceId) -> (r: Option<EvictionWatermark>)
        ensures r matches Some(v) ==> exists|i: int| 0 <= i < self.keys@.len() && #[trigger] self.keys@[i] == k && v == self.vals@[i],
                r is None ==> forall|i: int| 0 <= i < self.keys@.len() ==> #[trigger] self.keys@[i] != k,
    { unimplemented!() }
    #[verifier::external_body]
    pub fn hof_set(&mut self, k: InternalKeyspaceId, v: EvictionWatermark)
        requires exists|i: int| 0 <= i < old(self).keys@.len() && #[trigger] old(self).keys@[i] == k,
        ensures final(self).keys == old(self).keys, final(self).vals@.len() == old(self).vals@.len(),
            forall|i: int| 0 <= i < old(self).keys@.len() ==> #[trigger] final(self).vals@[i] == (if old(self).keys@[i] == k { v } else { old(self).vals@[i] }),
    { unimplemented!() }
    #[verifier::external_body]
    pub fn hof_insert(&mut self, k: InternalKeyspaceId, v: EvictionWatermark)
        requires forall|i: int| 0 <= i < old(self).keys@.len() ==> #[trigger] old(self).keys@[i] != k,
        ensures final(self).keys@ == old(self).keys@.push(k), final(self).vals@ == old(self).vals@.push(v),
    { unimplemented!() }
    // HashMap::values: every value once
    pub fn values(&self) -> (r: &Vec<EvictionWatermark>) ensures r == &self.vals { &self.vals }
    // HashMap::into_values().collect(): the same values, in the same iteration order
    pub fn into_values(self) -> (r: IntoValues) ensures r.v == self.vals { IntoValues { v: self.vals } }
}
pub struct IntoValues { pub v: Vec<EvictionWatermark> }
impl IntoValues { pub fn collect(self) -> (r: Vec<EvictionWatermark>) ensures r == self.v { self.v } }
// JournalManager behind its write lock: the queue of sealed journals (contract of enqueue proved in U-JMGR)
pub mod journal { pub mod manager { pub use super::super::JmItem as Item; } }
pub struct JmItem { pub watermarks: Vec<EvictionWatermark>, pub path: PathBuf, pub size_in_bytes: u64 }
pub struct JmGuard { pub dummy: u8 }
impl JmGuard {
    #[verifier::external_body]
    pub fn enqueue(&mut self, item: JmItem, Tracked(w): Tracked<&mut World>)
        ensures *final(w) == (World { queue: old(w).queue.push(QItemG { path: item.path.id@, wms: wm_pairs(item.watermarks@) }), ..*old(w) }),
    { unimplemented!() }
}
