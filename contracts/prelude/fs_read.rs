// ===== prelude/fs_read.rs — TRUSTED BASE: files as read (and truncated) by journal recovery =====
// World (ghost): the log of truncations applied to journal files, by path identity. A journal file's bytes as
// seen by one BufReader are `all` (fixed for the lifetime of the reader: fjall truncates only at/after the
// reader's own position, never before it -- this is checked: every set_len records an event).
pub struct TruncEvent { pub path: int, pub len: u64 }
// io_faults == false: no file-system call fails (the idealised run that the functional clauses talk about)
pub struct World { pub trunc: Seq<TruncEvent>, pub io_faults: bool }

pub struct PathBuf { pub id: Ghost<int> }
pub struct File { pub path: Ghost<int>, pub all: Ghost<Seq<u8>>, pub pos: Ghost<int>, pub may_fail: Ghost<bool> }
impl File {
    #[verifier::external_body]
    pub fn set_len(&self, len: u64, Tracked(w): Tracked<&mut World>) -> (r: Result<(), IoError>)
        ensures r is Ok ==> final(w).trunc == old(w).trunc.push(TruncEvent { path: self.path@, len }),
                r is Err ==> final(w).trunc == old(w).trunc,
                final(w).io_faults == old(w).io_faults, !old(w).io_faults ==> r is Ok,
    { unimplemented!() }
    #[verifier::external_body]
    pub fn sync_all(&self, Tracked(w): Tracked<&mut World>) -> (r: Result<(), IoError>)
        ensures *final(w) == *old(w), !old(w).io_faults ==> r is Ok,
    { unimplemented!() }
}
pub struct OpenOptions { pub w: bool }
impl OpenOptions {
    #[verifier::external_body]
    pub fn new() -> (r: OpenOptions) { unimplemented!() }
    #[verifier::external_body]
    pub fn write(&mut self, b: bool) -> (r: &mut OpenOptions) { unimplemented!() }
    #[verifier::external_body]
    pub fn open(&self, path: &PathBuf, Tracked(w): Tracked<&mut World>) -> (r: Result<File, IoError>)
        ensures r is Ok ==> r->Ok_0.path@ == path.id@, *final(w) == *old(w), !old(w).io_faults ==> r is Ok,
    { unimplemented!() }
}
pub struct BufReader<R> { pub inner: R }
impl BufReader<File> {
    #[verifier::external_body]
    pub fn stream_position(&mut self) -> (r: Result<u64, IoError>)
        requires 0 <= old(self).inner.pos@ <= u64::MAX,
        ensures final(self).inner == old(self).inner, r is Ok ==> r->Ok_0 == old(self).inner.pos@,
                !old(self).inner.may_fail@ ==> r is Ok,
    { unimplemented!() }
    pub fn get_mut(&mut self) -> (r: &mut File)
        ensures *r == old(self).inner, final(self).inner == *final(r),
    { &mut self.inner }
}
impl Read for BufReader<File> {
    open spec fn rs(&self) -> RS { RS { all: self.inner.all@, pos: self.inner.pos@, may_fail: self.inner.may_fail@, id: self.inner.path@ } }
    #[verifier::external_body]
    fn read_exact(&mut self, buf: &mut [u8]) -> (r: Result<(), IoError>) { unimplemented!() }
    #[verifier::external_body]
    fn read_u8(&mut self) -> (r: Result<u8, IoError>) { unimplemented!() }
    #[verifier::external_body]
    fn read_u16<B: ByteOrder>(&mut self) -> (r: Result<u16, IoError>) { unimplemented!() }
    #[verifier::external_body]
    fn read_u32<B: ByteOrder>(&mut self) -> (r: Result<u32, IoError>) { unimplemented!() }
    #[verifier::external_body]
    fn read_u64<B: ByteOrder>(&mut self) -> (r: Result<u64, IoError>) { unimplemented!() }
}
