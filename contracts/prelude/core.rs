// ===== prelude/core.rs — TRUSTED BASE: error types, lsm-tree value types, panics =====
// Every `external_body`, `assume_specification` and `uninterp` below is an assumption, not a proof.

// ASSUMPTION: 64-bit target (usize == u64), the only configuration the test suite runs
global size_of usize == 8;

pub struct IoError { pub kind: IoErrorKind }
#[derive(Clone, Copy, PartialEq, Eq)]
pub enum IoErrorKind { UnexpectedEof, Other, NotFound, WouldBlock, AlreadyExists, Interrupted, PermissionDenied }
impl IoError {
    pub fn kind(&self) -> (k: IoErrorKind) ensures k == self.kind { self.kind }
}
#[verifier::external]
impl std::fmt::Debug for IoError { fn fmt(&self, f: &mut std::fmt::Formatter<'_>) -> std::fmt::Result { unimplemented!() } }
pub mod std_io_shim {
    pub use super::IoErrorKind as ErrorKind;
    pub use super::IoError as Error;
}

pub type IoResult<T> = Result<T, IoError>;
pub type SeqNo = u64;
pub type MemtableId = u64;
pub type InternalKeyspaceId = u64;

pub mod lsm_tree {
    use super::*;
    #[derive(Clone, Copy, PartialEq, Eq)]
    pub enum ValueType { Value, Tombstone, WeakTombstone, Indirection }
    #[derive(Clone, Copy, PartialEq, Eq)]
    pub enum CompressionType { None, Lz4 }
    pub enum Error {
        Io(IoError),
        InvalidTag((&'static str, u8)),
        Decompress(CompressionType),
        Other,
    }
    pub type SeqNo = u64;
    pub use super::Slice as UserKey;
    pub use super::Slice as UserValue;
    pub use super::Slice;
}
#[verifier::external]
impl std::fmt::Debug for lsm_tree::Error { fn fmt(&self, f: &mut std::fmt::Formatter<'_>) -> std::fmt::Result { unimplemented!() } }
pub use lsm_tree::ValueType;
pub use lsm_tree::CompressionType;

impl vstd::std_specs::convert::FromSpecImpl<IoError> for lsm_tree::Error {
    open spec fn obeys_from_spec() -> bool { true }
    open spec fn from_spec(e: IoError) -> lsm_tree::Error { lsm_tree::Error::Io(e) }
}
impl From<IoError> for lsm_tree::Error { fn from(e: IoError) -> lsm_tree::Error { lsm_tree::Error::Io(e) } }

pub open spec fn vt_byte(v: ValueType) -> u8 {
    match v { ValueType::Value => 0, ValueType::Tombstone => 1, ValueType::WeakTombstone => 2, ValueType::Indirection => 3 }
}
// lsm-tree 3.1.10 src/value_type.rs: `impl From<ValueType> for u8` / `impl TryFrom<u8> for ValueType { type Error = () }`
impl vstd::std_specs::convert::FromSpecImpl<ValueType> for u8 {
    open spec fn obeys_from_spec() -> bool { true }
    open spec fn from_spec(v: ValueType) -> u8 { vt_byte(v) }
}
impl From<ValueType> for u8 {
    #[verifier::external_body]
    fn from(v: ValueType) -> u8 { unimplemented!() }
}
impl vstd::std_specs::convert::TryFromSpecImpl<u8> for ValueType {
    open spec fn obeys_try_from_spec() -> bool { true }
    open spec fn try_from_spec(b: u8) -> Result<ValueType, ()> {
        match b { 0u8 => Ok(ValueType::Value), 1u8 => Ok(ValueType::Tombstone), 2u8 => Ok(ValueType::WeakTombstone), 3u8 => Ok(ValueType::Indirection), _ => Err(()) }
    }
}
impl TryFrom<u8> for ValueType {
    type Error = ();
    #[verifier::external_body]
    fn try_from(b: u8) -> Result<ValueType, ()> { unimplemented!() }
}

pub open spec fn comp_bytes(c: CompressionType) -> Seq<u8> {
    match c { CompressionType::None => seq![0u8], CompressionType::Lz4 => seq![1u8] }
}

// ---- panics: every reachable panic is an obligation (rule R-DBG) ----
#[verifier::external_body]
pub fn shim_panic() requires false { unimplemented!() }
#[verifier::external_body]
pub fn shim_unreached<A>() -> A requires false { unimplemented!() }

// ---- byte strings (byteview::Slice = UserKey = UserValue) ----
pub struct Slice { pub v: Vec<u8> }
impl Slice {
    pub open spec fn view(&self) -> Seq<u8> { self.v@ }
    #[verifier::external_body]
    pub fn len(&self) -> (r: usize) ensures r == self@.len() { unimplemented!() }
    #[verifier::external_body]
    pub fn is_empty(&self) -> (r: bool) ensures r == (self@.len() == 0) { unimplemented!() }
}
impl Clone for Slice {
    #[verifier::external_body]
    fn clone(&self) -> (r: Slice) ensures r@ == self@ { unimplemented!() }
}
impl std::ops::Deref for Slice {
    type Target = [u8];
    #[verifier::external_body]
    fn deref(&self) -> (r: &[u8]) ensures r@ == self@ { unimplemented!() }
}
// byteview: `Slice == Slice` compares the bytes
impl vstd::std_specs::cmp::PartialEqSpecImpl for Slice {
    open spec fn obeys_eq_spec() -> bool { true }
    open spec fn eq_spec(&self, other: &Slice) -> bool { self@ == other@ }
}
impl PartialEq for Slice { #[verifier::external_body] fn eq(&self, other: &Slice) -> (r: bool) { unimplemented!() } }
pub type UserKey = Slice;
pub type UserValue = Slice;

// Cow<[u8]> as used by serialize_marker_item
pub enum Cow<'a> { Borrowed(&'a [u8]), Owned(Vec<u8>) }
impl<'a> Cow<'a> {
    pub open spec fn view(&self) -> Seq<u8> { match self { Cow::Borrowed(b) => b@, Cow::Owned(v) => v@ } }
    #[verifier::external_body]
    pub fn len(&self) -> (r: usize) ensures r == self.view().len() { unimplemented!() }
}
impl<'a> std::ops::Deref for Cow<'a> {
    type Target = [u8];
    #[verifier::external_body]
    fn deref(&self) -> (r: &[u8]) ensures r@ == self.view() { unimplemented!() }
}

// ---- lz4_flex: inverse pair axiom ----
pub uninterp spec fn lz4_compress_spec(v: Seq<u8>) -> Seq<u8>;
pub mod lz4_flex {
    use super::*;
    #[verifier::external_body]
    pub fn compress(v: &[u8]) -> (r: Vec<u8>) ensures r@ == lz4_compress_spec(v@) { unimplemented!() }
}

// std: `impl<T> From<T> for T` is the identity
pub assume_specification<T>[ <T as core::convert::From<T>>::from ](t: T) -> (r: T) ensures r == t;

// std: `[u8; N] == &[u8]` / `!=` compare element-wise (core::array::equality); vstd ties ne/eq to eq_spec
// but leaves eq_spec of this pair uninterpreted.
pub mod axioms {
    use vstd::prelude::*;
    pub broadcast axiom fn array_slice_eq_spec<const N: usize>(a: [u8; N], b: &[u8])
        ensures #[trigger] vstd::std_specs::cmp::PartialEqSpec::eq_spec(&a, &b) == (a@ == b@);
    pub broadcast axiom fn slice_array_eq_spec<const N: usize>(a: &[u8], b: [u8; N])
        ensures #[trigger] vstd::std_specs::cmp::PartialEqSpec::eq_spec(&a, &b) == (a@ == b@);
}
// lz4 worst-case expansion (LZ4_compressBound / lz4_flex::block::get_maximum_output_size)
pub mod lz4_axioms {
    use vstd::prelude::*;
    use super::*;
    pub broadcast axiom fn lz4_bound(v: Seq<u8>)
        ensures #[trigger] lz4_compress_spec(v).len() <= v.len() + v.len() / 255 + 16;
}
// rule R-SLICE: end of a verified statement range; what follows in the source is not verified text, so nothing
// is claimed about the state after this point (the slice's own postcondition is asserted just before it)
#[verifier::external_body]
pub fn shim_slice_end<A>() -> A ensures false { unimplemented!() }
// std::mem::take: returns the old value, leaves Default::default() behind
pub assume_specification<T: Default>[std::mem::take::<T>](dest: &mut T) -> (r: T)
    ensures r == *old(dest), call_ensures(T::default, (), *final(dest));
