// ===== prelude/policy_types.rs — TRUSTED BASE: lsm_tree::config::*Policy value types, f32 bit view, byte cursor =====
// lsm-tree 3.1.10 src/config/{block_size,compression,filter,hash_ratio,pinning,restart_interval}.rs: every policy is a
// newtype over Vec<T> with a PRIVATE field whose only constructors are `all(x)` (one entry) and `new(v)` (panics unless
// 1 <= v.len() <= 255); `Deref<Target=[T]>` gives `len()` / `iter()`.  Hence `wf()` is a type invariant of every policy
// value that exists; it is stated as a precondition where it is used.
pub struct PolicyVec<T> { pub v: Vec<T> }
impl<T> PolicyVec<T> {
    pub open spec fn view(&self) -> Seq<T> { self.v@ }
    pub open spec fn wf(&self) -> bool { 1 <= self.v@.len() <= 255 }
    #[verifier::external_body]
    pub fn len(&self) -> (r: usize) ensures r == self@.len() { unimplemented!() }
    pub fn iter(&self) -> (r: &Vec<T>) ensures r == &self.v { &self.v }   // `self.iter()` through Deref<Target=[T]>: the entries in order (represented by the vector itself)
    // `assert!(!policy.is_empty()); assert!(policy.len() <= 255)` in lsm-tree: reaching new() with anything else panics
    pub fn new(v: Vec<T>) -> (r: Self) requires 1 <= v@.len() <= 255, ensures r@ == v@ { PolicyVec { v } }
}
pub mod config {
    use super::*;
    pub type BlockSizePolicy = PolicyVec<u32>;
    pub type CompressionPolicy = PolicyVec<CompressionType>;
    pub type FilterPolicy = PolicyVec<FilterPolicyEntry>;
    pub type HashRatioPolicy = PolicyVec<f32>;
    pub type PinningPolicy = PolicyVec<bool>;
    pub type RestartIntervalPolicy = PolicyVec<u8>;
    #[derive(Clone, Copy)]
    pub enum BloomConstructionPolicy { BitsPerKey(f32), FalsePositiveRate(f32) }
    #[derive(Clone, Copy)]
    pub enum FilterPolicyEntry { None, Bloom(BloomConstructionPolicy) }
}
pub use config::*;

// std: `impl From<bool> for u8` (false => 0, true => 1)
pub assume_specification[<u8 as From<bool>>::from](b: bool) -> (r: u8) ensures r == (if b { 1u8 } else { 0u8 });
// f32 <-> bits: byteorder writes `x.to_bits()` and reads `f32::from_bits(..)`; from_bits(to_bits(x)) is x bit for bit
pub uninterp spec fn f32_bits(x: f32) -> u32;
pub uninterp spec fn f32_of_bits(b: u32) -> f32;
pub mod f32_axioms {
    use vstd::prelude::*;
    use super::*;
    pub broadcast axiom fn f32_bits_inverse(x: f32) ensures #[trigger] f32_of_bits(f32_bits(x)) == x;
}
pub trait WriteF32: Write {
    fn write_f32<B: ByteOrder>(&mut self, x: f32) -> (r: Result<(), IoError>)
        ensures r is Ok ==> final(self).sink() == old(self).sink() + enc32::<B>(f32_bits(x)),
                r is Err ==> old(self).sink().is_prefix_of(final(self).sink()),
                final(self).infallible() == old(self).infallible(), old(self).infallible() ==> r is Ok;
}
impl WriteF32 for Vec<u8> {
    #[verifier::external_body]
    fn write_f32<B: ByteOrder>(&mut self, x: f32) -> (r: Result<(), IoError>) { unimplemented!() }
}
pub trait ReadF32: Read {
    fn read_f32<B: ByteOrder>(&mut self) -> (r: Result<f32, IoError>)
        requires 0 <= old(self).rs().pos <= old(self).rs().all.len(),
        ensures read_frame(old(self).rs(), final(self).rs()),
                r is Ok ==> read_ok(old(self).rs(), final(self).rs(), 4) && r->Ok_0 == f32_of_bits(dec32::<B>(old(self).rs().all.subrange(old(self).rs().pos, old(self).rs().pos + 4))),
                r is Err ==> read_err(old(self).rs(), 4, r->Err_0);
}

// rule R-TYPE `&[u8] => ByteCursor`: a `mut bytes: &[u8]` parameter that is only consumed through std::io::Read
// (`impl Read for &[u8]` advances the slice) is represented as a cursor (all bytes, position) over the ORIGINAL slice.
// In-memory reads fail only with UnexpectedEof (may_fail == false).
pub struct ByteCursor { pub all: Ghost<Seq<u8>>, pub pos: Ghost<int> }
impl ByteCursor {
    pub open spec fn at_start(&self) -> bool { self.pos@ == 0 }
}
impl Read for ByteCursor {
    open spec fn rs(&self) -> RS { RS { all: self.all@, pos: self.pos@, may_fail: false, id: 0 } }
    #[verifier::external_body] fn read_exact(&mut self, buf: &mut [u8]) -> (r: Result<(), IoError>) { unimplemented!() }
    #[verifier::external_body] fn read_u8(&mut self) -> (r: Result<u8, IoError>) { unimplemented!() }
    #[verifier::external_body] fn read_u16<B: ByteOrder>(&mut self) -> (r: Result<u16, IoError>) { unimplemented!() }
    #[verifier::external_body] fn read_u32<B: ByteOrder>(&mut self) -> (r: Result<u32, IoError>) { unimplemented!() }
    #[verifier::external_body] fn read_u64<B: ByteOrder>(&mut self) -> (r: Result<u64, IoError>) { unimplemented!() }
}
impl ReadF32 for ByteCursor {
    #[verifier::external_body] fn read_f32<B: ByteOrder>(&mut self) -> (r: Result<f32, IoError>) { unimplemented!() }
}
impl vstd::std_specs::convert::FromSpecImpl<Vec<u8>> for Slice {
    open spec fn obeys_from_spec() -> bool { true }
    open spec fn from_spec(v: Vec<u8>) -> Slice { Slice { v } }
}
impl From<Vec<u8>> for Slice { fn from(v: Vec<u8>) -> Slice { Slice { v } } }
