// ===== prelude/fs.rs — TRUSTED BASE: three-tier file model (user buffer | OS page cache | device) =====
// File.os     : bytes handed to the OS through this handle, in order (survive a process crash)
// File.synced : the prefix of `os` known to be on the device (survives power loss); sync_* sets synced := os
// BufWriter.buffered : bytes accepted by the BufWriter but not yet handed to the OS (lost by a process crash)
// A failed write/flush may have moved any prefix of the pending bytes one tier down; it never reorders or drops
// bytes that were already in a lower tier (append-only handles: fjall never seeks a journal writer).
pub struct PathBuf { pub id: Ghost<int> }
pub struct File { pub os: Ghost<Seq<u8>>, pub synced: Ghost<Seq<u8>> }
impl File {
    #[verifier::external_body]
    pub fn sync_all(&mut self) -> (r: Result<(), IoError>)
        ensures final(self).os@ == old(self).os@,
                r is Ok ==> final(self).synced@ == old(self).os@,
                r is Err ==> final(self).synced@ == old(self).synced@,
    { unimplemented!() }
    #[verifier::external_body]
    pub fn sync_data(&mut self) -> (r: Result<(), IoError>)
        ensures final(self).os@ == old(self).os@,
                r is Ok ==> final(self).synced@ == old(self).os@,
                r is Err ==> final(self).synced@ == old(self).synced@,
    { unimplemented!() }
}
pub struct BufWriter<W> { pub inner: W, pub buffered: Ghost<Seq<u8>> }
impl BufWriter<File> {
    pub open spec fn logical(&self) -> Seq<u8> { self.inner.os@ + self.buffered@ }
    #[verifier::external_body]
    pub fn flush(&mut self) -> (r: Result<(), IoError>)
        ensures
            final(self).inner.synced@ == old(self).inner.synced@,
            final(self).logical() == old(self).logical(),
            old(self).inner.os@.is_prefix_of(final(self).inner.os@),
            r is Ok ==> final(self).buffered@ == Seq::<u8>::empty(),
    { unimplemented!() }
    pub fn get_mut(&mut self) -> (r: &mut File)
        ensures *r == old(self).inner, final(self).inner == *final(r), final(self).buffered == old(self).buffered,
    { &mut self.inner }
    // std: `impl<W: Write + Seek> Seek for BufWriter<W>`: "Seeking always writes out the internal buffer before seeking";
    // stream_position() is seek(SeekFrom::Current(0))
    #[verifier::external_body]
    pub fn stream_position(&mut self) -> (r: Result<u64, IoError>)
        ensures
            final(self).inner.synced@ == old(self).inner.synced@,
            final(self).logical() == old(self).logical(),
            old(self).inner.os@.is_prefix_of(final(self).inner.os@),
            r is Ok ==> final(self).buffered@ == Seq::<u8>::empty() && r->Ok_0 == final(self).logical().len(),
    { unimplemented!() }
}
impl File {
    // File::stream_position: the position of the descriptor; nothing is written
    #[verifier::external_body]
    pub fn stream_position(&mut self) -> (r: Result<u64, IoError>) ensures *final(self) == *old(self) { unimplemented!() }
}
pub open spec fn file_write_frame(o: BufWriter<File>, n: BufWriter<File>) -> bool {
    n.inner.synced@ == o.inner.synced@ && o.inner.os@.is_prefix_of(n.inner.os@)
}
impl Write for BufWriter<File> {
    open spec fn sink(&self) -> Seq<u8> { self.logical() }
    open spec fn infallible(&self) -> bool { false }
    #[verifier::external_body]
    fn write_all(&mut self, buf: &[u8]) -> (r: Result<(), IoError>)
        ensures file_write_frame(*old(self), *final(self)),
                r is Err ==> final(self).logical().is_prefix_of(old(self).logical() + buf@),
    { unimplemented!() }
    #[verifier::external_body]
    fn write(&mut self, buf: &[u8]) -> (r: Result<usize, IoError>) ensures file_write_frame(*old(self), *final(self)) { unimplemented!() }
    #[verifier::external_body]
    fn write_u8(&mut self, x: u8) -> (r: Result<(), IoError>) ensures file_write_frame(*old(self), *final(self)) { unimplemented!() }
    #[verifier::external_body]
    fn write_u16<B: ByteOrder>(&mut self, x: u16) -> (r: Result<(), IoError>) ensures file_write_frame(*old(self), *final(self)) { unimplemented!() }
    #[verifier::external_body]
    fn write_u32<B: ByteOrder>(&mut self, x: u32) -> (r: Result<(), IoError>) ensures file_write_frame(*old(self), *final(self)) { unimplemented!() }
    #[verifier::external_body]
    fn write_u64<B: ByteOrder>(&mut self, x: u64) -> (r: Result<(), IoError>) ensures file_write_frame(*old(self), *final(self)) { unimplemented!() }
}

