//@path std::borrow::Cow => Cow
//@path crate::Result => FjResult
//@path std::io::Result => IoResult
//@path std::io::ErrorKind => IoErrorKind
//@path std::io::Error => IoError
//@path lz4_flex::decompress_into => lz4_flex_d::decompress_into
//@path crate::journal::writer::Writer => Writer
//@path lsm_tree::MemtableId => MemtableId
