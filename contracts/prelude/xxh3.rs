// ===== prelude/xxh3.rs — TRUSTED BASE =====
// ---- xxhash_rust::xxh3::Xxh3: streaming hash = hash of the concatenation; xxh3 itself is uninterpreted ----
pub uninterp spec fn xxh3(b: Seq<u8>) -> u64;
pub mod xxhash_rust { pub mod xxh3 {
    use super::super::*;
    pub struct Xxh3 { pub acc: Ghost<Seq<u8>> }
    impl Xxh3 {
        #[verifier::external_body]
        pub fn default() -> (r: Self) ensures r.acc@ == Seq::<u8>::empty() { unimplemented!() }
        #[verifier::external_body]
        pub fn new() -> (r: Self) ensures r.acc@ == Seq::<u8>::empty() { unimplemented!() }
        #[verifier::external_body]
        pub fn update(&mut self, b: &[u8]) ensures final(self).acc@ == old(self).acc@ + b@ { unimplemented!() }
        #[verifier::external_body]
        pub fn finish(&self) -> (r: u64) ensures r == xxh3(self.acc@) { unimplemented!() }
    }
} }
