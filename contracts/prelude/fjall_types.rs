// ===== prelude/fjall_types.rs — TRUSTED BASE: crate::Error and friends (src/error.rs, src/journal/error.rs) =====
// Declarations of data types only (no behaviour); the From conversions are the ones in src/error.rs.
#[derive(Clone, Copy, PartialEq, Eq)]
pub enum JournalRecoveryError { InsufficientLength, TooManyItems, ChecksumMismatch, InvalidFileName }
pub enum Error {
    Storage(lsm_tree::Error),
    Io(IoError),
    JournalRecovery(JournalRecoveryError),
    InvalidVersion(Option<FormatVersionShim>),
    Decompress(CompressionType),
    InvalidTrailer,
    InvalidTag((&'static str, u8)),
    Poisoned,
    KeyspaceDeleted,
    Locked,
    Unrecoverable,
}
// `crate::Result<T>` of src/error.rs; renamed by rule R-PATH because a crate-root alias named `Result`
// would shadow std's `Result` in the single-file unit.
pub type FjResult<T> = Result<T, Error>;
#[derive(Clone, Copy, PartialEq, Eq)]
pub enum FormatVersionShim { V1, V2, V3 }
// derive(PartialEq) on a field-less enum compares the variant
impl vstd::std_specs::cmp::PartialEqSpecImpl for FormatVersionShim {
    open spec fn obeys_eq_spec() -> bool { true }
    open spec fn eq_spec(&self, other: &FormatVersionShim) -> bool { *self == *other }
}
impl vstd::std_specs::convert::FromSpecImpl<IoError> for Error {
    open spec fn obeys_from_spec() -> bool { true }
    open spec fn from_spec(e: IoError) -> Error { Error::Io(e) }
}
impl From<IoError> for Error { fn from(e: IoError) -> Error { Error::Io(e) } }
impl vstd::std_specs::convert::FromSpecImpl<lsm_tree::Error> for Error {
    open spec fn obeys_from_spec() -> bool { true }
    open spec fn from_spec(e: lsm_tree::Error) -> Error { Error::Storage(e) }
}
impl From<lsm_tree::Error> for Error { fn from(e: lsm_tree::Error) -> Error { Error::Storage(e) } }
