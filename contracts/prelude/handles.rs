// ===== prelude/handles.rs — TRUSTED BASE: structural shims of fjall's handle types (fields only) =====
// Keyspace = Arc<KeyspaceInner> with Deref, Supervisor = Arc<SupervisorInner> with Deref, Database = Arc<DatabaseInner>:
// field access through Deref is modelled as direct field access. Only the fields the units read are declared.
pub struct KsConfig { pub manual_journal_persist: bool, pub max_memtable_size: u64 }
pub struct SnapshotTracker { pub dummy: u8 }
pub struct Supervisor {
    pub journal: Journal, pub seqno: SequenceNumberCounter, pub snapshot_tracker: SnapshotTracker,
    pub write_buffer_size: WriteBufferManager, pub keyspaces: KeyspacesLock,
}
pub struct Database { pub supervisor: Supervisor, pub is_poisoned: PoisonSignal }
impl Clone for Keyspace {
    // Arc clone: same handle
    #[verifier::external_body]
    fn clone(&self) -> (r: Keyspace) ensures r == *self { unimplemented!() }
}
pub struct Keyspace {
    pub id: InternalKeyspaceId, pub tree: AnyTree, pub supervisor: Supervisor,
    pub is_poisoned: PoisonSignal, pub is_deleted: AtomicBool, pub config: KsConfig,
}
/// the handle is consistent with the world: same tree identity, the DATABASE's poison flag (C13: one flag per
/// instance, established by Keyspace::from_database / create_new in U-META), its persist mode is the tree's
/// the supervisor's `seqno` is the seqno counter (not the visible-seqno counter that the tracker owns)
pub open spec fn sup_wf(s: &Supervisor) -> bool { !s.seqno.is_visible@ }
pub open spec fn ks_wf(k: &Keyspace, w: World) -> bool {
    &&& sup_wf(&k.supervisor)
    &&& w.trees.dom().contains(k.id) && k.tree.id@ == k.id
    &&& k.is_poisoned.id@ == w.db_poison
    &&& w.deleted.dom().contains(k.is_deleted.id@) && k.is_deleted.id@ == k.id as int   // convention: flag identity = keyspace id
    &&& w.trees[k.id].manual_persist == k.config.manual_journal_persist
}
impl Keyspace {
    // write stall / rotation request: no modelled state; must not be called inside the journal critical section
    #[verifier::external_body]
    pub fn maintenance(&self, memtable_size: u64, Tracked(w): Tracked<&mut World>)
        requires !old(w).journal.locked, // [C14:no-stall-under-journal-lock]
        ensures *final(w) == *old(w),
    { unimplemented!() }
}
/// the byte string a generic `K: Into<UserKey>` argument converts to (whatever conversion the caller's type defines)
pub open spec fn into_slice<K: Into<Slice>>(key: K, k2: Slice) -> bool { call_ensures(<K as Into<Slice>>::into, (key,), k2) }
/// structural well-formedness of the tracker handle (which counter / which atomics it holds) is established by
/// SnapshotTracker::new and is visible only in U-TRACKER, where the real struct is extracted
pub open spec fn tracker_wf_publish(t: &SnapshotTracker) -> bool { true }
pub trait AbstractTree {}   // lsm_tree::AbstractTree is imported by name in some bodies (`use crate::AbstractTree;`); methods are on the AnyTree shim
