// ===== prelude/handles.rs — TRUSTED BASE: structural shims of fjall's handle types (fields only) =====
// Keyspace = Arc<KeyspaceInner> with Deref, Supervisor = Arc<SupervisorInner> with Deref, Database = Arc<DatabaseInner>:
// field access through Deref is modelled as direct field access. Only the fields the units read are declared.
pub struct KsConfig { pub manual_journal_persist: bool, pub max_memtable_size: u64, pub compaction_strategy: CompactionStrategyHandle }
pub struct SnapshotTracker { pub dummy: u8 }
pub struct Supervisor {
    pub journal: Journal, pub seqno: SequenceNumberCounter, pub snapshot_tracker: SnapshotTracker,
    pub write_buffer_size: WriteBufferManager, pub keyspaces: KeyspacesLock,
    pub flush_manager: FlushManager, pub journal_manager: JmLock,
}
// ---- flush queue / worker channel: no modelled state (liveness only)
pub struct FlushManager { pub dummy: u8 }
pub struct FlushTask { pub keyspace: Keyspace }
pub struct Arc<T> { pub t: T }
impl<T> Arc<T> { pub fn new(t: T) -> (r: Arc<T>) ensures r.t == t { Arc { t } } }
impl FlushManager {
    #[verifier::external_body] pub fn enqueue(&self, t: Arc<FlushTask>) { unimplemented!() }
}
pub enum WorkerMessage { Flush, Compact(Keyspace), RotateMemtable(Keyspace, u64), Close }
pub struct SendResult { pub dummy: u8 }
impl SendResult { #[verifier::external_body] pub fn ok(self) -> (r: Option<()>) { unimplemented!() } }
pub struct WorkerSender { pub dummy: u8 }
impl WorkerSender {
    #[verifier::external_body] pub fn send(&self, m: WorkerMessage) -> (r: SendResult) { unimplemented!() }
    #[verifier::external_body] pub fn try_send(&self, m: WorkerMessage) -> (r: SendResult) { unimplemented!() }
}
// ---- RwLock<JournalManager>: the lock invariant is JournalManager::wf (its queue IS w.sealed, proved in U-JMGR);
// the guard exposes the manager's operations with their world-level contracts (abstraction of fn/jmgr_*.c)
pub struct JmLock { pub dummy: u8 }
pub struct JmLockResult { pub dummy: u8 }
pub struct JmWriteGuard { pub dummy: u8 }
impl JmLock { #[verifier::external_body] pub fn write(&self) -> (r: JmLockResult) { unimplemented!() } }
// RwLock::read on the journal MANAGER lock: a shared guard on the queue of sealed journals; it does not touch the
// journal (writer) mutex, so the ghost world -- in particular w.journal.locked -- is unchanged
pub struct JmReadLockResult { pub dummy: u8 }
pub struct JmReadGuard { pub dummy: u8 }
impl JmLock { #[verifier::external_body] pub fn read(&self) -> (r: JmReadLockResult) { unimplemented!() } }
impl JmReadLockResult { #[verifier::external_body] pub fn expect(self, msg: &str) -> (r: JmReadGuard) { unimplemented!() } }
impl JmLockResult { #[verifier::external_body] pub fn expect(self, msg: &str) -> (r: JmWriteGuard) { unimplemented!() } }
impl JmWriteGuard {
    #[verifier::external_body]
    pub fn maintenance(&mut self, Tracked(w): Tracked<&mut World>) -> (r: Result<(), Error>)
        ensures exists|k: int| 0 <= k <= old(w).sealed.len() && #[trigger] old(w).sealed.skip(k) == final(w).sealed
                    && final(w).removed == old(w).removed + Seq::new(k as nat, |i: int| old(w).sealed[i].path),
                *final(w) == (World { sealed: final(w).sealed, removed: final(w).removed, reclaim_due: false, ..*old(w) }),
    { unimplemented!() }
}
pub struct DbConfig { pub manual_journal_persist: bool }
pub struct Database { pub supervisor: Supervisor, pub is_poisoned: PoisonSignal, pub config: DbConfig }
impl Clone for Database { #[verifier::external_body] fn clone(&self) -> (r: Database) ensures r == *self { unimplemented!() } }   // Arc clone: same instance
impl Clone for Keyspace {
    // Arc clone: same handle
    #[verifier::external_body]
    fn clone(&self) -> (r: Keyspace) ensures r == *self { unimplemented!() }
}
pub struct Keyspace {
    pub id: InternalKeyspaceId, pub tree: AnyTree, pub supervisor: Supervisor,
    pub is_poisoned: PoisonSignal, pub is_deleted: AtomicBool, pub config: KsConfig,
    pub worker_messager: WorkerSender,
}
impl Keyspace {
    // Keyspace::path: the folder of this keyspace's own tree
    #[verifier::external_body] pub fn path(&self) -> (r: &PathBuf) ensures r.id@ == folder_of(self.tree.id@) { unimplemented!() }
}
/// the handle is consistent with the world: same tree identity, the DATABASE's poison flag (C13: one flag per
/// instance, established by Keyspace::from_database / create_new in U-META), its persist mode is the tree's
/// the supervisor's `seqno` is the seqno counter (not the visible-seqno counter that the tracker owns)
pub open spec fn sup_wf(s: &Supervisor) -> bool { !s.seqno.is_visible@ }
pub open spec fn ks_wf(k: &Keyspace, w: World) -> bool {
    &&& sup_wf(&k.supervisor)
    &&& w.trees.dom().contains(k.id) && k.tree.id@ == k.id
    &&& k.is_poisoned.id@ == w.db_poison
    &&& w.deleted.dom().contains(k.is_deleted.id@) && k.is_deleted.id@ == k.id as int   // convention: flag identity = keyspace id
    &&& w.trees[k.id].manual_persist == k.config.manual_journal_persist
}
impl Keyspace {
    // write stall / rotation request: no modelled state; must not be called inside the journal critical section
    #[verifier::external_body]
    pub fn maintenance(&self, memtable_size: u64, Tracked(w): Tracked<&mut World>)
        requires !old(w).journal.locked, // [C14:no-stall-under-journal-lock]
        ensures *final(w) == *old(w),
    { unimplemented!() }
}
/// the byte string a generic `K: Into<UserKey>` argument converts to (whatever conversion the caller's type defines)
pub open spec fn into_slice<K: Into<Slice>>(key: K, k2: Slice) -> bool { call_ensures(<K as Into<Slice>>::into, (key,), k2) }
/// structural well-formedness of the tracker handle (which counter / which atomics it holds) is established by
/// SnapshotTracker::new and is visible only in U-TRACKER, where the real struct is extracted
pub open spec fn tracker_wf_publish(t: &SnapshotTracker) -> bool { true }
pub trait AbstractTree {}   // lsm_tree::AbstractTree is imported by name in some bodies (`use crate::AbstractTree;`); methods are on the AnyTree shim
