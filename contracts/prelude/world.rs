// ===== prelude/world.rs — TRUSTED BASE for the protocol units: ghost world + shim API with protocol rules =====
// Functions that act through `&self` on shared state cannot have two-state contracts unless the state is an
// explicit parameter: rule R-WORLD threads `Tracked(w): Tracked<&mut World>` through the extracted text.
// Every PRECONDITION below is a protocol rule derived from a property statement (DESIGN.md 3.3), not from the
// code; code that disagrees fails the obligation at the call site. Every body is external (assumed).
//
// Abstraction link (assumed, stated in DESIGN.md): JournalG is the abstraction of the journal writer state of
// U-WRITER: recs = the batches framed in the file, len/os_len/synced_len = |logical|, |os|, |synced|.

pub struct RecG { pub seqno: u64, pub ops: Seq<OpV>, pub end: nat, pub batch: bool }
pub struct JournalG {
    pub locked: bool,          // the journal mutex is held by the thread under analysis
    pub failed: bool,          // an append / flush / sync of the journal has returned an error
    pub mutex_poisoned: bool,  // a thread panicked while holding the journal mutex: nobody can take it any more
    pub recs: Seq<RecG>,       // complete batches appended so far, in file order
    pub len: nat, pub os_len: nat, pub synced_len: nat,   // three-tier lengths (user buffer / OS / device)
    pub path: int,             // identity of the ACTIVE journal file (the one the writer appends to)
}
#[derive(PartialEq, Eq)]
pub enum ApplyKind { Insert, Remove, RemoveWeak, Clear }
pub struct ApplyG { pub kind: ApplyKind, pub key: Seq<u8>, pub value: Seq<u8>, pub seqno: u64 }
pub struct TreeG {
    pub applied: Seq<ApplyG>, pub manual_persist: bool,
    pub persisted: Option<u64>,     // highest seqno in the tree's tables (lsm-tree get_highest_persisted_seqno)
    pub mem_max: Option<u64>,       // highest seqno in active + sealed memtables (get_highest_memtable_seqno)
    pub active_max: Option<u64>,    // highest seqno in the ACTIVE memtable only
}
/// one eviction watermark of a sealed journal: keyspace id and the highest seqno of that keyspace in the journal
pub struct WmG { pub ks: u64, pub lsn: u64 }
pub struct SealedG { pub path: int, pub wms: Seq<WmG> }
pub struct TrackerG {
    pub data: Map<u64, usize>,      // the DashMap instant -> open count
    pub freed: u64,                 // lowest_freed_instant = the GC watermark handed to lsm-tree
    pub freed_count: u64,
    pub live: Map<u64, nat>,        // GHOST TRUTH: number of live SnapshotNonce values per instant (total map)
    pub rlock: bool, pub wlock: bool,   // gc_lock held (shared / exclusive) by the thread under analysis
}
pub open spec fn tcount(t: TrackerG, i: u64) -> nat { if t.data.dom().contains(i) { t.data[i] as nat } else { 0 } }
/// P-REG (C05): the table counts exactly the live views, and the watermark is below every live instant > 0
/// (a view at instant 0 sees the empty database under any watermark) and below the visible seqno
pub open spec fn tracker_inv(w: World) -> bool {
    &&& (forall|i: u64| #![trigger tcount(w.tracker, i)] #![trigger w.tracker.live[i]] tcount(w.tracker, i) == w.tracker.live[i])
    &&& (forall|i: u64| #![trigger w.tracker.live[i]] i > 0 && w.tracker.live[i] > 0 ==> w.tracker.freed < i)
    &&& (w.visible > 0 ==> w.tracker.freed < w.visible) && (w.visible == 0 ==> w.tracker.freed == 0)
    &&& (forall|i: u64| #![trigger w.tracker.live[i]] w.tracker.live[i] > 0 ==> i <= w.visible)
    &&& (forall|i: u64| #[trigger] w.tracker.data.dom().contains(i) ==> w.tracker.data[i] < usize::MAX && i <= w.visible)
    &&& !w.tracker.rlock && !w.tracker.wlock
}
pub struct World {
    pub journal: JournalG,
    pub seqno: u64,                 // next sequence number to hand out
    pub visible: u64,               // visible seqno (what new snapshots read at)
    pub inflight: Option<u64>,      // seqno drawn in the current critical section and not yet published
    pub pending: Seq<OpV>,          // ops journaled in the current critical section and not yet applied, in order
    pub poison: Map<int, bool>,     // poison flags by identity
    pub deleted: Map<int, bool>,    // keyspace deleted flags by identity
    pub trees: Map<u64, TreeG>,     // by keyspace id
    pub db_poison: int,             // identity of the database's poison flag
    pub sealed: Seq<SealedG>,       // sealed journal files still on disk, OLDEST FIRST, with their recorded watermarks
    pub removed: Seq<int>,          // journal files unlinked so far (path identities), in order
    pub tracker: TrackerG,          // snapshot tracker (its counter is `visible`)
    pub recovering: bool,           // inside Database::recover/create_new: no other thread has a handle yet
    pub db_manual_persist: bool,    // Config::manual_journal_persist of the database (governs batches and transactions)
    pub reclaim_due: bool,          // a flush has completed since the last reclaim pass over the sealed journals (JournalManager::maintenance)
    pub poison_checked: bool,       // the database's poison flag was read (and was clear) inside the current critical section
}

/// what an applied memtable operation must be for a journaled operation (C01: applied op == journaled op)
pub open spec fn apply_matches(a: ApplyG, ks: u64, op: OpV) -> bool {
    match op {
        OpV::Item { keyspace_id, key, value, value_type } =>
            keyspace_id == ks && key == a.key && (match value_type {
                ValueType::Value => a.kind == ApplyKind::Insert && a.value == value,
                ValueType::Tombstone => a.kind == ApplyKind::Remove,
                // a weak tombstone may be applied as a plain tombstone (same view): recorded in DESIGN.md C01
                ValueType::WeakTombstone => a.kind == ApplyKind::RemoveWeak || a.kind == ApplyKind::Remove,
                ValueType::Indirection => false,
            }),
        OpV::Clear { keyspace_id } => keyspace_id == ks && a.kind == ApplyKind::Clear,
    }
}

/// global invariant at the boundary of every public operation (nothing of this thread in flight unless poisoned)
pub open spec fn inv(w: World) -> bool {
    &&& w.poison.dom().contains(w.db_poison)
    &&& (w.journal.failed ==> w.poison[w.db_poison])             // C13
    &&& (w.inflight is Some ==> w.poison[w.db_poison])           // a burned seqno only after a failure
    &&& (w.pending.len() > 0 ==> w.poison[w.db_poison])
    &&& w.visible <= w.seqno                                      // C06
    &&& w.journal.os_len <= w.journal.len && w.journal.synced_len <= w.journal.os_len
    &&& (forall|i: int| 0 <= i < w.journal.recs.len() ==> (#[trigger] w.journal.recs[i]).seqno < w.seqno && w.journal.recs[i].end <= w.journal.len)
}
/// nothing observable changed (refused operation)
pub open spec fn untouched(o: World, n: World) -> bool {
    n.trees == o.trees && n.journal.recs == o.journal.recs && n.journal.len == o.journal.len && n.visible == o.visible
        && n.journal.os_len == o.journal.os_len && n.journal.synced_len == o.journal.synced_len
}

// ---------------------------------------------------------------- poison / atomics
pub struct PoisonSignal { pub id: Ghost<int> }
impl PoisonSignal {
    #[verifier::external_body]
    pub fn is_poisoned(&self, Tracked(w): Tracked<&mut World>) -> (b: bool)
        requires old(w).poison.dom().contains(self.id@),
        ensures b == old(w).poison[self.id@],
            *final(w) == (World { poison_checked: old(w).poison_checked || (old(w).journal.locked && self.id@ == old(w).db_poison && !b), ..*old(w) }),
    { unimplemented!() }
    #[verifier::external_body]
    pub fn poison(&self, Tracked(w): Tracked<&mut World>)
        requires old(w).poison.dom().contains(self.id@),
        ensures *final(w) == (World { poison: old(w).poison.insert(self.id@, true), ..*old(w) }),
    { unimplemented!() }
}
impl Clone for PoisonSignal {
    // Arc clone: same flag
    #[verifier::external_body]
    fn clone(&self) -> (r: PoisonSignal) ensures r.id == self.id { unimplemented!() }
}
pub struct AtomicBool { pub id: Ghost<int> }
pub mod atomic_shim { pub use std::sync::atomic::Ordering; }
impl AtomicBool {
    #[verifier::external_body]
    pub fn load(&self, o: atomic_shim::Ordering, Tracked(w): Tracked<&mut World>) -> (b: bool)
        requires old(w).deleted.dom().contains(self.id@),
        ensures *final(w) == *old(w), b == old(w).deleted[self.id@],
    { unimplemented!() }
    #[verifier::external_body]
    pub fn store(&self, v: bool, o: atomic_shim::Ordering, Tracked(w): Tracked<&mut World>)
        requires old(w).deleted.dom().contains(self.id@),
        ensures *final(w) == (World { deleted: old(w).deleted.insert(self.id@, v), ..*old(w) }),
    { unimplemented!() }
}

// ---------------------------------------------------------------- seqno counter (lsm_tree::SequenceNumberCounter)
pub struct SequenceNumberCounter { pub is_visible: Ghost<bool> }   // the seqno counter, or the visible-seqno counter held by the tracker
impl SequenceNumberCounter {
    // P-LOCK: a data write draws its seqno inside the journal critical section, one per critical section
    #[verifier::external_body]
    pub fn next(&self, Tracked(w): Tracked<&mut World>) -> (r: u64)
        requires !self.is_visible@,
                 old(w).journal.locked, // [C06:P-LOCK-seqno] [C01:P-LOCK-seqno] [C02:P-LOCK-seqno] [C04:P-LOCK-seqno-ingestion-relies-on-it]
                 old(w).inflight is None, // [C06:one-seqno-per-batch] [C03:one-seqno-per-batch]
                 old(w).seqno < u64::MAX,
        ensures r == old(w).seqno,
           *final(w) == (World { seqno: (old(w).seqno + 1) as u64, inflight: Some(r), ..*old(w) }),
    { unimplemented!() }
    #[verifier::external_body]
    pub fn get(&self, Tracked(w): Tracked<&mut World>) -> (r: u64)
        ensures *final(w) == *old(w), r == (if self.is_visible@ { old(w).visible } else { old(w).seqno }),
    { unimplemented!() }
    // P-VIS (C06): the visible seqno advances only inside the journal critical section (or during recovery, when no
    // other thread has a handle), and only to publish the one seqno in flight
    #[verifier::external_body]
    pub fn fetch_max(&self, v: u64, Tracked(w): Tracked<&mut World>) -> (r: u64)
        requires self.is_visible@ ==> (old(w).journal.locked || old(w).recovering), // [C06:P-VIS-advance-under-lock]
                 self.is_visible@ && v > old(w).visible ==> old(w).pending.len() == 0 && (old(w).inflight is None || old(w).inflight == Some((v - 1) as u64)), // [C06:P-VIS-nothing-half-applied]
                 !self.is_visible@ ==> old(w).recovering,
        ensures r == (if self.is_visible@ { old(w).visible } else { old(w).seqno }),
            self.is_visible@ ==> *final(w) == (World { visible: if v > old(w).visible { v } else { old(w).visible },
                inflight: if v > 0 && old(w).inflight == Some((v - 1) as u64) { None } else { old(w).inflight }, ..*old(w) }),
            !self.is_visible@ ==> *final(w) == (World { seqno: if v > old(w).seqno { v } else { old(w).seqno }, ..*old(w) }),
    { unimplemented!() }
}

// ---------------------------------------------------------------- journal (world-level contracts of U-WRITER functions)
pub struct Writer { pub path: PathBuf }   // path: the file the writer appends to (ghost identity: w.journal.path, stated by rotate)
#[derive(Clone, Copy, PartialEq, Eq)]
pub enum PersistMode { Buffer, SyncData, SyncAll }
pub open spec fn journal_appended(o: World, n: World) -> bool {
    // only the journal changed, and only by appending
    n.seqno == o.seqno && n.visible == o.visible && n.inflight == o.inflight && n.poison == o.poison && n.deleted == o.deleted
    && n.trees == o.trees && n.db_poison == o.db_poison && n.journal.locked == o.journal.locked && n.poison_checked == o.poison_checked && n.db_manual_persist == o.db_manual_persist && n.tracker == o.tracker && n.recovering == o.recovering && n.sealed == o.sealed && n.removed == o.removed
    && n.journal.len >= o.journal.len && n.journal.os_len >= o.journal.os_len && n.journal.os_len <= n.journal.len
    && n.journal.synced_len == o.journal.synced_len
}
impl Writer {
    #[verifier::external_body]
    pub fn write_raw(&mut self, keyspace_id: u64, key: &[u8], value: &[u8], value_type: lsm_tree::ValueType, seqno: u64, Tracked(w): Tracked<&mut World>) -> (r: Result<usize, Error>)
        requires old(w).journal.locked, // [C02:P-LOCK-journal]
                 old(w).poison_checked, // [C13:P-POISON-checked-under-lock]
                 old(w).inflight == Some(seqno), // [C06:record-carries-drawn-seqno] [C11:record-carries-drawn-seqno]
                 old(w).pending.len() == 0,
                 within_limits(key@, value@), // [C15:within-limits]
        ensures journal_appended(*old(w), *final(w)),
            r is Ok ==> final(w).journal.recs == old(w).journal.recs.push(RecG { seqno, ops: seq![OpV::Item { keyspace_id, key: key@, value: value@, value_type }], end: final(w).journal.len, batch: false })
                && final(w).journal.len > old(w).journal.len && final(w).journal.failed == old(w).journal.failed
                && final(w).pending == seq![OpV::Item { keyspace_id, key: key@, value: value@, value_type }],
            r is Err ==> final(w).journal.failed && final(w).journal.recs == old(w).journal.recs && final(w).pending == old(w).pending,
    { unimplemented!() }
    #[verifier::external_body]
    pub fn write_clear(&mut self, keyspace_id: u64, seqno: u64, Tracked(w): Tracked<&mut World>) -> (r: Result<usize, Error>)
        requires old(w).journal.locked, // [C02:P-LOCK-journal]
                 old(w).poison_checked, // [C13:P-POISON-checked-under-lock]
                 old(w).inflight == Some(seqno), // [C06:record-carries-drawn-seqno]
                 old(w).pending.len() == 0,
        ensures journal_appended(*old(w), *final(w)),
            r is Ok ==> final(w).journal.recs == old(w).journal.recs.push(RecG { seqno, ops: seq![OpV::Clear { keyspace_id }], end: final(w).journal.len, batch: false })
                && final(w).journal.len > old(w).journal.len && final(w).journal.failed == old(w).journal.failed
                && final(w).pending == seq![OpV::Clear { keyspace_id }],
            r is Err ==> final(w).journal.failed && final(w).journal.recs == old(w).journal.recs && final(w).pending == old(w).pending,
    { unimplemented!() }
    #[verifier::external_body]
    pub fn write_batch(&mut self, items: &[BatchItem], batch_size: usize, seqno: u64, Tracked(w): Tracked<&mut World>) -> (r: Result<usize, Error>)
        requires old(w).journal.locked, // [C02:P-LOCK-journal]
                 old(w).poison_checked, // [C13:P-POISON-checked-under-lock]
                 old(w).inflight == Some(seqno), // [C06:record-carries-drawn-seqno]
                 old(w).pending.len() == 0,
                 batch_size == items@.len(), // [C03:count-equals-items]
                 items@.len() <= 0xffff_ffff, items_within_limits(items@),
        ensures journal_appended(*old(w), *final(w)),
            r is Ok && batch_size > 0 ==> final(w).journal.recs == old(w).journal.recs.push(RecG { seqno, ops: ops_of(items@), end: final(w).journal.len, batch: true })
                && final(w).journal.len > old(w).journal.len && final(w).journal.failed == old(w).journal.failed
                && final(w).pending == ops_of(items@),
            r is Ok && batch_size == 0 ==> final(w).journal == old(w).journal && final(w).pending == old(w).pending,
            r is Err ==> final(w).journal.failed && final(w).journal.recs == old(w).journal.recs && final(w).pending == old(w).pending,
    { unimplemented!() }
    #[verifier::external_body]
    pub fn persist(&mut self, mode: PersistMode, Tracked(w): Tracked<&mut World>) -> (r: Result<(), IoError>)
        requires old(w).journal.locked, // [C09:P-LOCK-persist] [C02:P-LOCK-journal]
        ensures
            final(w).seqno == old(w).seqno && final(w).visible == old(w).visible && final(w).inflight == old(w).inflight && final(w).poison == old(w).poison
                && final(w).deleted == old(w).deleted && final(w).trees == old(w).trees && final(w).db_poison == old(w).db_poison && final(w).pending == old(w).pending && final(w).poison_checked == old(w).poison_checked && final(w).db_manual_persist == old(w).db_manual_persist && final(w).tracker == old(w).tracker && final(w).recovering == old(w).recovering && final(w).sealed == old(w).sealed && final(w).removed == old(w).removed,
            final(w).journal.locked, final(w).journal.recs == old(w).journal.recs, final(w).journal.len == old(w).journal.len,
            final(w).journal.os_len >= old(w).journal.os_len && final(w).journal.os_len <= final(w).journal.len,
            final(w).journal.synced_len >= old(w).journal.synced_len && final(w).journal.synced_len <= final(w).journal.os_len,
            r is Ok ==> final(w).journal.os_len == old(w).journal.len && final(w).journal.failed == old(w).journal.failed,
            r is Ok && mode != PersistMode::Buffer ==> final(w).journal.synced_len == old(w).journal.len,
            r is Err ==> final(w).journal.failed,
    { unimplemented!() }
}
impl Writer {
    #[verifier::external_body]
    pub fn len(&self, Tracked(w): Tracked<&mut World>) -> (r: Result<u64, Error>)
        ensures *final(w) == *old(w),
    { unimplemented!() }
    // world-level contract of Writer::rotate (U-WRITER): old journal persisted with SyncAll, then the next file is
    // created and the directory synced; the sealed file keeps every record
    #[verifier::external_body]
    pub fn rotate(&mut self, Tracked(w): Tracked<&mut World>) -> (r: Result<(PathBuf, PathBuf), Error>)
        requires old(w).journal.locked, // [C10:rotate-under-journal-lock] [C09:rotate-under-journal-lock]
        ensures
            final(w).journal.locked, final(w).journal.recs == old(w).journal.recs, final(w).journal.len == old(w).journal.len,
            final(w).journal.os_len >= old(w).journal.os_len && final(w).journal.os_len <= final(w).journal.len,
            final(w).journal.synced_len >= old(w).journal.synced_len && final(w).journal.synced_len <= final(w).journal.os_len,
            r is Ok ==> final(w).journal.synced_len == old(w).journal.len && final(w).journal.failed == old(w).journal.failed, // [C09:rotate-syncs-old-journal]
            r is Err ==> final(w).journal.failed || final(w).journal == old(w).journal,
            // Ok((sealed file, new active file)): the writer now appends to a file that did not exist before
            // (File::create_new; journal ids only grow)
            r matches Ok(pp) ==> pp.0.id@ == old(w).journal.path && pp.1.id@ == final(w).journal.path && final(w).journal.path != old(w).journal.path,
            r is Ok ==> final(self).path.id@ == final(w).journal.path,
            // (an Err after the switch -- directory fsync failed -- leaves the writer on the new file)
            final(w).journal.path == old(w).journal.path || (forall|i: int| 0 <= i < old(w).sealed.len() ==> (#[trigger] old(w).sealed[i]).path != final(w).journal.path),
            *final(w) == (World { journal: final(w).journal, ..*old(w) }),
    { unimplemented!() }
}
pub struct MutexGuard<'a, T> { pub w: &'a mut T }
impl<'a, T> std::ops::Deref for MutexGuard<'a, T> { type Target = T; fn deref(&self) -> &T { self.w } }
impl<'a, T> std::ops::DerefMut for MutexGuard<'a, T> {
    fn deref_mut(&mut self) -> (r: &mut T) ensures *r == *old(self).w, *final(self).w == *final(r) { self.w }
}
pub struct PoisonError { pub dummy: u8 }
pub struct Mutex<T> { pub t: Ghost<int>, pub ph: core::marker::PhantomData<T> }
impl Mutex<Writer> {
    // std::sync::Mutex::lock on THE journal mutex (Journal.writer): blocks until free; Err = poisoned by a panic
    #[verifier::external_body]
    pub fn lock(&self, Tracked(w): Tracked<&mut World>) -> (r: Result<MutexGuard<'_, Writer>, PoisonError>)
        requires !old(w).journal.locked,   // no self-deadlock
        ensures r is Ok ==> *final(w) == (World { journal: JournalG { locked: true, ..old(w).journal }, poison_checked: false, ..*old(w) }),
                r is Err ==> *final(w) == *old(w) && old(w).journal.mutex_poisoned,
    { unimplemented!() }
}
/// rule R-DROP / R-SCOPE: `drop(x)` of a guard is visible as an event
pub trait ShimDrop { spec fn drop_pre(&self, w: World) -> bool; spec fn drop_post(&self, o: World, n: World) -> bool; }
impl<'a> ShimDrop for MutexGuard<'a, Writer> {
    // P-VIS / P-PUBLISH: the journal critical section ends only after everything journaled in it was applied and
    // published (a failed operation may leave with a burned seqno, but then the instance must already be poisoned)
    open spec fn drop_pre(&self, w: World) -> bool {
        w.journal.locked && ((w.inflight is None && w.pending.len() == 0) || (w.poison.dom().contains(w.db_poison) && w.poison[w.db_poison]))
    }
    open spec fn drop_post(&self, o: World, n: World) -> bool { n == (World { journal: JournalG { locked: false, ..o.journal }, ..o }) }
}
impl<'a> ShimDrop for Result<MutexGuard<'a, Writer>, Error> {
    open spec fn drop_pre(&self, w: World) -> bool { self is Ok ==> (*self)->Ok_0.drop_pre(w) }
    open spec fn drop_post(&self, o: World, n: World) -> bool { if self is Ok { (*self)->Ok_0.drop_post(o, n) } else { n == o } }
}
#[verifier::external_body]
pub fn drop<T: ShimDrop>(t: T, Tracked(w): Tracked<&mut World>)
    requires t.drop_pre(*old(w)), // [C06:unlock-after-publish] [C02:unlock-after-apply] [C13:early-exit-only-when-poisoned] [C05:no-view-sees-a-half-applied-batch]
    ensures t.drop_post(*old(w), *final(w)),
{ unimplemented!() }

// ---------------------------------------------------------------- lsm-tree (AnyTree): MVCC memtable writes
pub struct AnyTree { pub id: Ghost<u64> }
pub open spec fn tree_write_pre(w: World, ks: u64, seqno: u64) -> bool {
    &&& w.trees.dom().contains(ks)
    &&& w.journal.locked                       // P-LOCK
    &&& w.inflight == Some(seqno)              // P-FRESH: the seqno drawn in this critical section
    &&& !w.journal.failed                      // nothing is applied after a journal failure (C13)
    &&& w.pending.len() > 0                    // P-WAL: the operation was journaled first ...
    &&& w.journal.recs.len() > 0 && w.journal.recs.last().seqno == seqno
    // ... and handed to the OS, unless the user opted out: keyspace-level manual persist for single operations,
    // database-level manual persist for batches and transactions
    &&& (w.journal.recs.last().end <= w.journal.os_len
         || (if w.journal.recs.last().batch { w.db_manual_persist } else { w.trees[ks].manual_persist }))
}
pub open spec fn tree_write_post(o: World, n: World, ks: u64, a: ApplyG) -> bool {
    n == (World { trees: o.trees.insert(ks, TreeG { applied: o.trees[ks].applied.push(a), ..o.trees[ks] }), pending: o.pending.skip(1), ..o })
}
impl AnyTree {
    #[verifier::external_body]
    pub fn insert(&self, key: UserKey, value: UserValue, seqno: u64, Tracked(w): Tracked<&mut World>) -> (r: (u64, u64))
        requires tree_write_pre(*old(w), self.id@, seqno), // [C02:P-WAL] [C01:P-FRESH] [C06:P-LOCK-apply] [C13:no-apply-after-failure]
                 apply_matches(ApplyG { kind: ApplyKind::Insert, key: key@, value: value@, seqno }, self.id@, old(w).pending[0]), // [C01:applied-op-is-journaled-op] [C12:own-tree-only]
        ensures tree_write_post(*old(w), *final(w), self.id@, ApplyG { kind: ApplyKind::Insert, key: key@, value: value@, seqno }),
                r.0 <= 0x1_0001_0040,   // item size: key + value + constant overhead
    { unimplemented!() }
    #[verifier::external_body]
    pub fn remove(&self, key: UserKey, seqno: u64, Tracked(w): Tracked<&mut World>) -> (r: (u64, u64))
        requires tree_write_pre(*old(w), self.id@, seqno), // [C02:P-WAL] [C01:P-FRESH] [C06:P-LOCK-apply] [C13:no-apply-after-failure]
                 apply_matches(ApplyG { kind: ApplyKind::Remove, key: key@, value: Seq::empty(), seqno }, self.id@, old(w).pending[0]), // [C01:applied-op-is-journaled-op] [C12:own-tree-only]
        ensures tree_write_post(*old(w), *final(w), self.id@, ApplyG { kind: ApplyKind::Remove, key: key@, value: Seq::empty(), seqno }),
                r.0 <= 0x1_0001_0040,
    { unimplemented!() }
    #[verifier::external_body]
    pub fn remove_weak(&self, key: UserKey, seqno: u64, Tracked(w): Tracked<&mut World>) -> (r: (u64, u64))
        requires tree_write_pre(*old(w), self.id@, seqno), // [C02:P-WAL] [C01:P-FRESH] [C06:P-LOCK-apply] [C13:no-apply-after-failure]
                 apply_matches(ApplyG { kind: ApplyKind::RemoveWeak, key: key@, value: Seq::empty(), seqno }, self.id@, old(w).pending[0]), // [C01:applied-op-is-journaled-op] [C12:own-tree-only]
        ensures tree_write_post(*old(w), *final(w), self.id@, ApplyG { kind: ApplyKind::RemoveWeak, key: key@, value: Seq::empty(), seqno }),
                r.0 <= 0x1_0001_0040,
    { unimplemented!() }
    // AbstractTree::clear: drops every layer of this tree; lsm-tree draws no seqno of its own here in fjall's model
    #[verifier::external_body]
    pub fn clear(&self, Tracked(w): Tracked<&mut World>) -> (r: Result<(), lsm_tree::Error>)
        requires old(w).inflight is Some && tree_write_pre(*old(w), self.id@, old(w).inflight->Some_0), // [C02:P-WAL] [C06:P-LOCK-apply] [C13:no-apply-after-failure]
                 apply_matches(ApplyG { kind: ApplyKind::Clear, key: Seq::empty(), value: Seq::empty(), seqno: old(w).inflight->Some_0 }, self.id@, old(w).pending[0]), // [C04:clear-journaled] [C12:own-tree-only]
        ensures r is Ok ==> tree_write_post(*old(w), *final(w), self.id@, ApplyG { kind: ApplyKind::Clear, key: Seq::empty(), value: Seq::empty(), seqno: old(w).inflight->Some_0 }),
                r is Err ==> *final(w) == *old(w),
    { unimplemented!() }
}

// ---------------------------------------------------------------- misc handles without modelled state
pub struct WriteBufferManager { pub dummy: u8 }
impl WriteBufferManager {
    #[verifier::external_body]
    pub fn allocate(&self, n: u64) -> (r: u64) { unimplemented!() }
}

// ---------------------------------------------------------------- std collections / locks used by the write paths (no modelled state)
pub struct HashSet<T> { pub g: Ghost<Seq<T>> }
impl<T> HashSet<T> {
    #[verifier::external_body]
    pub fn new() -> (r: HashSet<T>) { unimplemented!() }
    #[verifier::external_body]
    pub fn insert(&mut self, t: T) -> (r: bool) { unimplemented!() }
}
pub struct KsReadGuard { pub vals: Vec<Keyspace> }
impl KsReadGuard {
    // HashMap::values through the read guard: each registered keyspace handle once, order unspecified
    pub fn values(&self) -> (r: &Vec<Keyspace>) ensures r == &self.vals { &self.vals }
}
impl ShimDrop for KsReadGuard { open spec fn drop_pre(&self, w: World) -> bool { true } open spec fn drop_post(&self, o: World, n: World) -> bool { n == o } }
pub struct KsLockResult { pub dummy: u8 }
impl KsLockResult {
    // a poisoned RwLock panics here in the real code (another thread panicked while holding it): not modelled
    #[verifier::external_body]
    pub fn expect(self, msg: &str) -> (r: KsReadGuard) { unimplemented!() }
}
pub struct KeyspacesLock { pub dummy: u8 }
impl KeyspacesLock {
    #[verifier::external_body]
    pub fn read(&self) -> (r: KsLockResult) { unimplemented!() }
}

// ---------------------------------------------------------------- snapshot tracker internals (dashmap, RwLock<()>, AtomicU64)
// DashMap<SeqNo, usize>: state in w.tracker.data. The hof_* methods are the targets of rules R-HOF / R-RETAIN
// (entry/and_modify/or_insert, alter and retain unfolded by their documented definitions).
// Lock discipline (C05): the table is mutated only with the gc lock held (shared for single entries, exclusive for retain).
pub struct DashMap<K, V, S> { pub ph: core::marker::PhantomData<(K, V, S)> }
impl<S> DashMap<u64, usize, S> {
    #[verifier::external_body]
    pub fn hof_get(&self, k: u64, Tracked(w): Tracked<&mut World>) -> (r: Option<usize>)
        requires old(w).tracker.rlock || old(w).tracker.wlock, // [C05:table-under-gc-lock]
        ensures *final(w) == *old(w), r == (if old(w).tracker.data.dom().contains(k) { Some(old(w).tracker.data[k]) } else { None::<usize> }),
    { unimplemented!() }
    #[verifier::external_body]
    pub fn hof_set(&self, k: u64, v: usize, Tracked(w): Tracked<&mut World>)
        requires old(w).tracker.rlock || old(w).tracker.wlock, // [C05:table-under-gc-lock]
                 old(w).tracker.data.dom().contains(k),
        ensures *final(w) == (World { tracker: TrackerG { data: old(w).tracker.data.insert(k, v), ..old(w).tracker }, ..*old(w) }),
    { unimplemented!() }
    #[verifier::external_body]
    pub fn hof_insert(&self, k: u64, v: usize, Tracked(w): Tracked<&mut World>)
        requires old(w).tracker.rlock || old(w).tracker.wlock, // [C05:table-under-gc-lock]
                 !old(w).tracker.data.dom().contains(k),
        ensures *final(w) == (World { tracker: TrackerG { data: old(w).tracker.data.insert(k, v), ..old(w).tracker }, ..*old(w) }),
    { unimplemented!() }
    // R-RETAIN: the keys, each exactly once, in an unspecified order
    #[verifier::external_body]
    pub fn hof_keys(&self, Tracked(w): Tracked<&mut World>) -> (ks: Vec<u64>)
        requires old(w).tracker.wlock, // [C05:retain-under-exclusive-gc-lock]
        ensures *final(w) == *old(w), ks@.no_duplicates(), forall|k: u64| ks@.contains(k) <==> old(w).tracker.data.dom().contains(k),
    { unimplemented!() }
    #[verifier::external_body]
    pub fn hof_get_present(&self, k: u64, Tracked(w): Tracked<&mut World>) -> (v: usize)
        requires old(w).tracker.wlock, old(w).tracker.data.dom().contains(k),
        ensures *final(w) == *old(w), v == old(w).tracker.data[k],
    { unimplemented!() }
    #[verifier::external_body]
    pub fn hof_retain_set(&self, k: u64, v: usize, keep: bool, Tracked(w): Tracked<&mut World>)
        requires old(w).tracker.wlock, old(w).tracker.data.dom().contains(k),
        ensures *final(w) == (World { tracker: TrackerG { data: if keep { old(w).tracker.data.insert(k, v) } else { old(w).tracker.data.remove(k) }, ..old(w).tracker }, ..*old(w) }),
    { unimplemented!() }
    #[verifier::external_body]
    pub fn is_empty(&self, Tracked(w): Tracked<&mut World>) -> (r: bool)
        ensures *final(w) == *old(w), r == (old(w).tracker.data.dom() =~= Set::<u64>::empty()),
    { unimplemented!() }
}
pub struct RwLock<T> { pub ph: core::marker::PhantomData<T> }
pub struct GcReadGuard { pub dummy: u8 }
pub struct GcWriteGuard { pub dummy: u8 }
pub struct LockResult<G> { pub g: G }
impl<G> LockResult<G> {
    // a poisoned lock panics here in the real code (another thread panicked while holding it): not modelled
    pub fn expect(self, msg: &str) -> (r: G) ensures r == self.g { self.g }
}
/// INTERFERENCE at gc-lock acquisition (rely condition): while this thread waited for the lock, other threads may
/// have published writes and run gc()/pullup(): the visible seqno and the watermark may have advanced, but only
/// within the tracker's safety invariant (below the visible seqno and below every registered live view).
/// A thread that reads the visible seqno BEFORE taking the lock and registers a view AFTER it therefore cannot
/// prove that its instant is above the watermark -- which is exactly the race the lock exists to exclude.
pub open spec fn gc_lock_interference(o: World, n: World) -> bool {
    &&& n == (World { visible: n.visible, tracker: TrackerG { freed: n.tracker.freed, ..o.tracker }, ..o })
    &&& n.visible >= o.visible && n.tracker.freed >= o.tracker.freed
    &&& (o.journal.locked ==> n.visible == o.visible)       // P-VIS: nobody else publishes while we hold the journal lock
    &&& (n.visible > 0 ==> n.tracker.freed < n.visible) && (n.visible == 0 ==> n.tracker.freed == 0)
    &&& (forall|i: u64| #![trigger n.tracker.live[i]] i > 0 && n.tracker.live[i] > 0 ==> n.tracker.freed < i)
}
impl RwLock<()> {
    #[verifier::external_body]
    pub fn read(&self, Tracked(w): Tracked<&mut World>) -> (r: LockResult<GcReadGuard>)
        requires !old(w).tracker.rlock && !old(w).tracker.wlock,
        ensures exists|m: World| #[trigger] gc_lock_interference(*old(w), m) && *final(w) == (World { tracker: TrackerG { rlock: true, ..m.tracker }, ..m }),
    { unimplemented!() }
    #[verifier::external_body]
    pub fn write(&self, Tracked(w): Tracked<&mut World>) -> (r: LockResult<GcWriteGuard>)
        requires !old(w).tracker.rlock && !old(w).tracker.wlock,
        ensures exists|m: World| #[trigger] gc_lock_interference(*old(w), m) && *final(w) == (World { tracker: TrackerG { wlock: true, ..m.tracker }, ..m }),
    { unimplemented!() }
}
#[derive(Clone, Copy, PartialEq, Eq)]
pub enum AtomicRole { FreedCount, LowestFreed }
pub struct AtomicU64 { pub role: Ghost<AtomicRole> }
impl AtomicU64 {
    #[verifier::external_body]
    pub fn load(&self, o: atomic_shim::Ordering, Tracked(w): Tracked<&mut World>) -> (r: u64)
        ensures *final(w) == *old(w), r == (if self.role@ == AtomicRole::LowestFreed { old(w).tracker.freed } else { old(w).tracker.freed_count }),
    { unimplemented!() }
    // the GC watermark must never move while a shared holder of the gc lock could be registering a view
    #[verifier::external_body]
    pub fn store(&self, v: u64, o: atomic_shim::Ordering, Tracked(w): Tracked<&mut World>)
        requires self.role@ == AtomicRole::LowestFreed ==> old(w).tracker.wlock && v >= old(w).tracker.freed, // [C05:watermark-under-exclusive-lock-and-monotone]
        ensures self.role@ == AtomicRole::LowestFreed ==> *final(w) == (World { tracker: TrackerG { freed: v, ..old(w).tracker }, ..*old(w) }),
                self.role@ == AtomicRole::FreedCount ==> *final(w) == (World { tracker: TrackerG { freed_count: v, ..old(w).tracker }, ..*old(w) }),
    { unimplemented!() }
    #[verifier::external_body]
    pub fn fetch_max(&self, v: u64, o: atomic_shim::Ordering, Tracked(w): Tracked<&mut World>) -> (r: u64)
        requires self.role@ == AtomicRole::LowestFreed ==> old(w).tracker.wlock, // [C05:watermark-under-exclusive-lock-and-monotone]
        ensures self.role@ == AtomicRole::LowestFreed ==> r == old(w).tracker.freed && *final(w) == (World { tracker: TrackerG { freed: if v > old(w).tracker.freed { v } else { old(w).tracker.freed }, ..old(w).tracker }, ..*old(w) }),
                self.role@ == AtomicRole::FreedCount ==> r == old(w).tracker.freed_count && *final(w) == (World { tracker: TrackerG { freed_count: if v > old(w).tracker.freed_count { v } else { old(w).tracker.freed_count }, ..old(w).tracker }, ..*old(w) }),
    { unimplemented!() }
    // wrapping add (std): returns the previous value
    #[verifier::external_body]
    pub fn fetch_add(&self, v: u64, o: atomic_shim::Ordering, Tracked(w): Tracked<&mut World>) -> (r: u64)
        requires self.role@ == AtomicRole::FreedCount,
        ensures r == old(w).tracker.freed_count, r < u64::MAX,   // ASSUMED: fewer than 2^64 snapshot closes
            *final(w) == (World { tracker: TrackerG { freed_count: (old(w).tracker.freed_count + v) as u64, ..old(w).tracker }, ..*old(w) }),
    { unimplemented!() }
}
impl ShimDrop for GcReadGuard {
    open spec fn drop_pre(&self, w: World) -> bool { w.tracker.rlock }
    open spec fn drop_post(&self, o: World, n: World) -> bool { n == (World { tracker: TrackerG { rlock: false, ..o.tracker }, ..o }) }
}
impl ShimDrop for GcWriteGuard {
    open spec fn drop_pre(&self, w: World) -> bool { w.tracker.wlock }
    open spec fn drop_post(&self, o: World, n: World) -> bool { n == (World { tracker: TrackerG { wlock: false, ..o.tracker }, ..o }) }
}
// ghost-only update of the registration truth `tracker.live` (no executable state is touched)
#[verifier::external_body]
pub proof fn ghost_set_live(tracked w: &mut World, l: Map<u64, nat>)
    ensures *final(w) == (World { tracker: TrackerG { live: l, ..old(w).tracker }, ..*old(w) }),
{ unimplemented!() }

// ---------------------------------------------------------------- journal eviction (C10): P-EVICT, oldest first
/// P-EVICT: a watermark is satisfied when its keyspace was deleted or its tables cover the watermark
pub open spec fn wm_ok(wm: WmG, w: World) -> bool {
    (w.deleted.dom().contains(wm.ks as int) && w.deleted[wm.ks as int])
    || (w.trees.dom().contains(wm.ks) && w.trees[wm.ks].persisted is Some && w.trees[wm.ks].persisted->Some_0 >= wm.lsn)
}
pub open spec fn evictable(s: SealedG, w: World) -> bool { forall|j: int| 0 <= j < s.wms.len() ==> wm_ok(#[trigger] s.wms[j], w) }
pub struct PathBuf { pub id: Ghost<int> }
impl Clone for PathBuf {
    #[verifier::external_body]
    fn clone(&self) -> (r: PathBuf) ensures r.id == self.id { unimplemented!() }
}
/// std::fs::remove_file on a sealed journal file
#[verifier::external_body]
pub fn fs_remove_file(p: &PathBuf, Tracked(w): Tracked<&mut World>) -> (r: Result<(), IoError>)
    requires old(w).sealed.len() > 0 && old(w).sealed[0].path == p.id@, // [C10:oldest-first]
             p.id@ != old(w).journal.path, // [C10:never-unlink-the-active-journal] [C02:never-unlink-the-active-journal] [C04:never-unlink-the-active-journal]
             evictable(old(w).sealed[0], *old(w)), // [C10:P-EVICT] [C02:P-EVICT]
    ensures r is Ok ==> *final(w) == (World { sealed: old(w).sealed.skip(1), removed: old(w).removed.push(p.id@), ..*old(w) }),
            r is Err ==> *final(w) == *old(w),
{ unimplemented!() }
#[verifier::external_body]
pub proof fn ghost_push_sealed(tracked w: &mut World, s: SealedG)
    ensures *final(w) == (World { sealed: old(w).sealed.push(s), ..*old(w) }),
{ unimplemented!() }
impl AnyTree {
    // lsm-tree AbstractTree accessors (reads of monotone state: a concurrent flush can only raise `persisted`)
    #[verifier::external_body]
    pub fn get_highest_persisted_seqno(&self, Tracked(w): Tracked<&mut World>) -> (r: Option<u64>)
        requires old(w).trees.dom().contains(self.id@),
        ensures *final(w) == *old(w), r == old(w).trees[self.id@].persisted,
    { unimplemented!() }
    #[verifier::external_body]
    pub fn get_highest_memtable_seqno(&self, Tracked(w): Tracked<&mut World>) -> (r: Option<u64>)
        requires old(w).trees.dom().contains(self.id@),
        ensures *final(w) == *old(w), r == old(w).trees[self.id@].mem_max,
    { unimplemented!() }
    #[verifier::external_body]
    pub fn active_memtable(&self) -> (r: Memtable) ensures r.tree == self.id { unimplemented!() }
}
pub struct Memtable { pub tree: Ghost<u64> }
impl Memtable {
    #[verifier::external_body]
    pub fn get_highest_seqno(&self, Tracked(w): Tracked<&mut World>) -> (r: Option<u64>)
        requires old(w).trees.dom().contains(self.tree@),
        ensures *final(w) == *old(w), r == old(w).trees[self.tree@].active_max,
    { unimplemented!() }
    #[verifier::external_body]
    pub fn size(&self) -> (r: u64) { unimplemented!() }
    #[verifier::external_body]
    pub fn id(&self) -> (r: u64) { unimplemented!() }
}

// ---------------------------------------------------------------- lsm-tree maintenance (flush / compaction / rotation / version GC)
// Copied from lsm-tree 3.1.10 (src/version/super_version.rs:120-143 `upgrade_version`): every version change draws a
// seqno from the SHARED seqno counter and does visible.fetch_max(seqno + 1) on the SHARED visible counter, because
// fjall hands its own counters to every tree. Hence P-VIS applies to every call below that changes a version.
pub open spec fn version_change_pre(w: World) -> bool {
    // P-VIS (C06): nothing may advance the visible seqno while a batch is half applied; the only way fjall has to
    // exclude that is the journal lock
    // (after a journal failure a seqno may be burned; nothing was applied at it, the instance is poisoned)
    w.journal.locked && ((w.inflight is None && w.pending.len() == 0) || (w.poison.dom().contains(w.db_poison) && w.poison[w.db_poison]))
}
pub open spec fn version_change_post(o: World, n: World, ks: u64) -> bool {
    &&& n == (World { seqno: n.seqno, visible: n.visible, trees: n.trees, ..o })
    &&& n.seqno >= o.seqno && n.visible >= o.visible && n.visible <= n.seqno
    &&& n.trees.dom() == o.trees.dom()
    &&& (forall|k: u64| k != ks && o.trees.dom().contains(k) ==> #[trigger] n.trees[k] == o.trees[k])
    &&& n.trees[ks].applied == o.trees[ks].applied && n.trees[ks].manual_persist == o.trees[ks].manual_persist
}
pub struct FlushLock { pub dummy: u8 }
pub struct CompactionStrategyHandle { pub dummy: u8 }
impl Clone for CompactionStrategyHandle {
    #[verifier::external_body]
    fn clone(&self) -> (r: CompactionStrategyHandle) { unimplemented!() }
}
pub struct VersionHistoryLock { pub tree: Ghost<u64> }
impl AnyTree {
    #[verifier::external_body]
    pub fn get_flush_lock(&self) -> (r: FlushLock) { unimplemented!() }
    #[verifier::external_body]
    pub fn flush(&self, lock: &FlushLock, gc_watermark: u64, Tracked(w): Tracked<&mut World>) -> (r: Result<Option<u64>, lsm_tree::Error>)
        requires old(w).trees.dom().contains(self.id@),
                 gc_watermark <= old(w).tracker.freed, // [C05:P-GC] [C01:P-GC]
                 version_change_pre(*old(w)), // [C06:P-VIS-version-change]
        ensures version_change_post(*old(w), *final(w), self.id@),
    { unimplemented!() }
    #[verifier::external_body]
    pub fn compact(&self, strategy: CompactionStrategyHandle, gc_watermark: u64, Tracked(w): Tracked<&mut World>) -> (r: Result<(), lsm_tree::Error>)
        requires old(w).trees.dom().contains(self.id@),
                 gc_watermark <= old(w).tracker.freed, // [C05:P-GC] [C01:P-GC] [C18:P-GC]
                 version_change_pre(*old(w)), // [C06:P-VIS-version-change]
        ensures version_change_post(*old(w), *final(w), self.id@),
    { unimplemented!() }
    #[verifier::external_body]
    pub fn major_compact(&self, target_size: u64, gc_watermark: u64, Tracked(w): Tracked<&mut World>) -> (r: Result<(), lsm_tree::Error>)
        requires old(w).trees.dom().contains(self.id@),
                 gc_watermark <= old(w).tracker.freed, // [C05:P-GC] [C01:P-GC] [C18:P-GC]
                 version_change_pre(*old(w)), // [C06:P-VIS-version-change]
        ensures version_change_post(*old(w), *final(w), self.id@),
    { unimplemented!() }
    // memtable rotation: only inside the journal critical section (so that no write is between journal and memtable)
    #[verifier::external_body]
    pub fn rotate_memtable(&self, Tracked(w): Tracked<&mut World>) -> (r: Option<Memtable>)
        requires old(w).trees.dom().contains(self.id@),
                 version_change_pre(*old(w)), // [C06:P-VIS-version-change] [C01:rotation-under-journal-lock] [C02:rotation-under-journal-lock]
        ensures version_change_post(*old(w), *final(w), self.id@),
    { unimplemented!() }
    #[verifier::external_body]
    pub fn get_version_history_lock(&self) -> (r: VersionHistoryLock) ensures r.tree == self.id { unimplemented!() }
    #[verifier::external_body]
    pub fn sealed_memtable_count(&self) -> (r: usize) { unimplemented!() }
    #[verifier::external_body]
    pub fn table_count(&self) -> (r: usize) { unimplemented!() }   // lsm-tree AbstractTree::table_count: a read
    #[verifier::external_body]
    pub fn l0_run_count(&self) -> (r: usize) { unimplemented!() }
}
/// identity of the folder a tree lives in
pub open spec fn folder_of(tree: u64) -> int { tree as int }
impl VersionHistoryLock {
    // drops super-versions that no snapshot above the watermark can need
    #[verifier::external_body]
    pub fn maintenance(&self, path: &PathBuf, gc_watermark: u64, Tracked(w): Tracked<&mut World>) -> (r: Result<(), lsm_tree::Error>)
        requires gc_watermark <= old(w).tracker.freed, // [C05:P-GC] [C01:P-GC]
            // the version files that are unlinked are looked up in `path`: it must be the folder of the tree whose history this is
            path.id@ == folder_of(self.tree@), // [C12:version-gc-of-a-tree-runs-in-that-trees-own-folder] [C01:version-gc-of-a-tree-runs-in-that-trees-own-folder] [C04:version-gc-of-a-tree-runs-in-that-trees-own-folder] [C18:version-gc-of-a-tree-runs-in-that-trees-own-folder]
        ensures *final(w) == *old(w),
    { unimplemented!() }
}

// ---------------------------------------------------------------- bulk ingestion (lsm-tree AnyIngestion)
// finish(): flushes the active memtable and registers the ingested tables at a fresh seqno WITHOUT any journal
// record. C01/C04/C14: it must run inside the journal critical section (or when the journal mutex is poisoned, in
// which case no writer can exist), otherwise a concurrent write with a lower seqno lands above the ingested table.
pub struct AnyIngestion { pub tree: Ghost<u64> }
impl AnyIngestion {
    #[verifier::external_body]
    pub fn finish(self, Tracked(w): Tracked<&mut World>) -> (r: Result<(), lsm_tree::Error>)
        requires old(w).trees.dom().contains(self.tree@),
                 (old(w).journal.locked && old(w).inflight is None && old(w).pending.len() == 0) || old(w).journal.mutex_poisoned, // [C01:ingest-under-journal-lock] [C04:ingest-under-journal-lock] [C10:ingest-under-journal-lock] [C02:ingest-under-journal-lock] [C06:P-VIS-version-change]
        ensures version_change_post(*old(w), *final(w), self.tree@),
    { unimplemented!() }
}
