// U-TRACKER — snapshot tracker (src/snapshot_tracker.rs, src/snapshot_nonce.rs): P-REG, GC watermark safety
#![allow(unused_imports, unused_variables, dead_code, unused_mut, unused_parens, unreachable_code, unused_assignments)]
use vstd::prelude::*;
verus! {
//@include prelude/core.rs
//@include prelude/fjall_types.rs
//@include spec/ops.rs
pub struct Keyspace { pub id: InternalKeyspaceId }
pub struct Item { pub keyspace: Keyspace, pub key: UserKey, pub value: UserValue, pub value_type: ValueType }
//@include spec/item_ops.rs
pub type BatchItem = Item;
//@include prelude/world.rs
//@include prelude/paths.rs
//@path std::sync::atomic::Ordering => atomic_shim::Ordering
//@guards gc_lock.read() gc_lock.write()
//@world seqno.get seqno.fetch_max data.is_empty lowest_freed_instant.load lowest_freed_instant.store lowest_freed_instant.fetch_max freed_count.fetch_add gc_lock.read gc_lock.write drop SnapshotNonce::new tracker.close tracker.clone_snapshot snapshot_tracker.open inner.snapshot

pub struct Arc<T> { pub t: T }   // std::sync::Arc: shared ownership, Deref to the inner value
impl<T> std::ops::Deref for Arc<T> { type Target = T; fn deref(&self) -> (r: &T) ensures *r == self.t { &self.t } }
pub mod xxhash_rust { pub mod xxh3 { pub struct Xxh3Builder { pub dummy: u8 } } }

//@extract-type src/snapshot_tracker.rs :: SnapshotTrackerInner
//@extract-type src/snapshot_tracker.rs :: SnapshotTracker
//@extract-type src/snapshot_nonce.rs :: SnapshotNonce
impl Clone for SnapshotTracker {
    // #[derive(Clone)] on a newtype around Arc: same tracker
    #[verifier::external_body]
    fn clone(&self) -> (r: SnapshotTracker) ensures r == *self { unimplemented!() }
}
//@extract src/snapshot_tracker.rs :: std::ops::Deref for SnapshotTracker :: deref as_trait props=C05
//@contract
    ensures *r == self.0.t,
//@end
//@include spec/tracker_spec.rs

//@extract src/snapshot_nonce.rs :: SnapshotNonce :: new world props=C05
//@contract-file fn/nonce_new.c
//@proof before Self
        proof { ghost_set_live(w, live_inc(w.tracker.live, seqno)); }
//@end

//@extract src/snapshot_tracker.rs :: SnapshotTracker :: publish world props=C06+C05
//@contract-file fn/tracker_publish.c
//@end

//@extract src/snapshot_tracker.rs :: SnapshotTracker :: get_seqno_safe_to_gc world props=C05+C01
//@contract-file fn/tracker_get_safe.c
//@end

//@extract src/snapshot_tracker.rs :: SnapshotTracker :: get world props=C05
//@contract-file fn/tracker_get.c
//@end

//@extract src/snapshot_tracker.rs :: SnapshotTracker :: open world props=C05+C06
//@contract-file fn/tracker_open.c
//@end

//@extract src/snapshot_tracker.rs :: SnapshotTracker :: clone_snapshot world props=C05
//@contract-file fn/tracker_clone_snapshot.c
//@end

//@extract src/snapshot_tracker.rs :: SnapshotTracker :: gc world props=C05+C01
//@contract-file fn/tracker_gc.c
//@proof after hof_keys
            let ghost data0 = w.tracker.data;
            let ghost w0 = *w;
//@loop 0
                invariant
                    __fjx_i <= __fjx_keys.len(),
                    __fjx_keys@.no_duplicates(),
                    forall|k: u64| __fjx_keys@.contains(k) <==> data0.dom().contains(k),
                    *w == (World { tracker: TrackerG { data: w.tracker.data, ..w0.tracker }, ..w0 }),
                    w0.tracker.wlock, !w0.tracker.rlock, w0.tracker.data == data0, seqno_threshold == w0.visible,
                    forall|k: u64| #[trigger] w.tracker.data.dom().contains(k) ==> data0.dom().contains(k) && w.tracker.data[k] == data0[k],
                    forall|k: u64| #[trigger] data0.dom().contains(k) && !__fjx_keys@.subrange(0, __fjx_i as int).contains(k) ==> w.tracker.data.dom().contains(k),
                    forall|k: u64| #[trigger] data0.dom().contains(k) && data0[k] > 0 && __fjx_keys@.subrange(0, __fjx_i as int).contains(k)
                        ==> w.tracker.data.dom().contains(k) && lowest_retained is Some && lowest_retained->Some_0 <= k,
                    lowest_retained is Some ==> lowest_retained->Some_0 <= w0.visible,
                    forall|k: u64| #[trigger] data0.dom().contains(k) ==> k <= w0.visible && data0[k] < usize::MAX,
                decreases __fjx_keys.len() - __fjx_i,
//@proof after __fjx_keys[__fjx_i]
                assert(__fjx_keys@.contains(k));
                let ghost prev = __fjx_keys@.subrange(0, __fjx_i as int);
                proof {
                    if prev.contains(k) { let j = choose|j: int| 0 <= j < prev.len() && prev[j] == k; assert(__fjx_keys@[j] == k && __fjx_keys@[__fjx_i as int] == k); }
                    assert(!prev.contains(k));
                }
//@proof after __fjx_i += 1
                proof {
                    let cur = __fjx_keys@.subrange(0, __fjx_i as int);
                    assert(cur == prev.push(k));
                    assert forall|x: u64| cur.contains(x) <==> (prev.contains(x) || x == k) by {
                        if prev.contains(x) { let j = choose|j: int| 0 <= j < prev.len() && prev[j] == x; assert(cur[j] == x); }
                        if x == k { assert(cur[cur.len() - 1] == k); }
                        if cur.contains(x) { let j = choose|j: int| 0 <= j < cur.len() && cur[j] == x; if j < prev.len() { assert(prev[j] == x); } }
                    }
                }
//@proof after __fjx_i < __fjx_keys.len()
            proof { assert(__fjx_keys@.subrange(0, __fjx_i as int) == __fjx_keys@); }
//@end

//@extract src/snapshot_tracker.rs :: SnapshotTracker :: pullup world props=C05+C01
//@contract-file fn/tracker_pullup.c
//@end

//@extract src/snapshot_tracker.rs :: SnapshotTracker :: close_raw world props=C05
//@contract-file fn/tracker_close_raw.c
//@proof after drop(lock
        proof {
            assert forall|i: u64| tcount(w.tracker, i) == w.tracker.live[i] by {
                if i != instant { assert(tcount(old(w).tracker, i) == old(w).tracker.live[i]); }
            }
            assert forall|i: u64| #[trigger] w.tracker.data.dom().contains(i) implies w.tracker.data[i] < usize::MAX && i <= w.visible by {
                assert(old(w).tracker.data.dom().contains(i));
            }
            assert(tracker_inv(*w));
        }
//@end

//@extract src/snapshot_tracker.rs :: SnapshotTracker :: close world props=C05
//@contract-file fn/tracker_close.c
//@end

//@extract src/snapshot_nonce.rs :: Clone for SnapshotNonce :: clone world inherent props=C05
//@world Self::new
//@contract-file fn/nonce_clone.c
//@end

//@extract src/snapshot_nonce.rs :: Drop for SnapshotNonce :: drop world inherent props=C05
//@contract-file fn/nonce_drop.c
//@proof before self.tracker.close
        proof {
            ghost_set_live(w, live_dec(w.tracker.live, self.instant));
            assert forall|i: u64| i != self.instant implies (#[trigger] tcount(w.tracker, i)) == w.tracker.live[i] by { assert(tcount(old(w).tracker, i) == old(w).tracker.live[i]); }
        }
//@end

// ---- where views are created (src/db.rs Database::snapshot, read_tx of both transactional databases)
//@extract-type src/snapshot.rs :: Snapshot
pub struct SupervisorV { pub snapshot_tracker: SnapshotTracker }
pub struct Database { pub supervisor: SupervisorV }   // Database derefs to DatabaseInner: only `supervisor.snapshot_tracker` is used here
pub struct OracleH { pub dummy: u8 }
pub struct MutexUnit { pub dummy: u8 }
pub struct TxDatabase { pub inner: Database, pub single_writer_lock: Arc<MutexUnit> }
pub struct OptimisticTxDatabase { pub inner: Database, pub oracle: Arc<OracleH> }
pub open spec fn view_opened(o: World, n: World, t: SnapshotTracker, r: Snapshot) -> bool {
    &&& tracker_inv(n) && only_tracker(o, n)
    &&& r.nonce.instant == n.visible && r.nonce.tracker == t
    &&& n.tracker.live == live_inc(o.tracker.live, r.nonce.instant)
}
//@extract src/snapshot.rs :: Snapshot :: new props=C05
//@contract
    ensures r.nonce == nonce, // [C05:snapshot-owns-its-registration]
//@end
//@extract src/db.rs :: Database :: snapshot world props=C05+C06
//@contract
    requires tracker_wf(&self.supervisor.snapshot_tracker), tracker_inv(*old(w)),
        forall|i: u64| #![trigger old(w).tracker.live[i]] old(w).tracker.live[i] + 1 < usize::MAX,
    ensures view_opened(*old(w), *final(w), self.supervisor.snapshot_tracker, r), // [C05:snapshot-is-a-registered-view-at-the-visible-seqno] [C06:snapshot-is-a-registered-view-at-the-visible-seqno]
//@end
//@extract src/tx/single_writer/mod.rs :: TxDatabase :: read_tx world props=C05
//@contract
    requires tracker_wf(&self.inner.supervisor.snapshot_tracker), tracker_inv(*old(w)),
        forall|i: u64| #![trigger old(w).tracker.live[i]] old(w).tracker.live[i] + 1 < usize::MAX,
    ensures view_opened(*old(w), *final(w), self.inner.supervisor.snapshot_tracker, r), // [C05:read-tx-is-a-registered-view-at-the-visible-seqno]
//@end
//@extract src/tx/optimistic/mod.rs :: OptimisticTxDatabase :: read_tx world props=C05
//@contract
    requires tracker_wf(&self.inner.supervisor.snapshot_tracker), tracker_inv(*old(w)),
        forall|i: u64| #![trigger old(w).tracker.live[i]] old(w).tracker.live[i] + 1 < usize::MAX,
    ensures view_opened(*old(w), *final(w), self.inner.supervisor.snapshot_tracker, r), // [C05:read-tx-is-a-registered-view-at-the-visible-seqno]
//@end

//@canary
} // verus!
fn main() {}
