// U-CREATE — first open of a directory (src/db.rs Database::create_new up to the directory fsync, src/locked_file.rs
// LockedFileGuard::create_new): the lock is taken before anything else is created (C17), the version marker is written last,
// and -- C02: "if the process dies at any instant, reopening the database succeeds" -- creation can be restarted from every
// state an interrupted creation leaves behind.
#![allow(unused_imports, unused_variables, dead_code, unused_mut, unused_parens, unreachable_code, unused_assignments)]
use vstd::prelude::*;
verus! {
//@include prelude/core.rs
//@include prelude/fjall_types.rs
//@include prelude/paths.rs
//@path std::fs::TryLockError => TryLockError
//@path std::fs::create_dir_all => fs_create_dir_all
//@path std::fs::remove_file => fs_remove_file
//@path std::fs::rename => fs_rename
//@path std::fs::File => File
//@broadcast axiom_join_injective, axiom_lock_of_parent, axiom_jnl0_name, axiom_tmp_name
//@world fs_create_dir_all fs_remove_file fs_rename File::create File::create_new *.open file.try_lock LockedFileGuard::create_new Journal::create_new write_file_header marker.sync_all fsync_directory try_exists

// derive(PartialEq) on the field-less enum io::ErrorKind compares the variant
impl vstd::std_specs::cmp::PartialEqSpecImpl for IoErrorKind {
    open spec fn obeys_eq_spec() -> bool { true }
    open spec fn eq_spec(&self, other: &IoErrorKind) -> bool { *self == *other }
}
// ---- ghost world: the regular files of the directory, who holds flocks, and whether the environment injects I/O errors
pub struct World {
    pub files: Map<int, Seq<u8>>,   // existing regular files by path identity -> content
    pub lock_other: Set<int>,       // paths flock'ed through another open file description (another live instance)
    pub lock_mine: Set<int>,        // paths this call holds the exclusive flock on
    pub io_faults: bool,            // false: no system call fails for an environmental reason (disk full, EIO, permissions)
}
pub struct PathBuf { pub id: Ghost<int> }
pub type Path = PathBuf;
pub uninterp spec fn join_id(dir: int, name: int) -> int;       // identity of <dir>/<name>
// ASSUMED: different names in one directory are different paths
#[verifier::external_body]
pub broadcast proof fn axiom_join_injective(d: int, a: int, b: int) ensures #[trigger] join_id(d, a) == #[trigger] join_id(d, b) ==> a == b { }
pub const VERSION_MARKER: u8 = 1;
pub const LOCK_FILE: u8 = 2;
pub const KEYSPACES_FOLDER: u8 = 3;
pub open spec fn jnl0() -> int { 10 }
pub uninterp spec fn str_nid(s: Seq<char>) -> int;
// ASSUMED: the literal "0.jnl" names the first journal file (name identity 10, different from the three constants above)
#[verifier::external_body]
pub broadcast proof fn axiom_jnl0_name() ensures #[trigger] str_nid("0.jnl"@) == jnl0() { }
pub open spec fn marker_tmp() -> int { 11 }
// ASSUMED: the literal "version.tmp" is a fifth name (identity 11)
#[verifier::external_body]
pub broadcast proof fn axiom_tmp_name() ensures #[trigger] str_nid("version.tmp"@) == marker_tmp() { }
pub trait PathName { spec fn nid(&self) -> int; }
impl PathName for u8 { open spec fn nid(&self) -> int { *self as int } }
impl PathName for &str { open spec fn nid(&self) -> int { str_nid(self@) } }
pub trait PathLike { spec fn pid(&self) -> int; }
impl PathLike for PathBuf { open spec fn pid(&self) -> int { self.id@ } }
impl PathLike for &PathBuf { open spec fn pid(&self) -> int { self.id@ } }
impl PathBuf {
    #[verifier::external_body] pub fn join<N: PathName>(&self, name: N) -> (r: PathBuf) ensures r.id@ == join_id(self.id@, name.nid()) { unimplemented!() }
    #[verifier::external_body] pub fn display(&self) -> (r: u8) { unimplemented!() }
    // Path::try_exists
    #[verifier::external_body] pub fn try_exists(&self, Tracked(w): Tracked<&mut World>) -> (r: Result<bool, IoError>)
        ensures *final(w) == *old(w), r is Ok ==> r->Ok_0 == old(w).files.dom().contains(self.id@), !old(w).io_faults ==> r is Ok { unimplemented!() }
}
pub open spec fn marker_of(dir: int) -> int { join_id(dir, VERSION_MARKER as int) }
pub open spec fn lock_of(dir: int) -> int { join_id(dir, LOCK_FILE as int) }
pub open spec fn jnl0_of(dir: int) -> int { join_id(dir, jnl0()) }
pub open spec fn only_files(o: World, n: World) -> bool { n.lock_other == o.lock_other && n.lock_mine == o.lock_mine && n.io_faults == o.io_faults }

// mkdir -p: succeeds on an existing directory; regular files are not touched
#[verifier::external_body]
pub fn fs_create_dir_all(p: &PathBuf, Tracked(w): Tracked<&mut World>) -> (r: Result<(), IoError>)
    ensures *final(w) == *old(w), !old(w).io_faults ==> r is Ok { unimplemented!() }
#[verifier::external_body]
pub fn fs_remove_file(p: &PathBuf, Tracked(w): Tracked<&mut World>) -> (r: Result<(), IoError>)
    requires old(w).lock_mine.contains(lock_of_parent(p.id@)), // [C17:nothing-in-the-directory-is-removed-without-holding-its-lock]
    ensures r is Ok ==> *final(w) == (World { files: old(w).files.remove(p.id@), ..*old(w) }), r is Err ==> *final(w) == *old(w),
            !old(w).io_faults && old(w).files.dom().contains(p.id@) ==> r is Ok { unimplemented!() }
// rename(2): atomic -- afterwards the target names the source's content and the source name is gone; never a partial target
#[verifier::external_body]
pub fn fs_rename<P: PathLike, Q: PathLike>(from: P, to: Q, Tracked(w): Tracked<&mut World>) -> (r: Result<(), IoError>)
    ensures r is Ok ==> old(w).files.dom().contains(from.pid()) && *final(w) == (World { files: old(w).files.remove(from.pid()).insert(to.pid(), old(w).files[from.pid()]), ..*old(w) }),
            r is Err ==> *final(w) == *old(w),
            !old(w).io_faults && old(w).files.dom().contains(from.pid()) ==> r is Ok { unimplemented!() }
// crate::file::fsync_directory
#[verifier::external_body]
pub fn fsync_directory(p: &PathBuf, Tracked(w): Tracked<&mut World>) -> (r: Result<(), IoError>)
    ensures *final(w) == *old(w), !old(w).io_faults ==> r is Ok { unimplemented!() }

// ---- std::fs::File / OpenOptions / flock
pub struct File { pub path: Ghost<int> }
pub enum TryLockError { Error(IoError), WouldBlock }
impl File {
    // O_CREAT | O_EXCL: creates the (empty) file or fails with AlreadyExists
    #[verifier::external_body]
    pub fn create_new<P: PathLike>(p: P, Tracked(w): Tracked<&mut World>) -> (r: Result<File, IoError>)
        ensures r is Ok ==> !old(w).files.dom().contains(p.pid()) && r->Ok_0.path@ == p.pid() && *final(w) == (World { files: old(w).files.insert(p.pid(), Seq::empty()), ..*old(w) }),
                r is Err ==> *final(w) == *old(w),
                old(w).files.dom().contains(p.pid()) ==> (r matches Err(e) && e.kind == IoErrorKind::AlreadyExists),
                !old(w).io_faults && !old(w).files.dom().contains(p.pid()) ==> r is Ok,
                (r matches Err(e) && e.kind != IoErrorKind::AlreadyExists) ==> old(w).io_faults,
    { unimplemented!() }
    // O_CREAT | O_TRUNC: creates the file or empties an existing one
    #[verifier::external_body]
    pub fn create<P: PathLike>(p: P, Tracked(w): Tracked<&mut World>) -> (r: Result<File, IoError>)
        ensures r is Ok ==> r->Ok_0.path@ == p.pid() && *final(w) == (World { files: old(w).files.insert(p.pid(), Seq::empty()), ..*old(w) }),
                r is Err ==> *final(w) == *old(w),
                !old(w).io_faults ==> r is Ok,
    { unimplemented!() }
    // flock(LOCK_EX | LOCK_NB)
    #[verifier::external_body]
    pub fn try_lock(&self, Tracked(w): Tracked<&mut World>) -> (r: Result<(), TryLockError>)
        ensures r is Ok ==> !old(w).lock_other.contains(self.path@) && *final(w) == (World { lock_mine: old(w).lock_mine.insert(self.path@), ..*old(w) }),
                r is Err ==> *final(w) == *old(w),
                r matches Err(TryLockError::WouldBlock) ==> old(w).lock_other.contains(self.path@),
                !old(w).io_faults && !old(w).lock_other.contains(self.path@) ==> r is Ok,
    { unimplemented!() }
    #[verifier::external_body]
    pub fn sync_all(&self, Tracked(w): Tracked<&mut World>) -> (r: Result<(), IoError>)
        ensures *final(w) == *old(w), !old(w).io_faults ==> r is Ok { unimplemented!() }
}
pub struct OpenOptions { pub read: bool, pub write: bool }
impl OpenOptions {
    pub fn new() -> (r: OpenOptions) ensures r == (OpenOptions { read: false, write: false }) { OpenOptions { read: false, write: false } }
    pub fn read(self, b: bool) -> (r: OpenOptions) ensures r == (OpenOptions { read: b, ..self }) { OpenOptions { read: b, ..self } }
    pub fn write(self, b: bool) -> (r: OpenOptions) ensures r == (OpenOptions { write: b, ..self }) { OpenOptions { write: b, ..self } }
    // open(2) without O_CREAT / O_TRUNC: changes nothing, fails on a missing file
    #[verifier::external_body]
    pub fn open(self, p: &Path, Tracked(w): Tracked<&mut World>) -> (r: Result<File, IoError>)
        ensures *final(w) == *old(w), r is Ok ==> r->Ok_0.path@ == p.id@ && old(w).files.dom().contains(p.id@),
                !old(w).io_faults && old(w).files.dom().contains(p.id@) ==> r is Ok,
    { unimplemented!() }
}
pub struct Arc<T> { pub t: T }
impl<T> Arc<T> { pub fn new(t: T) -> (r: Arc<T>) ensures r.t == t { Arc { t } } }
pub struct LockedFileGuardInner(pub File);
//@extract-type src/locked_file.rs :: LockedFileGuard

//@extract src/locked_file.rs :: LockedFileGuard :: create_new world props=C17+C02
//@contract
    ensures
        only_files(*old(w), *final(w)) || final(w).lock_mine == old(w).lock_mine.insert(path.id@),
        final(w).lock_other == old(w).lock_other && final(w).io_faults == old(w).io_faults,
        // at most the lock file itself is created; nothing else in the directory changes
        forall|p: int| p != path.id@ ==> (final(w).files.dom().contains(p) == old(w).files.dom().contains(p) && (old(w).files.dom().contains(p) ==> final(w).files[p] == old(w).files[p])), // [C17:taking-the-lock-touches-only-the-lock-file]
        r is Ok ==> final(w).lock_mine == old(w).lock_mine.insert(path.id@) && !old(w).lock_other.contains(path.id@), // [C17:ok-means-the-lock-is-held]
        r is Err ==> final(w).lock_mine == old(w).lock_mine,
        old(w).lock_other.contains(path.id@) ==> r is Err, // [C17:second-open-fails-while-another-instance-holds-the-lock]
        // a lock file left behind by an earlier (crashed or finished) instance is no obstacle
        !old(w).io_faults && !old(w).lock_other.contains(path.id@) ==> r is Ok, // [C02:a-leftover-lock-file-does-not-block-reopening]
//@end

// ---- the journal and the version marker
pub struct CompressionTypeCfg { pub dummy: u8 }
pub struct Config { pub path: PathBuf, pub journal_compression_type: CompressionTypeCfg, pub journal_compression_threshold: usize }
pub struct Journal { pub path: Ghost<int> }
impl Journal {
    // Journal::create_new -> Writer::create_new: File::create_new (fails with AlreadyExists on an existing file), set_len, sync_all.
    // P-ORDER-CREATE (C17): the journal is only created by the instance that holds the directory's lock
    #[verifier::external_body]
    pub fn create_new(p: &PathBuf, Tracked(w): Tracked<&mut World>) -> (r: FjResult<Journal>)
        requires old(w).lock_mine.contains(lock_of_parent(p.id@)), // [C17:lock-held-before-the-journal-is-created]
        ensures r is Ok ==> !old(w).files.dom().contains(p.id@) && r->Ok_0.path@ == p.id@ && final(w).files.dom() == old(w).files.dom().insert(p.id@),
                only_files(*old(w), *final(w)),
                forall|q: int| q != p.id@ && old(w).files.dom().contains(q) ==> final(w).files.dom().contains(q) && final(w).files[q] == old(w).files[q],
                forall|q: int| q != p.id@ && final(w).files.dom().contains(q) ==> old(w).files.dom().contains(q),
                old(w).files.dom().contains(p.id@) ==> r is Err && final(w).files == old(w).files,
                !old(w).io_faults && !old(w).files.dom().contains(p.id@) ==> r is Ok,
    { unimplemented!() }
    #[verifier::external_body] pub fn with_compression(self, c: CompressionTypeCfg, t: usize) -> (r: Journal) ensures r.path == self.path { unimplemented!() }
}
/// the lock file that guards the directory a journal file lives in (the journal folder is the database directory)
pub uninterp spec fn lock_of_parent(journal_path: int) -> int;
#[verifier::external_body]
pub broadcast proof fn axiom_lock_of_parent(dir: int, name: int) ensures #[trigger] lock_of_parent(join_id(dir, name)) == lock_of(dir) { }
pub enum FormatVersion { V1, V2, V3 }
pub open spec fn header_v3() -> Seq<u8> { seq![70u8, 74u8, 76u8, 3u8] }   // "FJL" 3 (contract of write_file_header: U-VERSION)
impl FormatVersion {
    // FormatVersion::write_file_header (proved in U-VERSION: writes MAGIC then the version byte); a failed write may have written a part
    #[verifier::external_body]
    pub fn write_file_header(self, f: &mut File, Tracked(w): Tracked<&mut World>) -> (r: Result<(), IoError>)
        requires old(w).files.dom().contains(old(f).path@), old(w).lock_mine.contains(lock_of_parent(old(f).path@)), // [C17:lock-held-before-the-marker-is-written]
        ensures final(f).path == old(f).path, only_files(*old(w), *final(w)),
                final(w).files.dom() == old(w).files.dom(), forall|q: int| q != old(f).path@ && old(w).files.dom().contains(q) ==> final(w).files[q] == old(w).files[q],
                r is Ok && self is V3 ==> final(w).files[old(f).path@] == old(w).files[old(f).path@] + header_v3(),
                !old(w).io_faults ==> r is Ok,
    { unimplemented!() }
}
/// the version marker of a directory is acceptable
pub open spec fn marker_ok(w: World, dir: int) -> bool { w.files.dom().contains(marker_of(dir)) && w.files[marker_of(dir)] == header_v3() }
/// C02 for the first open: whatever an interrupted creation has left behind, opening the directory again must succeed
/// (absent I/O faults and another live instance). A directory without a marker is created again (create_or_recover, U-OPEN);
/// with a marker it is recovered, which needs an acceptable marker (check_version, U-OPEN) and finds its journal.
pub open spec fn reopen_ok(w: World, dir: int) -> bool {
    w.files.dom().contains(marker_of(dir)) ==> (marker_ok(w, dir) && w.files.dom().contains(jnl0_of(dir)))
}
pub struct Database { pub dummy: u8 }

//@extract src/db.rs :: Database :: create_new as=create_prefix world until=fsync_directory(&config.path) props=C17+C02
//@contract
    requires !old(w).files.dom().contains(marker_of(config.path.id@)),   // create_or_recover takes this path only without a marker
        !old(w).lock_mine.contains(lock_of(config.path.id@)),
    ensures
        // (early exits only) creation restarted on ANY leftover of an interrupted creation succeeds, absent I/O faults and a live instance
        r is Err ==> old(w).io_faults || old(w).lock_other.contains(lock_of(config.path.id@)), // [C02:creation-can-be-restarted-from-whatever-an-interrupted-creation-left]
        r is Err ==> reopen_ok(*final(w), config.path.id@), // [C02:a-failed-creation-leaves-a-directory-that-can-be-opened-again]
//@proof after let lock_file
        proof { assert(reopen_ok(*w, config.path.id@)); }
//@proof before let journal = Arc::new(journal)
        proof {
            // a crash here: no marker yet, so the next open creates again -- over the journal file that now exists
            assert(reopen_ok(*w, config.path.id@)); }
//@proof after let mut marker
        proof {
            // a crash here leaves an EMPTY marker: the next open takes the recover path and must accept it
            assert(reopen_ok(*w, config.path.id@)); } // [C02:no-instant-at-which-a-crash-leaves-an-unopenable-directory]
//@proof after marker.sync_all
        proof { assert(reopen_ok(*w, config.path.id@)); } // [C02:no-instant-at-which-a-crash-leaves-an-unopenable-directory]
//@proof before shim_slice_end
    proof {
        // the version marker is complete, the journal exists and the lock is held when creation goes on to build the in-memory state
        assert(marker_ok(*w, config.path.id@)); // [C17:created-directory-carries-this-versions-marker]
        assert(w.files.dom().contains(jnl0_of(config.path.id@))); // [C04:created-directory-has-its-first-journal]
        assert(w.lock_mine.contains(lock_of(config.path.id@))); // [C17:lock-held-when-creation-completes]
    }
//@end

//@canary
} // verus!
fn main() {}
