// U-SPAWN — starting the worker pool (src/worker_pool.rs WorkerPool::start, prefix slice: up to and including the spawning of the
// threads): the opening thread raises the live-thread counter by the pool size BEFORE the first worker is spawned, so at no time is a
// running (or about-to-run) worker missing from the counter that Drop for DatabaseInner waits on (C17; the assumption
// `threads >= 1` of the worker loop in U-OPEN). The spawning expression itself (iterator adapters and closures, outside Verus'
// reach) is abstracted by R-ABS into spawn_workers(); the worker closure's loop is under contract in U-OPEN.
#![allow(unused_imports, unused_variables, dead_code, unused_mut, unused_parens, unreachable_code, unused_assignments)]
use vstd::prelude::*;
verus! {
//@include prelude/core.rs
//@include prelude/fjall_types.rs
//@include prelude/paths.rs
//@path std::sync::atomic::Ordering => atomic_shim::Ordering
//@path Relaxed => atomic_shim::Ordering::Relaxed
//@world thread_counter.fetch_add thread_counter.fetch_sub spawn_workers

pub mod atomic_shim { pub use std::sync::atomic::Ordering; }
/// counter: value of the live-thread counter; spawned: worker threads started (running or about to run)
pub struct World { pub counter: nat, pub spawned: nat }
pub struct Arc<T> { pub t: T }
impl<T> std::ops::Deref for Arc<T> { type Target = T; fn deref(&self) -> (r: &T) ensures *r == self.t { &self.t } }
pub struct AtomicUsize { pub dummy: u8 }
impl AtomicUsize {
    #[verifier::external_body]
    pub fn fetch_add(&self, n: usize, o: atomic_shim::Ordering, Tracked(w): Tracked<&mut World>) -> (r: usize)
        ensures *final(w) == (World { counter: (old(w).counter + n) as nat, ..*old(w) }) { unimplemented!() }
    #[verifier::external_body]
    pub fn fetch_sub(&self, n: usize, o: atomic_shim::Ordering, Tracked(w): Tracked<&mut World>) -> (r: usize)
        requires old(w).counter >= n,
        ensures *final(w) == (World { counter: (old(w).counter - n) as nat, ..*old(w) }) { unimplemented!() }
}
pub struct Supervisor { pub dummy: u8 }
pub struct Stats { pub dummy: u8 }
pub struct PoisonDart { pub dummy: u8 }
pub struct WorkerPool { pub dummy: u8 }
pub struct WorkerHandle { pub dummy: u8 }
/// the statement `let thread_handles = (0..pool_size).map(|i| Builder::new().spawn(<worker closure>).inspect_err(..)).collect()?`
/// (NOT under contract): n threads begin to run. P-COUNTED (C17): every one of them must already be in the live-thread counter --
/// a worker that is running but not counted is not waited for by a drop that comes right after open, and is never told to close.
/// A failed spawn takes its own count back (the inspect_err of that statement: ASSUMED).
#[verifier::external_body]
pub fn spawn_workers(n: usize, Tracked(w): Tracked<&mut World>) -> (r: Result<Vec<WorkerHandle>, Error>)
    requires old(w).counter >= old(w).spawned + n, // [C17:P-COUNTED-every-worker-is-in-the-live-thread-counter-before-it-is-spawned]
    ensures r is Ok ==> *final(w) == (World { spawned: (old(w).spawned + n) as nat, ..*old(w) }),
{ unimplemented!() }

//@extract src/worker_pool.rs :: WorkerPool :: start as=start_spawn world until=spawn_workers props=C17
//@abstract std::thread::Builder::new() => let thread_handles = match spawn_workers(pool_size) { Ok(v) => v, Err(e) => return Err(e) };
//@contract
    requires old(w).counter >= old(w).spawned,
    ensures r is Ok ==> final(w).spawned == old(w).spawned + pool_size && final(w).counter >= final(w).spawned, // [C17:every-started-worker-is-counted]
//@end

//@canary
} // verus!
fn main() {}
