// U-JMGR — journal eviction (src/journal/manager.rs, src/supervisor.rs build_seqno_map): P-EVICT, oldest first
#![allow(unused_imports, unused_variables, dead_code, unused_mut, unused_parens, unreachable_code, unused_assignments)]
use vstd::prelude::*;
use vstd::std_specs::iter::IteratorSpec;
verus! {
//@include prelude/core.rs
//@include prelude/fjall_types.rs
//@include spec/ops.rs
pub struct BatchItem { pub keyspace: Keyspace, pub key: UserKey, pub value: UserValue, pub value_type: ValueType }
pub open spec fn items_within_limits(items: Seq<BatchItem>) -> bool { true }
pub open spec fn ops_of(items: Seq<BatchItem>) -> Seq<OpV> { Seq::empty() }
//@include prelude/world.rs
//@extract-type src/journal/mod.rs :: Journal
//@include prelude/handles.rs
//@include prelude/paths.rs
//@path std::sync::atomic::Ordering => atomic_shim::Ordering
//@path std::fs::remove_file => fs_remove_file
//@path crate::journal::manager::EvictionWatermark => EvictionWatermark
//@world is_deleted.load fs_remove_file journal_writer.len self.enqueue journal_manager_lock.enqueue

// Keyspaces = HashMap<KeyspaceKey, Keyspace> (src/db.rs): only `values()` and `len()` are used here; the shim
// exposes the values in some fixed order
pub struct Keyspaces { pub vals: Vec<Keyspace> }
impl Keyspaces {
    pub fn values(&self) -> (r: &Vec<Keyspace>) ensures r == &self.vals { &self.vals }   // HashMap::values: each value once, order unspecified
    pub fn len(&self) -> (r: usize) ensures r == self.vals@.len() { self.vals.len() }
}

//@extract-type src/journal/manager.rs :: EvictionWatermark
//@extract-type src/journal/manager.rs :: Item
//@extract-type src/journal/manager.rs :: JournalManager
//@include spec/jmgr_spec.rs

//@extract src/journal/manager.rs :: JournalManager :: enqueue world props=C10+C04+C02
//@contract-file fn/jmgr_enqueue.c
//@proof before self.items.push
        proof { ghost_push_sealed(w, item_view(item)); }
//@proof after self.items.push
        proof { assert(items_view(self.items@) =~= old(w).sealed.push(item_view(item))); }
//@end

// NOT under contract: get_keyspaces_to_flush_for_oldest_journal_eviction (Verus: `continue` inside `for` unsupported)

//@extract src/journal/manager.rs :: JournalManager :: maintenance world desugar_for=1 optmap props=C10+C02+C12+C09+C04+C03+C18
//@contract-file fn/jmgr_maintenance.c
//@loop 0
            invariant
                self.wf(*w),
                self.items@.len() <= old(self).items@.len(),
                w.sealed == old(w).sealed.skip(old(self).items@.len() - self.items@.len()),
                w.removed == old(w).removed + Seq::new((old(self).items@.len() - self.items@.len()) as nat, |i: int| old(w).sealed[i].path),
                *w == (World { sealed: w.sealed, removed: w.removed, ..*old(w) }),
                old(w).sealed.len() == old(self).items@.len(),
            decreases self.items@.len(),
//@loop 1
                invariant
                    *w == w1, self.wf(*w), self.items@.len() > 0, it0 == self.items@[0],
                    0 <= __fjx_n1 <= it0.watermarks@.len(),
                    __fjx_it1.remaining().len() == it0.watermarks@.len() - __fjx_n1,
                    forall|j: int| 0 <= j < __fjx_it1.remaining().len() ==> *(#[trigger] __fjx_it1.remaining()[j]) == it0.watermarks@[__fjx_n1 + j],
                    forall|j: int| 0 <= j < __fjx_n1 ==> wm_ok(#[trigger] wms_view(it0.watermarks@)[j], *w),
                    self.items@.len() <= old(self).items@.len(), k0 == old(self).items@.len() - self.items@.len(),
                    old(w).sealed.len() == old(self).items@.len(),
                    w1.sealed == old(w).sealed.skip(k0),
                    w1.removed == old(w).removed + Seq::new(k0 as nat, |i: int| old(w).sealed[i].path),
                    w1 == (World { sealed: w1.sealed, removed: w1.removed, ..*old(w) }),
                ensures __fjx_n1 == it0.watermarks@.len(),
                decreases it0.watermarks@.len() - __fjx_n1,
//@proof before @loop-start 1
                proof {
                    assert(w.sealed[0].wms =~= wms_view(it0.watermarks@));
                    assert(wm_view(*item) == w.sealed[0].wms[__fjx_n1 - 1]);
                }
//@proof after self.items.first()
            let ghost w1 = *w;
            let ghost it0 = *item;
            let ghost k0 = old(self).items@.len() - self.items@.len();
            proof { assert(w.sealed[0] == item_view(self.items@[0])); }
//@proof before fs_remove_file
            proof {
                assert(w.sealed[0].wms =~= wms_view(it0.watermarks@));
                assert(evictable(w.sealed[0], *w));
            }
//@proof after self.items.remove(0)
            proof {
                assert(items_view(self.items@) =~= w1.sealed.skip(1));
                assert(old(w).sealed.skip(k0).skip(1) =~= old(w).sealed.skip(k0 + 1));
                assert(w.removed =~= old(w).removed + Seq::new((k0 + 1) as nat, |i: int| old(w).sealed[i].path));
            }
//@end

//@extract src/journal/manager.rs :: JournalManager :: rotate_journal world props=C10+C09+C02+C04
//@contract-file fn/jmgr_rotate_journal.c
//@end

//@extract src/supervisor.rs :: Supervisor :: build_seqno_map world props=C10+C02+C09
//@contract-file fn/sup_build_seqno_map.c
//@loop 0
            invariant
                *w == *old(w),
                it.snapshot@.remaining().len() == keyspaces.vals@.len(),
                forall|j: int| 0 <= j < keyspaces.vals@.len() ==> *(#[trigger] it.snapshot@.remaining()[j]) == keyspaces.vals@[j],
                0 <= it.index@ <= keyspaces.vals@.len(),
                forall|i: int| 0 <= i < keyspaces.vals@.len() ==> ks_wf(&(#[trigger] keyspaces.vals@[i]), *old(w)),
                forall|i: int| 0 <= i < it.index@ && old(w).trees[(#[trigger] keyspaces.vals@[i]).id].mem_max is Some ==>
                    has_wm(seqnos@, keyspaces.vals@[i].id, old(w).trees[keyspaces.vals@[i].id].mem_max->Some_0),
                all_ks_wf(seqnos@, *old(w)),
//@proof before seqnos.push
                let ghost s0 = seqnos@;
//@proof after seqnos.push
                proof {
                    assert forall|i: int| 0 <= i < it.index@ && old(w).trees[(#[trigger] keyspaces.vals@[i]).id].mem_max is Some implies
                        has_wm(seqnos@, keyspaces.vals@[i].id, old(w).trees[keyspaces.vals@[i].id].mem_max->Some_0) by {
                        let q = choose|q: int| 0 <= q < s0.len() && #[trigger] s0[q].keyspace.id == keyspaces.vals@[i].id && s0[q].lsn == old(w).trees[keyspaces.vals@[i].id].mem_max->Some_0;
                        assert(seqnos@[q] == s0[q]);
                    }
                    assert(seqnos@[seqnos@.len() - 1].keyspace.id == keyspace.id);
                    assert(has_wm(seqnos@, keyspace.id, lsn));
                }
//@end

//@canary
} // verus!
fn main() {}
