// U-OHELP — the single-operation helpers of an optimistic keyspace (src/tx/optimistic/keyspace.rs): each one IS a whole
// transaction (begin, one operation, commit); read-modify-write helpers retry until a commit succeeds and return the
// result of the attempt that committed; blind writes cannot conflict (C07)
#![allow(unused_imports, unused_variables, dead_code, unused_mut, unused_parens, unreachable_code, unused_assignments)]
use vstd::prelude::*;
verus! {
//@include prelude/core.rs
//@include prelude/fjall_types.rs
//@include prelude/paths.rs
//@world inner.insert inner.remove inner.remove_weak db.write_tx tx.fetch_update tx.update_fetch tx.insert tx.remove tx.remove_weak tx.commit

// ---- ghost world: the transactions this call ran, in order
pub enum OpG { Insert, Remove, RemoveWeak, FetchUpdate, UpdateFetch }
pub struct TxG { pub ops: Seq<OpG>, pub reads: nat, pub finished: bool, pub committed: bool, pub result: int }
pub struct World { pub txs: Seq<TxG> }
pub open spec fn last(w: World) -> TxG { w.txs.last() }
pub open spec fn upd_last(w: World, t: TxG) -> World { World { txs: w.txs.drop_last().push(t) } }
pub struct Keyspace { pub id: InternalKeyspaceId }
impl Keyspace {
    // the plain (non-transactional) write paths of the inner keyspace: journaled and applied, but NOT a transaction of the
    // optimistic database -- nothing is validated and nothing is registered with the oracle for other transactions to see
    #[verifier::external_body]
    pub fn insert<K: Into<UserKey>, V: Into<UserValue>>(&self, key: K, value: V, Tracked(w): Tracked<&mut World>) -> (r: Result<(), Error>)
        ensures *final(w) == *old(w) { unimplemented!() }
    #[verifier::external_body]
    pub fn remove<K: Into<UserKey>>(&self, key: K, Tracked(w): Tracked<&mut World>) -> (r: Result<(), Error>)
        ensures *final(w) == *old(w) { unimplemented!() }
    #[verifier::external_body]
    pub fn remove_weak<K: Into<UserKey>>(&self, key: K, Tracked(w): Tracked<&mut World>) -> (r: Result<(), Error>)
        ensures *final(w) == *old(w) { unimplemented!() }
}
pub struct Conflict;
#[verifier::external]
impl std::fmt::Debug for Conflict { fn fmt(&self, f: &mut std::fmt::Formatter<'_>) -> std::fmt::Result { unimplemented!() } }
pub struct WriteTransaction { pub idx: Ghost<int> }
pub uninterp spec fn res_id(v: Option<UserValue>) -> int;    // identity of a returned value (which attempt produced it)
impl WriteTransaction {
    // contracts of the optimistic WriteTransaction (U-SSI / U-ORACLE), restated over the transaction log of this unit
    #[verifier::external_body]
    pub fn insert<K: Into<UserKey>, V: Into<UserValue>>(&mut self, ks: &Keyspace, key: K, value: V, Tracked(w): Tracked<&mut World>)
        requires old(w).txs.len() > 0, !last(*old(w)).finished,
        ensures *final(w) == upd_last(*old(w), TxG { ops: last(*old(w)).ops.push(OpG::Insert), ..last(*old(w)) }) { unimplemented!() }
    #[verifier::external_body]
    pub fn remove<K: Into<UserKey>>(&mut self, ks: &Keyspace, key: K, Tracked(w): Tracked<&mut World>)
        requires old(w).txs.len() > 0, !last(*old(w)).finished,
        ensures *final(w) == upd_last(*old(w), TxG { ops: last(*old(w)).ops.push(OpG::Remove), ..last(*old(w)) }) { unimplemented!() }
    #[verifier::external_body]
    pub fn remove_weak<K: Into<UserKey>>(&mut self, ks: &Keyspace, key: K, Tracked(w): Tracked<&mut World>)
        requires old(w).txs.len() > 0, !last(*old(w)).finished,
        ensures *final(w) == upd_last(*old(w), TxG { ops: last(*old(w)).ops.push(OpG::RemoveWeak), ..last(*old(w)) }) { unimplemented!() }
    #[verifier::external_body]
    pub fn fetch_update<K: Into<UserKey>, F: FnMut(Option<&UserValue>) -> Option<UserValue>>(&mut self, ks: &Keyspace, key: K, f: F, Tracked(w): Tracked<&mut World>) -> (r: Result<Option<UserValue>, Error>)
        requires old(w).txs.len() > 0, !last(*old(w)).finished,
        ensures r is Ok ==> *final(w) == upd_last(*old(w), TxG { ops: last(*old(w)).ops.push(OpG::FetchUpdate), reads: last(*old(w)).reads + 1, result: res_id(r->Ok_0), ..last(*old(w)) }),
                r is Err ==> *final(w) == *old(w) { unimplemented!() }
    #[verifier::external_body]
    pub fn update_fetch<K: Into<UserKey>, F: FnMut(Option<&UserValue>) -> Option<UserValue>>(&mut self, ks: &Keyspace, key: K, f: F, Tracked(w): Tracked<&mut World>) -> (r: Result<Option<UserValue>, Error>)
        requires old(w).txs.len() > 0, !last(*old(w)).finished,
        ensures r is Ok ==> *final(w) == upd_last(*old(w), TxG { ops: last(*old(w)).ops.push(OpG::UpdateFetch), reads: last(*old(w)).reads + 1, result: res_id(r->Ok_0), ..last(*old(w)) }),
                r is Err ==> *final(w) == *old(w) { unimplemented!() }
    // commit: Ok(Ok(())) = validated, applied, registered; Ok(Err(Conflict)) = refused, nothing applied (U-ORACLE S3/S7);
    // a transaction that read nothing has nothing to validate and is never refused (has_conflict over an empty read set is false: U-CONFLICT)
    #[verifier::external_body]
    pub fn commit(self, Tracked(w): Tracked<&mut World>) -> (r: Result<Result<(), Conflict>, Error>)
        requires old(w).txs.len() > 0, !last(*old(w)).finished,
        ensures *final(w) == upd_last(*old(w), TxG { finished: true, committed: r matches Ok(Ok(_)), ..last(*old(w)) }),
                last(*old(w)).reads == 0 ==> !(r matches Ok(Err(_))),
    { unimplemented!() }
}
pub struct OptimisticTxDatabase { pub dummy: u8 }
impl OptimisticTxDatabase {
    // U-OTX write_tx: a fresh transaction
    #[verifier::external_body]
    pub fn write_tx(&self, Tracked(w): Tracked<&mut World>) -> (r: Result<WriteTransaction, Error>)
        requires old(w).txs.len() > 0 ==> last(*old(w)).finished,
        ensures r is Ok ==> *final(w) == (World { txs: old(w).txs.push(TxG { ops: Seq::empty(), reads: 0, finished: false, committed: false, result: 0 }) }),
                r is Err ==> *final(w) == *old(w) { unimplemented!() }
}
//@extract-type src/tx/optimistic/keyspace.rs :: OptimisticTxKeyspace
//@extract src/tx/optimistic/keyspace.rs :: OptimisticTxKeyspace :: inner props=C07
//@contract
    ensures *r == self.inner,
//@end
/// the call ran whole transactions only, and the last one committed with exactly this one operation
pub open spec fn committed_single(o: World, n: World, op: OpG) -> bool {
    n.txs.len() > o.txs.len() && last(n).finished && last(n).committed && last(n).ops == seq![op]
    && (forall|i: int| o.txs.len() <= i < n.txs.len() ==> (#[trigger] n.txs[i]).finished && n.txs[i].ops.len() <= 1)
    && (forall|i: int| o.txs.len() <= i < n.txs.len() - 1 ==> !(#[trigger] n.txs[i]).committed)
}
//@extract src/tx/optimistic/keyspace.rs :: OptimisticTxKeyspace :: insert world props=C07
//@contract
    requires old(w).txs.len() > 0 ==> last(*old(w)).finished,
    ensures r is Ok ==> committed_single(*old(w), *final(w), OpG::Insert), // [C07:helper-is-one-committed-transaction]
//@end
//@extract src/tx/optimistic/keyspace.rs :: OptimisticTxKeyspace :: remove world props=C07
//@contract
    requires old(w).txs.len() > 0 ==> last(*old(w)).finished,
    ensures r is Ok ==> committed_single(*old(w), *final(w), OpG::Remove), // [C07:helper-is-one-committed-transaction]
//@end
//@extract src/tx/optimistic/keyspace.rs :: OptimisticTxKeyspace :: remove_weak world props=C07
//@contract
    requires old(w).txs.len() > 0 ==> last(*old(w)).finished,
    ensures r is Ok ==> committed_single(*old(w), *final(w), OpG::RemoveWeak), // [C07:helper-is-one-committed-transaction]
//@end
//@extract src/tx/optimistic/keyspace.rs :: OptimisticTxKeyspace :: take world props=C07+C08
//@world self.fetch_update
//@contract
    requires old(w).txs.len() > 0 ==> last(*old(w)).finished,
    ensures r is Ok ==> committed_single(*old(w), *final(w), OpG::FetchUpdate) // [C07:helper-is-one-committed-transaction]
            && res_id(r->Ok_0) == last(*final(w)).result, // [C07:helper-returns-the-result-of-the-attempt-that-committed] [C08:helper-returns-the-result-of-the-attempt-that-committed]
//@end
//@extract src/tx/optimistic/keyspace.rs :: OptimisticTxKeyspace :: fetch_update world no_decreases props=C07
//@contract
    requires old(w).txs.len() > 0 ==> last(*old(w)).finished,
    ensures r is Ok ==> committed_single(*old(w), *final(w), OpG::FetchUpdate) // [C07:helper-is-one-committed-transaction]
            && res_id(r->Ok_0) == last(*final(w)).result, // [C07:helper-returns-the-result-of-the-attempt-that-committed] [C08:helper-returns-the-result-of-the-attempt-that-committed]
//@loop 0
            invariant
                w.txs.len() >= old(w).txs.len(), w.txs.len() > 0 ==> last(*w).finished,
                forall|i: int| old(w).txs.len() <= i < w.txs.len() ==> (#[trigger] w.txs[i]).finished && w.txs[i].ops.len() <= 1 && !w.txs[i].committed,
//@end
//@extract src/tx/optimistic/keyspace.rs :: OptimisticTxKeyspace :: update_fetch world no_decreases props=C07
//@contract
    requires old(w).txs.len() > 0 ==> last(*old(w)).finished,
    ensures r is Ok ==> committed_single(*old(w), *final(w), OpG::UpdateFetch) // [C07:helper-is-one-committed-transaction]
            && res_id(r->Ok_0) == last(*final(w)).result, // [C07:helper-returns-the-result-of-the-attempt-that-committed] [C08:helper-returns-the-result-of-the-attempt-that-committed]
//@loop 0
            invariant
                w.txs.len() >= old(w).txs.len(), w.txs.len() > 0 ==> last(*w).finished,
                forall|i: int| old(w).txs.len() <= i < w.txs.len() ==> (#[trigger] w.txs[i]).finished && w.txs[i].ops.len() <= 1 && !w.txs[i].committed,
//@end

//@canary
} // verus!
fn main() {}
