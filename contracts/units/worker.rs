// U-WORKER — the background worker's dispatch (src/worker_pool.rs worker_tick): journal rotation captures the eviction
// watermarks and seals the journal inside ONE journal critical section; no exit leaks the journal lock; each message
// runs the matching routine (C10, C02, C06, C01)
#![allow(unused_imports, unused_variables, dead_code, unused_mut, unused_parens, unreachable_code, unused_assignments)]
use vstd::prelude::*;
verus! {
//@include prelude/core.rs
//@include prelude/fjall_types.rs
//@include spec/ops.rs
pub struct BatchItem { pub keyspace: Keyspace, pub key: UserKey, pub value: UserValue, pub value_type: ValueType }
pub open spec fn items_within_limits(items: Seq<BatchItem>) -> bool { true }
pub open spec fn ops_of(items: Seq<BatchItem>) -> Seq<OpV> { Seq::empty() }
//@include prelude/world.rs
//@extract-type src/journal/mod.rs :: Journal
//@include prelude/handles.rs
//@include prelude/paths.rs
//@path crate::journal::manager::EvictionWatermark => EvictionWatermark
//@path run_flush => flush_run
//@path run_compaction => compaction_run
//@guards .get_writer(
//@world drop writer.lock keyspaces.write journal_manager.rotate_journal journal_manager.get_keyspaces_to_flush_for_oldest_journal_eviction build_seqno_map flush_run compaction_run inner_rotate_memtable .maintenance

pub open spec fn tracker_wf(t: &SnapshotTracker) -> bool { true }
//@extract-type src/journal/manager.rs :: EvictionWatermark
//@include spec/jmgr_spec_wm.rs

pub struct Task { pub keyspace: Keyspace }
pub struct Stats { pub dummy: u8 }
pub struct RecvError { pub dummy: u8 }
pub struct Receiver { pub dummy: u8 }
impl Receiver { #[verifier::external_body] pub fn recv(&self) -> (r: Result<WorkerMessage, RecvError>) { unimplemented!() } }
impl FlushManager { #[verifier::external_body] pub fn dequeue(&self) -> (r: Option<Arc<Task>>) { unimplemented!() } }
impl<T> std::ops::Deref for Arc<T> { type Target = T; fn deref(&self) -> (r: &T) ensures *r == self.t { &self.t } }
impl Writer { #[verifier::external_body] pub fn pos(&self) -> (r: Result<u64, Error>) { unimplemented!() } }
impl Keyspace { #[verifier::external_body] pub fn request_rotation(&self) { unimplemented!() } }   // sends a RotateMemtable message: no modelled state
pub struct DbCfg { pub max_journaling_size_in_bytes: u64 }
// the dictionary of registered keyspaces behind its RwLock: every keyspace that still exists is in it (Database::keyspace /
// recover_keyspaces insert, delete_keyspace removes: U-META), with a well-formed handle
pub struct Keyspaces { pub vals: Vec<Keyspace> }
pub struct KsWLockResult { pub g: Keyspaces }
impl KsWLockResult { pub fn expect(self, m: &str) -> (r: Keyspaces) ensures r == self.g { self.g } }   // a poisoned lock panics: not modelled
impl KeyspacesLock {
    #[verifier::external_body]
    pub fn write(&self, Tracked(w): Tracked<&mut World>) -> (r: KsWLockResult)
        ensures *final(w) == *old(w),
            forall|i: int| 0 <= i < r.g.vals@.len() ==> ks_wf(&(#[trigger] r.g.vals@[i]), *old(w)),
            forall|k: u64| #![trigger old(w).trees[k]] old(w).trees.dom().contains(k) && old(w).deleted.dom().contains(k as int) && !old(w).deleted[k as int]
                ==> exists|i: int| 0 <= i < r.g.vals@.len() && (#[trigger] r.g.vals@[i]).id == k,
    { unimplemented!() }
}
impl JmWriteGuard {
    // world-level contract of JournalManager::rotate_journal (fn/jmgr_rotate_journal.c, proved in U-JMGR)
    #[verifier::external_body]
    pub fn rotate_journal(&mut self, journal_writer: &mut MutexGuard<'_, Writer>, watermarks: Vec<EvictionWatermark>, Tracked(w): Tracked<&mut World>) -> (r: Result<(), Error>)
        requires old(w).journal.locked, // [C10:watermarks-and-rotation-in-one-critical-section]
            all_ks_wf(watermarks@, *old(w)),
            old(w).journal.os_len <= old(w).journal.len && old(w).journal.synced_len <= old(w).journal.os_len,
            covers_all_memtables(watermarks@, *old(w)), // [C10:watermarks-cover-every-unflushed-memtable-at-sealing-time] [C02:watermarks-cover-every-unflushed-memtable-at-sealing-time]
        ensures final(w).journal.locked, *final(w) == (World { journal: final(w).journal, sealed: final(w).sealed, ..*old(w) }),
            final(w).journal.recs == old(w).journal.recs, final(w).journal.len == old(w).journal.len,
            final(w).journal.os_len >= old(w).journal.os_len && final(w).journal.os_len <= final(w).journal.len,
            final(w).journal.synced_len >= old(w).journal.synced_len && final(w).journal.synced_len <= final(w).journal.os_len,
            r is Ok ==> final(w).sealed.len() == old(w).sealed.len() + 1 && final(w).sealed.drop_last() == old(w).sealed,
            r is Ok ==> final(w).journal.failed == old(w).journal.failed,
            r is Err ==> final(w).sealed == old(w).sealed,
    { unimplemented!() }
    #[verifier::external_body] pub fn disk_space_used(&self) -> (r: u64) { unimplemented!() }
    #[verifier::external_body] pub fn get_keyspaces_to_flush_for_oldest_journal_eviction(&self, Tracked(w): Tracked<&mut World>) -> (r: Vec<Keyspace>) ensures *final(w) == *old(w) { unimplemented!() }
}
pub struct SupervisorW { pub journal: Journal, pub snapshot_tracker: SnapshotTracker, pub write_buffer_size: WriteBufferManager, pub keyspaces: KeyspacesLock,
    pub flush_manager: FlushManager, pub journal_manager: JmLock, pub db_config: DbCfg }
impl SupervisorW {
    // contract of Supervisor::build_seqno_map (fn/sup_build_seqno_map.c, proved in U-JMGR)
    #[verifier::external_body]
    pub fn build_seqno_map(&self, keyspaces: &Keyspaces, Tracked(w): Tracked<&mut World>) -> (r: Vec<EvictionWatermark>)
        requires forall|i: int| 0 <= i < keyspaces.vals@.len() ==> ks_wf(&(#[trigger] keyspaces.vals@[i]), *old(w)),
            // protocol rule: the watermarks are read INSIDE the journal critical section that seals the journal -- read before the lock
            // is held, a write that completes in between sits in the sealed journal without (or above) its keyspace's watermark
            old(w).journal.locked, // [C10:watermarks-read-inside-the-journal-critical-section] [C02:watermarks-read-inside-the-journal-critical-section]
        ensures *final(w) == *old(w),
            forall|i: int| 0 <= i < keyspaces.vals@.len() && old(w).trees[(#[trigger] keyspaces.vals@[i]).id].mem_max is Some ==>
                has_wm(r@, keyspaces.vals@[i].id, old(w).trees[keyspaces.vals@[i].id].mem_max->Some_0),
            all_ks_wf(r@, *old(w)),
    { unimplemented!() }
}
pub struct WorkerState { pub pool_size: usize, pub worker_id: usize, pub supervisor: SupervisorW, pub rx: Receiver, pub sender: WorkerSender, pub stats: Arc<Stats> }

//@extract src/journal/mod.rs :: Journal :: get_writer world spec_only
//@contract-file fn/journal_get_writer.c
//@end
//@extract src/flush/worker.rs :: run as=flush_run world spec_only
//@contract-file fn/flush_run.c
//@end
//@extract src/compaction/worker.rs :: run as=compaction_run world spec_only
//@contract-file fn/compaction_run.c
//@end
//@extract src/keyspace/mod.rs :: Keyspace :: inner_rotate_memtable world spec_only
//@contract-file fn/ks_inner_rotate.c
//@end

/// every handle a message can carry is one of the database's registered keyspaces (messages are only created from handles)
pub open spec fn msg_wf(m: WorkerMessage, w: World) -> bool {
    match m { WorkerMessage::Compact(k) => ks_wf(&k, w), WorkerMessage::RotateMemtable(k, _) => ks_wf(&k, w), _ => true }
}

//@extract src/worker_pool.rs :: worker_tick world props=C10+C02+C06+C01
//@contract
    requires inv(*old(w)), tracker_inv(*old(w)), !old(w).journal.locked, !old(w).journal.mutex_poisoned, !old(w).reclaim_due,
        // ASSUMED about the channel and the flush queue: they only ever hold handles of registered keyspaces
        forall|m: WorkerMessage| msg_wf(m, *old(w)), forall|t: Task| ks_wf(&t.keyspace, *old(w)),
    ensures
        !final(w).journal.locked, // [C06:worker-never-leaks-the-journal-lock] [C10:worker-never-leaks-the-journal-lock]
        final(w).journal.recs == old(w).journal.recs, // [C02:background-work-appends-nothing-to-the-journal]
        // a flush can make sealed journals reclaimable: the tick that completes one runs a reclaim pass afterwards (with the completeness of
        // JournalManager::maintenance, U-JMGR, this is what brings the number of journal files back to one once everything is flushed)
        r is Ok ==> !final(w).reclaim_due, // [C10:every-completed-flush-is-followed-by-a-reclaim-pass]
        forall|k: u64| old(w).trees.dom().contains(k) ==> final(w).trees.dom().contains(k) && (#[trigger] final(w).trees[k]).applied == old(w).trees[k].applied, // [C01:maintenance-keeps-applied-ops]
//@proof before match item
    proof { assert(msg_wf(item, *old(w))); }
//@proof after let Some(task)
            proof { assert(ks_wf(&task.t.keyspace, *old(w))); }
//@end

//@canary
} // verus!
fn main() {}
