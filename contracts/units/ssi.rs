// U-SSI — read-set / write-set completeness of optimistic transactions (src/tx/optimistic/write_tx.rs):
// S1: every read method records what it read; S2: every write is in the conflict set
#![feature(sized_hierarchy)]
#![allow(unused_imports, unused_variables, dead_code, unused_mut, unused_parens, unreachable_code, unused_assignments)]
use vstd::prelude::*;
use std::ops::{Bound, RangeBounds, RangeFull};
verus! {
//@include prelude/core.rs
//@include prelude/fjall_types.rs
//@include prelude/paths.rs
//@broadcast slice_of_view
//@world cm.mark_read cm.mark_conflict cm.mark_range self.iter self.range

#[verifier::external_trait_specification]
pub trait ExAsRef<T: core::marker::PointeeSized>: core::marker::PointeeSized { type ExternalTraitSpecificationFor: AsRef<T>; fn as_ref(&self) -> &T; }
// ---- ghost world: the transaction's read markers and conflict (write) keys, in the order they were recorded
pub enum BV { Included(Seq<u8>), Excluded(Seq<u8>), Unbounded }
pub enum MarkG { Read { ks: u64, key: Seq<u8> }, Range { ks: u64, all: bool }, RangeB { ks: u64, lo: BV, hi: BV }, Conflict { ks: u64, key: Seq<u8> } }
pub struct World { pub marks: Seq<MarkG>, pub inner_reads: nat, pub inner_writes: nat }
pub struct ConflictManager { pub dummy: u8 }
pub uninterp spec fn slice_of(b: Seq<u8>) -> Slice;
pub broadcast axiom fn slice_of_view(b: Seq<u8>) ensures #[trigger] slice_of(b)@ == b;
impl vstd::std_specs::convert::FromSpecImpl<&[u8]> for Slice {
    open spec fn obeys_from_spec() -> bool { true }
    open spec fn from_spec(b: &[u8]) -> Slice { slice_of(b@) }
}
impl From<&[u8]> for Slice { #[verifier::external_body] fn from(b: &[u8]) -> (r: Slice) ensures r == slice_of(b@) { unimplemented!() } }
impl ConflictManager {
    // src/tx/optimistic/conflict_manager.rs mark_read / mark_conflict / mark_range (not under contract: Mutex<BTreeMap>)
    #[verifier::external_body]
    pub fn mark_read(&self, ks: InternalKeyspaceId, key: Slice, Tracked(w): Tracked<&mut World>)
        ensures *final(w) == (World { marks: old(w).marks.push(MarkG::Read { ks, key: key@ }), ..*old(w) }) { unimplemented!() }
    #[verifier::external_body]
    pub fn mark_conflict(&self, ks: InternalKeyspaceId, key: Slice, Tracked(w): Tracked<&mut World>)
        ensures *final(w) == (World { marks: old(w).marks.push(MarkG::Conflict { ks, key: key@ }), ..*old(w) }) { unimplemented!() }
    #[verifier::external_body]
    pub fn mark_range<R: RangeMark>(&self, ks: InternalKeyspaceId, range: R, Tracked(w): Tracked<&mut World>)
        ensures *final(w) == (World { marks: old(w).marks.push(range.mark(ks)), ..*old(w) }) { unimplemented!() }
    #[verifier::external_body]
    pub fn default() -> (r: ConflictManager) { unimplemented!() }
}
// what ConflictManager::mark_range is handed (contract proved in U-CONFLICT): `RangeFull` = the whole keyspace, a pair of bounds = that range
pub trait RangeMark { spec fn mark(&self, ks: u64) -> MarkG; }
impl RangeMark for RangeFull { open spec fn mark(&self, ks: u64) -> MarkG { MarkG::Range { ks, all: true } } }
pub open spec fn bview(b: Bound<Slice>) -> BV { match b { Bound::Included(k) => BV::Included(k@), Bound::Excluded(k) => BV::Excluded(k@), Bound::Unbounded => BV::Unbounded } }
impl RangeMark for (Bound<Slice>, Bound<Slice>) { open spec fn mark(&self, ks: u64) -> MarkG { MarkG::RangeB { ks, lo: bview(self.0), hi: bview(self.1) } } }
/// the byte view of a caller-supplied bound (through the caller's AsRef<[u8]>)
pub open spec fn bound_is<K: AsRef<[u8]>>(b: Bound<&K>, v: BV) -> bool {
    match b {
        Bound::Included(k) => exists|s: &[u8]| #![trigger s@] key_of(k, s) && v == BV::Included(s@),
        Bound::Excluded(k) => exists|s: &[u8]| #![trigger s@] key_of(k, s) && v == BV::Excluded(s@),
        Bound::Unbounded => v == BV::Unbounded,
    }
}
pub struct Keyspace { pub id: InternalKeyspaceId }
impl AsRef<Keyspace> for Keyspace { fn as_ref(&self) -> (r: &Keyspace) ensures *r == *self { self } }
pub struct IterH { pub dummy: u8 }
pub struct GuardH { pub dummy: u8 }
impl IterH {
    #[verifier::external_body] pub fn next(&mut self) -> (r: Option<GuardH>) { unimplemented!() }
    #[verifier::external_body] pub fn next_back(&mut self) -> (r: Option<GuardH>) { unimplemented!() }
}
pub type Iter = IterH;
pub type Guard = GuardH;
// BaseTransaction (contracts proved in U-TX): here only "it was consulted" matters
pub struct BaseTransaction { pub dummy: u8 }
impl BaseTransaction {
    #[verifier::external_body] pub fn get<K: AsRef<[u8]>>(&self, ks: impl AsRef<Keyspace>, key: K) -> (r: Result<Option<UserValue>, Error>) { unimplemented!() }
    #[verifier::external_body] pub fn contains_key<K: AsRef<[u8]>>(&self, ks: impl AsRef<Keyspace>, key: K) -> (r: Result<bool, Error>) { unimplemented!() }
    #[verifier::external_body] pub fn size_of<K: AsRef<[u8]>>(&self, ks: impl AsRef<Keyspace>, key: K) -> (r: Result<Option<u32>, Error>) { unimplemented!() }
    #[verifier::external_body] pub fn iter(&self, ks: impl AsRef<Keyspace>) -> (r: Iter) { unimplemented!() }
    #[verifier::external_body] pub fn range<K: AsRef<[u8]>, R: RangeBounds<K>>(&self, ks: impl AsRef<Keyspace>, range: R) -> (r: Iter) { unimplemented!() }
    #[verifier::external_body] pub fn first_key_value(&self, ks: impl AsRef<Keyspace>) -> (r: Option<Guard>) { unimplemented!() }
    #[verifier::external_body] pub fn last_key_value(&self, ks: impl AsRef<Keyspace>) -> (r: Option<Guard>) { unimplemented!() }
    #[verifier::external_body] pub fn insert<K: Into<UserKey>, V: Into<UserValue>>(&mut self, ks: &Keyspace, key: K, value: V) { unimplemented!() }
    #[verifier::external_body] pub fn remove<K: Into<UserKey>>(&mut self, ks: &Keyspace, key: K) { unimplemented!() }
    #[verifier::external_body] pub fn remove_weak<K: Into<UserKey>>(&mut self, ks: &Keyspace, key: K) { unimplemented!() }
    #[verifier::external_body] pub fn fetch_update<K: Into<UserKey>, F: FnOnce(Option<&UserValue>) -> Option<UserValue>>(&mut self, ks: &Keyspace, key: K, f: F) -> (r: Result<Option<UserValue>, Error>) { unimplemented!() }
    #[verifier::external_body] pub fn update_fetch<K: Into<UserKey>, F: FnOnce(Option<&UserValue>) -> Option<UserValue>>(&mut self, ks: &Keyspace, key: K, f: F) -> (r: Result<Option<UserValue>, Error>) { unimplemented!() }
}
pub struct Oracle { pub dummy: u8 }
pub struct Arc<T> { pub t: T }
pub struct WriteTransaction { pub inner: BaseTransaction, pub cm: ConflictManager, pub oracle: Arc<Oracle> }
pub open spec fn resolves<T: AsRef<Keyspace>>(t: &T, k: &Keyspace) -> bool { call_ensures(<T as AsRef<Keyspace>>::as_ref, (t,), k) }
pub open spec fn key_of<K: AsRef<[u8]>>(k: &K, b: &[u8]) -> bool { call_ensures(<K as AsRef<[u8]>>::as_ref, (k,), b) }
/// S1: a point read of `key` in keyspace `keyspace` is recorded as a read marker for exactly that key
pub open spec fn recorded_point_read<T: AsRef<Keyspace>, K: AsRef<[u8]>>(o: World, n: World, keyspace: &T, key: &K) -> bool {
    n.marks.len() == o.marks.len() + 1 && (forall|i: int| 0 <= i < o.marks.len() ==> (#[trigger] n.marks[i]) == o.marks[i])
    && exists|k: &Keyspace, b: &[u8]| #![trigger k.id, b@] resolves(keyspace, k) && key_of(key, b) && n.marks.last() == (MarkG::Read { ks: k.id, key: b@ })
}

//@extract src/tx/optimistic/write_tx.rs :: Readable for WriteTransaction :: get world inherent props=C07
//@contract
    ensures r is Ok ==> recorded_point_read(*old(w), *final(w), &keyspace, &key), // [C07:S1-get-recorded]
//@end
//@extract src/tx/optimistic/write_tx.rs :: Readable for WriteTransaction :: contains_key world inherent props=C07
//@contract
    ensures r is Ok ==> recorded_point_read(*old(w), *final(w), &keyspace, &key), // [C07:S1-contains_key-recorded]
//@end
//@extract src/tx/optimistic/write_tx.rs :: Readable for WriteTransaction :: size_of world inherent props=C07
//@contract
    ensures r is Ok ==> recorded_point_read(*old(w), *final(w), &keyspace, &key), // [C07:S1-size_of-recorded]
//@end
//@extract src/tx/optimistic/write_tx.rs :: Readable for WriteTransaction :: iter world inherent props=C07
//@contract
    ensures final(w).marks.len() == old(w).marks.len() + 1 && (exists|k: &Keyspace| #![trigger k.id] resolves(&keyspace, k) && final(w).marks.last() == (MarkG::Range { ks: k.id, all: true })), // [C07:S1-full-scan-recorded]
//@end
//@extract src/tx/optimistic/write_tx.rs :: Readable for WriteTransaction :: first_key_value world inherent props=C07
//@contract
    ensures final(w).marks.len() == old(w).marks.len() + 1 && (final(w).marks.last() matches MarkG::Range { ks, all } && all), // [C07:S1-first-recorded-as-full-scan]
//@end
//@extract src/tx/optimistic/write_tx.rs :: Readable for WriteTransaction :: last_key_value world inherent props=C07
//@contract
    ensures final(w).marks.len() == old(w).marks.len() + 1 && (final(w).marks.last() matches MarkG::Range { ks, all } && all), // [C07:S1-last-recorded-as-full-scan]
//@end
//@extract src/tx/optimistic/write_tx.rs :: WriteTransaction :: insert world props=C07
//@contract
    ensures final(w).marks.len() == old(w).marks.len() + 1 && (final(w).marks.last() matches MarkG::Conflict { ks, key: k2 } && (exists|k: &Keyspace| #![trigger k.id] resolves(&keyspace, k) && ks == k.id)), // [C07:S2-write-in-conflict-set]
//@end
//@extract src/tx/optimistic/write_tx.rs :: WriteTransaction :: remove world props=C07
//@contract
    ensures final(w).marks.len() == old(w).marks.len() + 1 && (final(w).marks.last() matches MarkG::Conflict { ks, key: k2 } && (exists|k: &Keyspace| #![trigger k.id] resolves(&keyspace, k) && ks == k.id)), // [C07:S2-write-in-conflict-set]
//@end
//@extract src/tx/optimistic/write_tx.rs :: WriteTransaction :: remove_weak world props=C07
//@contract
    ensures final(w).marks.len() == old(w).marks.len() + 1 && (final(w).marks.last() matches MarkG::Conflict { ks, key: k2 } && (exists|k: &Keyspace| #![trigger k.id] resolves(&keyspace, k) && ks == k.id)), // [C07:S2-write-in-conflict-set]
//@end

//@extract src/tx/optimistic/write_tx.rs :: Readable for WriteTransaction :: range world inherent boundmap props=C07
//@contract
    ensures final(w).marks.len() == old(w).marks.len() + 1 && (exists|lo: Bound<&K>, hi: Bound<&K>, vlo: BV, vhi: BV, k: &Keyspace| #![trigger bound_is(lo, vlo), bound_is(hi, vhi), k.id]
            call_ensures(R::start_bound, (&range,), lo) && call_ensures(R::end_bound, (&range,), hi) && bound_is(lo, vlo) && bound_is(hi, vhi)
            && resolves(&keyspace, k) && final(w).marks.last() == (MarkG::RangeB { ks: k.id, lo: vlo, hi: vhi })), // [C07:S1-range-scan-recorded-with-the-requested-bounds]
//@proof before self.inner.range(
        proof { assert(bound_is(__fjx_b1, bview(start))); assert(bound_is(__fjx_b2, bview(end))); }
//@end
/// S1+S2 for read-modify-write helpers: the key is recorded as read AND as written
pub open spec fn recorded_rmw<T: AsRef<Keyspace>>(o: World, n: World, keyspace: &T) -> bool {
    n.marks.len() == o.marks.len() + 2 && (forall|i: int| 0 <= i < o.marks.len() ==> (#[trigger] n.marks[i]) == o.marks[i])
    && exists|k: &Keyspace| #![trigger k.id] resolves(keyspace, k)
        && (n.marks[o.marks.len() as int] matches MarkG::Read { ks, key } && ks == k.id
            && n.marks[o.marks.len() as int + 1] == (MarkG::Conflict { ks: k.id, key }))
}
//@extract src/tx/optimistic/write_tx.rs :: WriteTransaction :: fetch_update world props=C07
//@contract
    ensures r is Ok ==> recorded_rmw(*old(w), *final(w), &keyspace), // [C07:S1-S2-fetch_update-recorded-as-read-and-write]
//@end
//@extract src/tx/optimistic/write_tx.rs :: WriteTransaction :: take world props=C07+C08
//@world self.fetch_update
//@contract
    ensures r is Ok ==> recorded_rmw(*old(w), *final(w), &keyspace), // [C07:S1-S2-take-recorded-as-read-and-write]
//@end
//@extract src/tx/optimistic/write_tx.rs :: WriteTransaction :: update_fetch world props=C07
//@contract
    ensures r is Ok ==> recorded_rmw(*old(w), *final(w), &keyspace), // [C07:S1-S2-update_fetch-recorded-as-read-and-write]
//@end

//@canary
} // verus!
fn main() {}
