// U-POLICY — stored form of the per-level policies (src/keyspace/config/*.rs): encode against a spec function,
// decode returns whatever policy the bytes are the stored form of (the round trip itself is decode's postcondition); the
// spec parser of spec/policy_spec.rs is a proof device only (injectivity of the stored form) (C16)
#![allow(unused_imports, unused_variables, dead_code, unused_mut, unused_parens, unreachable_code, unused_assignments)]
use vstd::prelude::*;
verus! {
//@include prelude/core.rs
//@include prelude/io.rs
//@include prelude/fjall_types.rs
//@include spec/byte_lemmas.rs
//@include prelude/paths.rs
//@include prelude/policy_types.rs
//@include spec/policy_spec.rs
//@type &[u8] => ByteCursor
//@path byteorder::LittleEndian => LittleEndian
//@path byteorder::BigEndian => BigEndian
//@broadcast byte_lemmas::group_le_len, byte_lemmas::group_le_inverse, f32_axioms::f32_bits_inverse

// ---------------------------------------------------------------- BlockSizePolicy
//@extract src/keyspace/config/block_size.rs :: EncodeConfig for crate::config::BlockSizePolicy :: encode inherent props=C16
//@contract
    requires self.wf(),
    ensures r@ == enc_policy(ee_u32(), self@), // [C16:block_size-stored-form]
//@loop 0
            invariant 0 <= it.index@ <= self@.len(), self.wf(),
                v@ == seq![self@.len() as u8] + enc_n(ee_u32(), self@, it.index@),
//@end
//@extract src/keyspace/config/block_size.rs :: DecodeConfig for crate::config::BlockSizePolicy :: decode inherent no_loop_isolation props=C16
//@contract-file fn/policy_decode_block_size.c
//@loop 0
            invariant
                bytes.rs().all == all0, stored_as(ee_u32(), s0, all0), len == s0.len(),
                0 <= it.index@ <= len, v@.len() == it.index@, forall|j: int| 0 <= j < it.index@ ==> v@[j] == s0[j],
                bytes.rs().pos == 1 + enc_n(ee_u32(), s0, it.index@).len(),
//@proof before let len
        let ghost all0 = bytes.rs().all;
        let ghost s0 = choose|s: Seq<_>| stored_as(ee_u32(), s, bytes.rs().all);
        proof { lemma_enc_at(ee_u32(), s0, 0); }
//@proof before v.push(
            proof { lemma_enc_at(ee_u32(), s0, it.index@); assert(all0.subrange(bytes.rs().pos, bytes.rs().pos + 4) == le32(s0[it.index@])); byte_lemmas::lemma_de32_le32(s0[it.index@]); }
//@proof before Ok(Self::new(v))
        proof {
            assert(v@ =~= s0);
            lemma_entry_inverses();
            assert forall|s: Seq<_>| stored_as(ee_u32(), s, all0) implies s == v@ by { lemma_stored_form_injective(ee_u32(), pe_u32(), s, s0); }
        }
//@end
// ---------------------------------------------------------------- CompressionPolicy
//@extract src/keyspace/config/compression.rs :: EncodeConfig for crate::config::CompressionPolicy :: encode inherent props=C16
//@contract
    requires self.wf(),
    ensures r@ == enc_policy(ee_comp(), self@), // [C16:compression-stored-form]
//@loop 0
            invariant 0 <= it.index@ <= self@.len(), self.wf(),
                v@ == seq![self@.len() as u8] + enc_n(ee_comp(), self@, it.index@),
//@end
//@extract src/keyspace/config/compression.rs :: DecodeConfig for crate::config::CompressionPolicy :: decode inherent no_loop_isolation props=C16
//@contract-file fn/policy_decode_compression.c
//@loop 0
            invariant
                bytes.rs().all == all0, stored_as(ee_comp(), s0, all0), len == s0.len(),
                0 <= it.index@ <= len, v@.len() == it.index@, forall|j: int| 0 <= j < it.index@ ==> v@[j] == s0[j],
                bytes.rs().pos == 1 + enc_n(ee_comp(), s0, it.index@).len(),
//@proof before let len
        let ghost all0 = bytes.rs().all;
        let ghost s0 = choose|s: Seq<_>| stored_as(ee_comp(), s, bytes.rs().all);
        proof { lemma_enc_at(ee_comp(), s0, 0); }
//@proof before v.push(
            proof { lemma_enc_at(ee_comp(), s0, it.index@); assert(ee_comp()(s0[it.index@]) == comp_bytes(s0[it.index@])); }
//@proof before Ok(Self::new(v))
        proof {
            assert(v@ =~= s0);
            lemma_entry_inverses();
            assert forall|s: Seq<_>| stored_as(ee_comp(), s, all0) implies s == v@ by { lemma_stored_form_injective(ee_comp(), pe_comp(), s, s0); }
        }
//@end
// ---------------------------------------------------------------- FilterPolicy
//@extract src/keyspace/config/filter.rs :: EncodeConfig for crate::config::FilterPolicy :: encode inherent props=C16
//@contract
    requires self.wf(),
    ensures r@ == enc_policy(ee_filter(), self@), // [C16:filter-stored-form]
//@loop 0
            invariant 0 <= it.index@ <= self@.len(), self.wf(),
                v@ == seq![self@.len() as u8] + enc_n(ee_filter(), self@, it.index@),
//@end
//@extract src/keyspace/config/filter.rs :: DecodeConfig for crate::config::FilterPolicy :: decode inherent no_loop_isolation props=C16
//@contract-file fn/policy_decode_filter.c
//@loop 0
            invariant
                bytes.rs().all == all0, stored_as(ee_filter(), s0, all0), len == s0.len(),
                0 <= it.index@ <= len, v@.len() == it.index@, forall|j: int| 0 <= j < it.index@ ==> v@[j] == s0[j],
                bytes.rs().pos == 1 + enc_n(ee_filter(), s0, it.index@).len(),
//@proof before let len
        let ghost all0 = bytes.rs().all;
        let ghost s0 = choose|s: Seq<_>| stored_as(ee_filter(), s, bytes.rs().all);
        proof { lemma_enc_at(ee_filter(), s0, 0); }
//@proof before let tag
            proof { lemma_enc_at(ee_filter(), s0, it.index@); lemma_filter_entry_at(all0, bytes.rs().pos, s0[it.index@]); }
//@proof before Ok(Self::new(v))
        proof {
            assert(v@ =~= s0);
            lemma_entry_inverses();
            assert forall|s: Seq<_>| stored_as(ee_filter(), s, all0) implies s == v@ by { lemma_stored_form_injective(ee_filter(), pe_filter(), s, s0); }
        }
//@end
// ---------------------------------------------------------------- HashRatioPolicy
//@extract src/keyspace/config/hash_ratio.rs :: EncodeConfig for crate::config::HashRatioPolicy :: encode inherent props=C16
//@contract
    requires self.wf(),
    ensures r@ == enc_policy(ee_f32(), self@), // [C16:hash_ratio-stored-form]
//@loop 0
            invariant 0 <= it.index@ <= self@.len(), self.wf(),
                v@ == seq![self@.len() as u8] + enc_n(ee_f32(), self@, it.index@),
//@end
//@extract src/keyspace/config/hash_ratio.rs :: DecodeConfig for crate::config::HashRatioPolicy :: decode inherent no_loop_isolation props=C16
//@contract-file fn/policy_decode_hash_ratio.c
//@loop 0
            invariant
                bytes.rs().all == all0, stored_as(ee_f32(), s0, all0), len == s0.len(),
                0 <= it.index@ <= len, v@.len() == it.index@, forall|j: int| 0 <= j < it.index@ ==> v@[j] == s0[j],
                bytes.rs().pos == 1 + enc_n(ee_f32(), s0, it.index@).len(),
//@proof before let len
        let ghost all0 = bytes.rs().all;
        let ghost s0 = choose|s: Seq<_>| stored_as(ee_f32(), s, bytes.rs().all);
        proof { lemma_enc_at(ee_f32(), s0, 0); }
//@proof before v.push(
            proof { lemma_enc_at(ee_f32(), s0, it.index@); assert(all0.subrange(bytes.rs().pos, bytes.rs().pos + 4) == le32(f32_bits(s0[it.index@]))); byte_lemmas::lemma_de32_le32(f32_bits(s0[it.index@])); f32_axioms::f32_bits_inverse(s0[it.index@]); }
//@proof before Ok(Self::new(v))
        proof {
            assert(v@ =~= s0);
            lemma_entry_inverses();
            assert forall|s: Seq<_>| stored_as(ee_f32(), s, all0) implies s == v@ by { lemma_stored_form_injective(ee_f32(), pe_f32(), s, s0); }
        }
//@end
// ---------------------------------------------------------------- PinningPolicy
//@extract src/keyspace/config/pinning.rs :: EncodeConfig for crate::config::PinningPolicy :: encode inherent props=C16
//@contract
    requires self.wf(),
    ensures r@ == enc_policy(ee_bool(), self@), // [C16:pinning-stored-form]
//@loop 0
            invariant 0 <= it.index@ <= self@.len(), self.wf(),
                v@ == seq![self@.len() as u8] + enc_n(ee_bool(), self@, it.index@),
//@end
//@extract src/keyspace/config/pinning.rs :: DecodeConfig for crate::config::PinningPolicy :: decode inherent no_loop_isolation props=C16
//@contract-file fn/policy_decode_pinning.c
//@loop 0
            invariant
                bytes.rs().all == all0, stored_as(ee_bool(), s0, all0), len == s0.len(),
                0 <= it.index@ <= len, v@.len() == it.index@, forall|j: int| 0 <= j < it.index@ ==> v@[j] == s0[j],
                bytes.rs().pos == 1 + enc_n(ee_bool(), s0, it.index@).len(),
//@proof before let len
        let ghost all0 = bytes.rs().all;
        let ghost s0 = choose|s: Seq<_>| stored_as(ee_bool(), s, bytes.rs().all);
        proof { lemma_enc_at(ee_bool(), s0, 0); }
//@proof before let b
            proof { lemma_enc_at(ee_bool(), s0, it.index@); assert(ee_bool()(s0[it.index@]) == seq![if s0[it.index@] { 1u8 } else { 0u8 }]); }
//@proof before Ok(Self::new(v))
        proof {
            assert(v@ =~= s0);
            lemma_entry_inverses();
            assert forall|s: Seq<_>| stored_as(ee_bool(), s, all0) implies s == v@ by { lemma_stored_form_injective(ee_bool(), pe_bool(), s, s0); }
        }
//@end
// ---------------------------------------------------------------- RestartIntervalPolicy
//@extract src/keyspace/config/restart_interval.rs :: EncodeConfig for crate::config::RestartIntervalPolicy :: encode inherent props=C16
//@contract
    requires self.wf(),
    ensures r@ == enc_policy(ee_u8(), self@), // [C16:restart_interval-stored-form]
//@loop 0
            invariant 0 <= it.index@ <= self@.len(), self.wf(),
                v@ == seq![self@.len() as u8] + enc_n(ee_u8(), self@, it.index@),
//@end
//@extract src/keyspace/config/restart_interval.rs :: DecodeConfig for crate::config::RestartIntervalPolicy :: decode inherent no_loop_isolation props=C16
//@contract-file fn/policy_decode_restart_interval.c
//@loop 0
            invariant
                bytes.rs().all == all0, stored_as(ee_u8(), s0, all0), len == s0.len(),
                0 <= it.index@ <= len, v@.len() == it.index@, forall|j: int| 0 <= j < it.index@ ==> v@[j] == s0[j],
                bytes.rs().pos == 1 + enc_n(ee_u8(), s0, it.index@).len(),
//@proof before let len
        let ghost all0 = bytes.rs().all;
        let ghost s0 = choose|s: Seq<_>| stored_as(ee_u8(), s, bytes.rs().all);
        proof { lemma_enc_at(ee_u8(), s0, 0); }
//@proof before v.push(
            proof { lemma_enc_at(ee_u8(), s0, it.index@); assert(ee_u8()(s0[it.index@]) == seq![s0[it.index@]]); }
//@proof before Ok(Self::new(v))
        proof {
            assert(v@ =~= s0);
            lemma_entry_inverses();
            assert forall|s: Seq<_>| stored_as(ee_u8(), s, all0) implies s == v@ by { lemma_stored_form_injective(ee_u8(), pe_u8(), s, s0); }
        }
//@end

//@canary
} // verus!
fn main() {}
