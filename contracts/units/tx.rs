// U-TX — transaction-local semantics (src/tx/write_tx.rs BaseTransaction): layered reads at the snapshot instant,
// local writes at increasing seqnos (last write wins)
#![feature(sized_hierarchy)]
#![allow(unused_imports, unused_variables, dead_code, unused_mut, unused_parens, unreachable_code, unused_assignments)]
use vstd::prelude::*;
use std::ops::RangeBounds;
verus! {
//@include prelude/core.rs
//@include prelude/fjall_types.rs
//@include prelude/reads.rs
//@include prelude/paths.rs
//@path lsm_tree::InternalValue => InternalValue
//@broadcast key_bytes_of_slice
//@world tree.get tree.contains_key tree.size_of tree.iter tree.range tree.prefix memtable.get self.iter

pub type World = RWorld;
pub type AnyTree = AnyTreeR;
pub struct SnapshotNonce { pub instant: SeqNo, pub id: Ghost<int> }
impl Clone for SnapshotNonce {
    #[verifier::external_body]
    fn clone(&self) -> (r: SnapshotNonce) ensures r.instant == self.instant { unimplemented!() }
}
pub struct Keyspace { pub id: InternalKeyspaceId, pub tree: AnyTree }
impl Clone for Keyspace { #[verifier::external_body] fn clone(&self) -> (r: Keyspace) ensures r == *self { unimplemented!() } }
pub open spec fn ks_ok(k: &Keyspace) -> bool { k.tree.id@ == k.id }
pub open spec fn resolves<T: AsRef<Keyspace>>(t: &T, k: &Keyspace) -> bool { call_ensures(<T as AsRef<Keyspace>>::as_ref, (t,), k) }
pub struct Database { pub dummy: u8 }
pub enum PersistMode { Buffer, SyncData, SyncAll }
pub struct Iter { pub iter: InnerIter, pub nonce: SnapshotNonce }
impl Iter {
    pub fn new(nonce: SnapshotNonce, iter: InnerIter) -> (r: Iter) ensures r.nonce == nonce && r.iter == iter { Iter { iter, nonce } }   // proved in U-READ
}
// ---- the transaction's local write set
pub struct InternalKey { pub user_key: UserKey, pub seqno: SeqNo, pub value_type: ValueType }
impl InternalKey { pub fn is_tombstone(&self) -> (r: bool) ensures r == (self.value_type == ValueType::Tombstone || self.value_type == ValueType::WeakTombstone) {
    match self.value_type { ValueType::Tombstone => true, ValueType::WeakTombstone => true, _ => false } } }
pub struct InternalValue { pub key: InternalKey, pub value: UserValue }
impl InternalValue {
    pub fn is_tombstone(&self) -> (r: bool) ensures r == (self.key.value_type == ValueType::Tombstone || self.key.value_type == ValueType::WeakTombstone) { self.key.is_tombstone() }
    #[verifier::external_body]
    pub fn from_components<K: Into<UserKey>, V: Into<UserValue>>(key: K, value: V, seqno: SeqNo, vt: ValueType) -> (r: InternalValue)
        ensures r.key.seqno == seqno, r.key.value_type == vt { unimplemented!() }
    #[verifier::external_body]
    pub fn new_tombstone<K: Into<UserKey>>(key: K, seqno: SeqNo) -> (r: InternalValue)
        ensures r.key.seqno == seqno, r.key.value_type == ValueType::Tombstone { unimplemented!() }
    #[verifier::external_body]
    pub fn new_weak_tombstone<K: Into<UserKey>>(key: K, seqno: SeqNo) -> (r: InternalValue)
        ensures r.key.seqno == seqno, r.key.value_type == ValueType::WeakTombstone { unimplemented!() }
}
pub struct LocalW { pub seqno: u64, pub vt: ValueType }
impl MemtableArc {
    // point lookup in the local write set: newest version below `seqno`
    #[verifier::external_body]
    pub fn get(&self, key: &[u8], seqno: SeqNo, Tracked(w): Tracked<&mut RWorld>) -> (r: Option<InternalValue>)
        ensures final(w).reads == old(w).reads.push(ReadEv { ks: 0, instant: seqno, scan: false, local: true }),
                lview(r) == local_get(self.id@, key@, seqno) { unimplemented!() }
}
/// the newest local version of `key` below `seqno` in a transaction's local write set (lsm-tree Memtable::get: assumed)
pub uninterp spec fn local_get(mt: int, key: Seq<u8>, seqno: u64) -> Option<(ValueType, Seq<u8>)>;
pub open spec fn lview(o: Option<InternalValue>) -> Option<(ValueType, Seq<u8>)> { match o { Some(i) => Some((i.key.value_type, i.value@)), None => None } }
pub open spec fn is_tomb(vt: ValueType) -> bool { vt == ValueType::Tombstone || vt == ValueType::WeakTombstone }
/// C08 read-your-writes: a local version decides (a tombstone means absent), otherwise the snapshot answers
pub open spec fn overlay(local: Option<(ValueType, Seq<u8>)>, snap: Option<Seq<u8>>) -> Option<Seq<u8>> {
    match local { Some(l) => if is_tomb(l.0) { None } else { Some(l.1) }, None => snap }
}
pub struct Memtable { pub dummy: u8 }
impl Memtable { #[verifier::external_body] pub fn new(id: u64) -> (r: Memtable) { unimplemented!() } }
pub struct Arc<T> { pub t: T }
impl<T> Arc<T> { pub fn new(t: T) -> (r: Arc<T>) ensures r.t == t { Arc { t } } }
pub struct LocalTable { pub ks: Ghost<u64>, pub log: Ghost<Seq<LocalW>> }
impl LocalTable {
    #[verifier::external_body]
    pub fn insert(&mut self, v: InternalValue) -> (r: (u64, u64))
        ensures final(self).ks == old(self).ks, final(self).log@ == old(self).log@.push(LocalW { seqno: v.key.seqno, vt: v.key.value_type }) { unimplemented!() }
}
// HashMap<Keyspace, Arc<Memtable>>: per-keyspace local write sets; ghost view: keyspace id -> log of local writes
pub struct TxMemtables { pub view: Ghost<Map<u64, Seq<LocalW>>>, pub ids: Ghost<Map<u64, int>> }
pub struct HashMap { pub dummy: u8 }   // crate::HashMap alias: only `HashMap::default()` is used here
impl HashMap { #[verifier::external_body] pub fn default() -> (r: TxMemtables) ensures r.view@ == Map::<u64, Seq<LocalW>>::empty() { unimplemented!() } }
impl TxMemtables {
    #[verifier::external_body]
    pub fn get(&self, k: &Keyspace) -> (r: Option<&MemtableArc>) ensures r is Some <==> self.view@.dom().contains(k.id), r matches Some(m) ==> m.id@ == self.ids@[k.id] { unimplemented!() }
    // R-HOF target of `entry(k).or_insert_with(|| Arc::new(Memtable::new(0)))`
    #[verifier::external_body]
    pub fn hof_entry_or_insert_with(&mut self, k: Keyspace, fresh: Arc<Memtable>) -> (r: &mut LocalTable)
        ensures r.ks@ == k.id, r.log@ == (if old(self).view@.dom().contains(k.id) { old(self).view@[k.id] } else { Seq::empty() }),
                final(self).view@ == old(self).view@.insert(k.id, final(r).log@) { unimplemented!() }
}
pub open spec fn opt_cloned(o: Option<&MemtableArc>) -> Option<MemtableArc> { match o { Some(m) => Some(*m), None => None } }

#[verifier::external_body]
fn ignore_tombstone_value(item: InternalValue) -> (r: Option<InternalValue>) ensures r is Some <==> !(item.key.value_type == ValueType::Tombstone || item.key.value_type == ValueType::WeakTombstone), r matches Some(i) ==> i == item { unimplemented!() }

pub struct BaseTransaction { pub db: Database, pub memtables: TxMemtables, pub nonce: SnapshotNonce, pub durability: Option<PersistMode>, pub seqno: SeqNo }
/// every read event appended between two worlds: local lookups see every local write (SeqNo::MAX), tree reads
/// happen at the transaction's snapshot instant
pub open spec fn tx_reads(o: RWorld, n: RWorld, instant: u64) -> bool {
    o.reads.len() <= n.reads.len()
    && (forall|i: int| 0 <= i < o.reads.len() ==> (#[trigger] n.reads[i]) == o.reads[i])
    && (forall|i: int| o.reads.len() <= i < n.reads.len() ==> if (#[trigger] n.reads[i]).local && !n.reads[i].scan { n.reads[i].instant == u64::MAX } else { n.reads[i].instant == instant })
}

pub open spec fn key_of<K: AsRef<[u8]>>(k: &K, b: &[u8]) -> bool { call_ensures(<K as AsRef<[u8]>>::as_ref, (k,), b) }
/// what a point read inside the transaction must answer for (keyspace id, key)
pub open spec fn tx_view(t: &BaseTransaction, ks: u64, key: Seq<u8>) -> Option<Seq<u8>> {
    overlay(if t.memtables.view@.dom().contains(ks) { local_get(t.memtables.ids@[ks], key, u64::MAX) } else { None }, snap_get(ks, key, t.nonce.instant))
}
//@extract src/tx/write_tx.rs :: Readable for BaseTransaction :: get world inherent optmap props=C08+C05
//@contract
    requires forall|k: &Keyspace| #[trigger] resolves(&keyspace, k) ==> ks_ok(k),
    ensures tx_reads(*old(w), *final(w), self.nonce.instant), // [C08:layered-read] [C05:tx-reads-at-its-own-instant]
        final(w).reads.len() > old(w).reads.len(),
        r matches Ok(v) ==> exists|k: &Keyspace, b: &[u8]| #![trigger k.id, b@] resolves(&keyspace, k) && key_of(&key, b) && oview(v) == tx_view(self, k.id, b@), // [C08:get-is-own-writes-over-snapshot]
//@end
//@extract src/tx/write_tx.rs :: Readable for BaseTransaction :: contains_key world inherent optmap props=C08+C05
//@contract
    requires forall|k: &Keyspace| #[trigger] resolves(&keyspace, k) ==> ks_ok(k),
    ensures tx_reads(*old(w), *final(w), self.nonce.instant), // [C08:layered-read] [C05:tx-reads-at-its-own-instant]
        final(w).reads.len() > old(w).reads.len(),
        r matches Ok(c) ==> exists|k: &Keyspace, b: &[u8]| #![trigger k.id, b@] resolves(&keyspace, k) && key_of(&key, b) && c == (tx_view(self, k.id, b@) is Some), // [C08:contains_key-agrees-with-get]
//@end
//@extract src/tx/write_tx.rs :: Readable for BaseTransaction :: size_of world inherent optmap props=C08+C05
//@contract
    requires forall|k: &Keyspace| #[trigger] resolves(&keyspace, k) ==> ks_ok(k),
    ensures tx_reads(*old(w), *final(w), self.nonce.instant), // [C08:layered-read] [C05:tx-reads-at-its-own-instant]
        final(w).reads.len() > old(w).reads.len(),
        r matches Ok(c) ==> exists|k: &Keyspace, b: &[u8]| #![trigger k.id, b@] resolves(&keyspace, k) && key_of(&key, b) && c == olen(tx_view(self, k.id, b@)), // [C08:size_of-agrees-with-get]
//@end
//@extract src/tx/write_tx.rs :: Readable for BaseTransaction :: iter world inherent optmap props=C08+C05
//@contract
    requires forall|k: &Keyspace| #[trigger] resolves(&keyspace, k) ==> ks_ok(k),
    ensures r.iter.at@ == self.nonce.instant && r.nonce.instant == self.nonce.instant, // [C05:tx-reads-at-its-own-instant]
        r.iter.local@ is Some ==> r.iter.local@ == Some(self.seqno), // [C08:scan-merges-local-writes-up-to-own-seqno]
        tx_reads(*old(w), *final(w), self.nonce.instant),
//@end
//@extract src/tx/write_tx.rs :: Readable for BaseTransaction :: range world inherent optmap props=C08+C05
//@contract
    requires forall|k: &Keyspace| #[trigger] resolves(&keyspace, k) ==> ks_ok(k),
    ensures r.iter.at@ == self.nonce.instant && r.nonce.instant == self.nonce.instant, // [C05:tx-reads-at-its-own-instant]
        r.iter.local@ is Some ==> r.iter.local@ == Some(self.seqno), // [C08:scan-merges-local-writes-up-to-own-seqno]
        tx_reads(*old(w), *final(w), self.nonce.instant),
//@end
//@extract src/tx/write_tx.rs :: Readable for BaseTransaction :: prefix world inherent optmap props=C08+C05
//@contract
    requires forall|k: &Keyspace| #[trigger] resolves(&keyspace, k) ==> ks_ok(k),
    ensures r.iter.at@ == self.nonce.instant && r.nonce.instant == self.nonce.instant, // [C05:tx-reads-at-its-own-instant]
        r.iter.local@ is Some ==> r.iter.local@ == Some(self.seqno), // [C08:scan-merges-local-writes-up-to-own-seqno]
        tx_reads(*old(w), *final(w), self.nonce.instant),
//@end

//@extract src/tx/write_tx.rs :: BaseTransaction :: insert props=C08
//@contract
    requires old(self).seqno < u64::MAX,   // stated bound: fewer than 2^63 writes per transaction (the counter starts at 2^63)
    ensures final(self).seqno == old(self).seqno + 1, // [C08:later-writes-win]
        final(self).memtables.view@ == old(self).memtables.view@.insert(keyspace.id,
            (if old(self).memtables.view@.dom().contains(keyspace.id) { old(self).memtables.view@[keyspace.id] } else { Seq::empty() }).push(LocalW { seqno: old(self).seqno, vt: ValueType::Value })), // [C08:local-write-recorded]
        final(self).nonce == old(self).nonce, // [C08:nothing-visible-outside]
//@end
//@extract src/tx/write_tx.rs :: BaseTransaction :: remove props=C08
//@contract
    requires old(self).seqno < u64::MAX,
    ensures final(self).seqno == old(self).seqno + 1, // [C08:later-writes-win]
        final(self).memtables.view@ == old(self).memtables.view@.insert(keyspace.id,
            (if old(self).memtables.view@.dom().contains(keyspace.id) { old(self).memtables.view@[keyspace.id] } else { Seq::empty() }).push(LocalW { seqno: old(self).seqno, vt: ValueType::Tombstone })), // [C08:local-write-recorded]
        final(self).nonce == old(self).nonce,
//@end
//@extract src/tx/write_tx.rs :: BaseTransaction :: remove_weak props=C08
//@contract
    requires old(self).seqno < u64::MAX,
    ensures final(self).seqno == old(self).seqno + 1, // [C08:later-writes-win]
        final(self).memtables.view@ == old(self).memtables.view@.insert(keyspace.id,
            (if old(self).memtables.view@.dom().contains(keyspace.id) { old(self).memtables.view@[keyspace.id] } else { Seq::empty() }).push(LocalW { seqno: old(self).seqno, vt: ValueType::WeakTombstone })), // [C08:local-write-recorded]
        final(self).nonce == old(self).nonce,
//@end
//@extract src/tx/write_tx.rs :: BaseTransaction :: new props=C08
//@contract
    ensures r.seqno == 0x8000_0000_0000_0000, // [C08:local-writes-above-committed-data]
        r.nonce == nonce, r.durability is None,
//@end

//@canary
} // verus!
fn main() {}
