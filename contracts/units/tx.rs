// U-TX — transaction-local semantics (src/tx/write_tx.rs BaseTransaction): layered reads at the snapshot instant,
// local writes at increasing seqnos (last write wins)
#![feature(sized_hierarchy)]
#![allow(unused_imports, unused_variables, dead_code, unused_mut, unused_parens, unreachable_code, unused_assignments)]
use vstd::prelude::*;
use std::ops::RangeBounds;
verus! {
//@include prelude/core.rs
//@include prelude/fjall_types.rs
//@include prelude/reads.rs
//@include prelude/paths.rs
//@path lsm_tree::InternalValue => InternalValue
//@broadcast key_bytes_of_slice
//@world batch.commit tree.get tree.contains_key tree.size_of tree.iter tree.range tree.prefix memtable.get self.iter

pub type World = RWorld;
pub type AnyTree = AnyTreeR;
pub struct SnapshotNonce { pub instant: SeqNo, pub id: Ghost<int> }
impl Clone for SnapshotNonce {
    #[verifier::external_body]
    fn clone(&self) -> (r: SnapshotNonce) ensures r.instant == self.instant { unimplemented!() }
}
pub struct Keyspace { pub id: InternalKeyspaceId, pub tree: AnyTree }
impl Clone for Keyspace { #[verifier::external_body] fn clone(&self) -> (r: Keyspace) ensures r == *self { unimplemented!() } }
pub open spec fn ks_ok(k: &Keyspace) -> bool { k.tree.id@ == k.id }
pub open spec fn resolves<T: AsRef<Keyspace>>(t: &T, k: &Keyspace) -> bool { call_ensures(<T as AsRef<Keyspace>>::as_ref, (t,), k) }
pub struct Database { pub dummy: u8 }
pub enum PersistMode { Buffer, SyncData, SyncAll }
pub struct Iter { pub iter: InnerIter, pub nonce: SnapshotNonce }
impl Iter {
    pub fn new(nonce: SnapshotNonce, iter: InnerIter) -> (r: Iter) ensures r.nonce == nonce && r.iter == iter { Iter { iter, nonce } }   // proved in U-READ
}
// ---- the transaction's local write set
pub struct InternalKey { pub user_key: UserKey, pub seqno: SeqNo, pub value_type: ValueType }
impl InternalKey { pub fn is_tombstone(&self) -> (r: bool) ensures r == (self.value_type == ValueType::Tombstone || self.value_type == ValueType::WeakTombstone) {
    match self.value_type { ValueType::Tombstone => true, ValueType::WeakTombstone => true, _ => false } } }
pub struct InternalValue { pub key: InternalKey, pub value: UserValue }
impl InternalValue {
    pub fn is_tombstone(&self) -> (r: bool) ensures r == (self.key.value_type == ValueType::Tombstone || self.key.value_type == ValueType::WeakTombstone) { self.key.is_tombstone() }
    #[verifier::external_body]
    pub fn from_components<K: Into<UserKey>, V: Into<UserValue>>(key: K, value: V, seqno: SeqNo, vt: ValueType) -> (r: InternalValue)
        ensures r.key.seqno == seqno, r.key.value_type == vt { unimplemented!() }
    #[verifier::external_body]
    pub fn new_tombstone<K: Into<UserKey>>(key: K, seqno: SeqNo) -> (r: InternalValue)
        ensures r.key.seqno == seqno, r.key.value_type == ValueType::Tombstone { unimplemented!() }
    #[verifier::external_body]
    pub fn new_weak_tombstone<K: Into<UserKey>>(key: K, seqno: SeqNo) -> (r: InternalValue)
        ensures r.key.seqno == seqno, r.key.value_type == ValueType::WeakTombstone { unimplemented!() }
}
pub struct LocalW { pub seqno: u64, pub vt: ValueType }
impl MemtableArc {
    // point lookup in the local write set: newest version below `seqno`
    #[verifier::external_body]
    pub fn get(&self, key: &[u8], seqno: SeqNo, Tracked(w): Tracked<&mut RWorld>) -> (r: Option<InternalValue>)
        ensures final(w).reads == old(w).reads.push(ReadEv { ks: 0, instant: seqno, scan: false, local: true }),
                lview(r) == local_get(self.id@, key@, seqno) { unimplemented!() }
}
/// the newest local version of `key` below `seqno` in a transaction's local write set (lsm-tree Memtable::get: assumed)
pub uninterp spec fn local_get(mt: int, key: Seq<u8>, seqno: u64) -> Option<(ValueType, Seq<u8>)>;
pub open spec fn lview(o: Option<InternalValue>) -> Option<(ValueType, Seq<u8>)> { match o { Some(i) => Some((i.key.value_type, i.value@)), None => None } }
pub open spec fn is_tomb(vt: ValueType) -> bool { vt == ValueType::Tombstone || vt == ValueType::WeakTombstone }
/// C08 read-your-writes: a local version decides (a tombstone means absent), otherwise the snapshot answers
pub open spec fn overlay(local: Option<(ValueType, Seq<u8>)>, snap: Option<Seq<u8>>) -> Option<Seq<u8>> {
    match local { Some(l) => if is_tomb(l.0) { None } else { Some(l.1) }, None => snap }
}
pub struct Memtable { pub dummy: u8 }
impl Memtable { #[verifier::external_body] pub fn new(id: u64) -> (r: Memtable) { unimplemented!() } }
pub struct Arc<T> { pub t: T }
impl<T> Arc<T> { pub fn new(t: T) -> (r: Arc<T>) ensures r.t == t { Arc { t } } }
pub struct LocalTable { pub ks: Ghost<u64>, pub log: Ghost<Seq<LocalW>> }
impl LocalTable {
    #[verifier::external_body]
    pub fn insert(&mut self, v: InternalValue) -> (r: (u64, u64))
        ensures final(self).ks == old(self).ks, final(self).log@ == old(self).log@.push(LocalW { seqno: v.key.seqno, vt: v.key.value_type }) { unimplemented!() }
}
// HashMap<Keyspace, Arc<Memtable>>: per-keyspace local write sets; ghost view: keyspace id -> log of local writes
pub struct TxMemtables { pub view: Ghost<Map<u64, Seq<LocalW>>>, pub ids: Ghost<Map<u64, int>>,
    pub content: Ghost<Seq<(u64, Seq<IV>)>> }   // (keyspace id, that keyspace's local versions in Memtable::iter order), in HashMap iteration order
pub open spec fn iv(i: InternalValue) -> IV { IV { key: i.key.user_key@, value: i.value@, vt: i.key.value_type, seqno: i.key.seqno } }
// HashMap<Keyspace, Arc<Memtable>>::into_iter: every entry once, order unspecified (some fixed order: `content`)
pub struct TxMemIntoIter { pub content: Ghost<Seq<(u64, Seq<IV>)>>, pub idx: Ghost<int> }
impl Iterator for TxMemIntoIter {
    type Item = (Keyspace, MemtableArc);
    #[verifier::external_body]
    fn next(&mut self) -> (r: Option<(Keyspace, MemtableArc)>)
        ensures final(self).content == old(self).content,
            0 <= old(self).idx@ < old(self).content@.len() ==> r is Some && r->Some_0.0.id == old(self).content@[old(self).idx@].0 && r->Some_0.1.items@ == old(self).content@[old(self).idx@].1 && final(self).idx@ == old(self).idx@ + 1,
            old(self).idx@ >= old(self).content@.len() ==> r is None && final(self).idx@ == old(self).idx@,
    { unimplemented!() }
}
impl IntoIterator for TxMemtables {
    type Item = (Keyspace, MemtableArc);
    type IntoIter = TxMemIntoIter;
    #[verifier::external_body]
    fn into_iter(self) -> (r: TxMemIntoIter) ensures r.content == self.content, r.idx@ == 0 { unimplemented!() }
}
impl TxMemtables { #[verifier::external_body] pub fn is_empty(&self) -> (r: bool) ensures r == (self.content@.len() == 0) { unimplemented!() } }
// lsm_tree::Memtable::iter: every version, ordered by user key ascending, then seqno descending (ASSUMED: lsm-tree's
// InternalKey ordering), so the versions of one key are adjacent and the newest comes first
pub struct MemIter { pub items: Ghost<Seq<IV>>, pub idx: Ghost<int> }
impl Iterator for MemIter {
    type Item = InternalValue;
    #[verifier::external_body]
    fn next(&mut self) -> (r: Option<InternalValue>)
        ensures final(self).items == old(self).items,
            0 <= old(self).idx@ < old(self).items@.len() ==> r is Some && iv(r->Some_0) == old(self).items@[old(self).idx@] && final(self).idx@ == old(self).idx@ + 1,
            old(self).idx@ >= old(self).items@.len() ==> r is None && final(self).idx@ == old(self).idx@,
    { unimplemented!() }
}
impl MemtableArc { #[verifier::external_body] pub fn iter(&self) -> (r: MemIter) ensures r.items == self.items, r.idx@ == 0 { unimplemented!() } }
impl vstd::std_specs::cmp::PartialEqSpecImpl<&Slice> for Slice {
    open spec fn obeys_eq_spec() -> bool { true }
    open spec fn eq_spec(&self, other: &&Slice) -> bool { self@ == other@ }
}
impl PartialEq<&Slice> for Slice { #[verifier::external_body] fn eq(&self, other: &&Slice) -> (r: bool) { unimplemented!() } }
// ---- the batch a transaction commits through (src/batch/mod.rs; WriteBatch::commit is proved in U-WRITE)
pub struct Item { pub keyspace: Keyspace, pub key: UserKey, pub value: UserValue, pub value_type: ValueType }
impl Item {
    // batch::Item::new asserts a non-empty key of at most 65535 bytes (a panic otherwise): not an obligation here
    #[verifier::external_body]
    pub fn new(keyspace: Keyspace, key: UserKey, value: UserValue, value_type: ValueType) -> (r: Item)
        ensures r.keyspace == keyspace, r.key@ == key@, r.value@ == value@, r.value_type == value_type { unimplemented!() }
}
pub open spec fn bitem(i: Item) -> BItemV { BItemV { ks: i.keyspace.id, key: i.key@, value: i.value@, vt: i.value_type } }
pub open spec fn bitems(v: Seq<Item>) -> Seq<BItemV> { Seq::new(v.len(), |i: int| bitem(v[i])) }
pub open spec fn dur_code(d: Option<PersistMode>) -> int { match d { None => 0, Some(PersistMode::Buffer) => 1, Some(PersistMode::SyncData) => 2, Some(PersistMode::SyncAll) => 3 } }
pub struct OwnedWriteBatch { pub data: Vec<Item>, pub durability: Option<PersistMode> }
impl OwnedWriteBatch {
    #[verifier::external_body] pub fn new(db: Database) -> (r: OwnedWriteBatch) ensures r.data@.len() == 0, r.durability is None { unimplemented!() }
    pub fn durability(self, mode: Option<PersistMode>) -> (r: OwnedWriteBatch) ensures r.data == self.data, r.durability == mode { OwnedWriteBatch { data: self.data, durability: mode } }
    #[verifier::external_body]
    pub fn commit(self, Tracked(w): Tracked<&mut RWorld>) -> (r: Result<(), Error>)
        ensures final(w).reads == old(w).reads, r is Ok ==> final(w).committed == old(w).committed.push(bitems(self.data@)) && final(w).committed_with == old(w).committed_with.push(dur_code(self.durability)),
            r is Err ==> final(w).committed == old(w).committed && final(w).committed_with == old(w).committed_with,
    { unimplemented!() }
}
/// C08: of the local versions of one keyspace (newest first within a key), exactly the FIRST of each key is committed
pub open spec fn firsts(ks: u64, s: Seq<IV>, n: int) -> Seq<BItemV> decreases n {
    if n <= 0 { Seq::empty() } else {
        let r = firsts(ks, s, n - 1);
        if n - 1 == 0 || s[n - 1].key != s[n - 2].key { r.push(BItemV { ks, key: s[n - 1].key, value: s[n - 1].value, vt: s[n - 1].vt }) } else { r }
    }
}
pub open spec fn all_firsts(c: Seq<(u64, Seq<IV>)>, n: int) -> Seq<BItemV> decreases n {
    if n <= 0 { Seq::empty() } else { all_firsts(c, n - 1) + firsts(c[n - 1].0, c[n - 1].1, c[n - 1].1.len() as int) }
}
pub struct HashMap { pub dummy: u8 }   // crate::HashMap alias: only `HashMap::default()` is used here
impl HashMap { #[verifier::external_body] pub fn default() -> (r: TxMemtables) ensures r.view@ == Map::<u64, Seq<LocalW>>::empty() { unimplemented!() } }
impl TxMemtables {
    #[verifier::external_body]
    pub fn get(&self, k: &Keyspace) -> (r: Option<&MemtableArc>) ensures r is Some <==> self.view@.dom().contains(k.id), r matches Some(m) ==> m.id@ == self.ids@[k.id] { unimplemented!() }
    // R-HOF target of `entry(k).or_insert_with(|| Arc::new(Memtable::new(0)))`
    #[verifier::external_body]
    pub fn hof_entry_or_insert_with(&mut self, k: Keyspace, fresh: Arc<Memtable>) -> (r: &mut LocalTable)
        ensures r.ks@ == k.id, r.log@ == (if old(self).view@.dom().contains(k.id) { old(self).view@[k.id] } else { Seq::empty() }),
                final(self).view@ == old(self).view@.insert(k.id, final(r).log@) { unimplemented!() }
}
pub open spec fn opt_cloned(o: Option<&MemtableArc>) -> Option<MemtableArc> { match o { Some(m) => Some(*m), None => None } }

#[verifier::external_body]
fn ignore_tombstone_value(item: InternalValue) -> (r: Option<InternalValue>) ensures r is Some <==> !(item.key.value_type == ValueType::Tombstone || item.key.value_type == ValueType::WeakTombstone), r matches Some(i) ==> i == item { unimplemented!() }

pub struct BaseTransaction { pub db: Database, pub memtables: TxMemtables, pub nonce: SnapshotNonce, pub durability: Option<PersistMode>, pub seqno: SeqNo }
/// every read event appended between two worlds: local lookups see every local write (SeqNo::MAX), tree reads
/// happen at the transaction's snapshot instant
pub open spec fn tx_reads(o: RWorld, n: RWorld, instant: u64) -> bool {
    o.reads.len() <= n.reads.len()
    && (forall|i: int| 0 <= i < o.reads.len() ==> (#[trigger] n.reads[i]) == o.reads[i])
    && (forall|i: int| o.reads.len() <= i < n.reads.len() ==> if (#[trigger] n.reads[i]).local && !n.reads[i].scan { n.reads[i].instant == u64::MAX } else { n.reads[i].instant == instant })
}

pub open spec fn key_of<K: AsRef<[u8]>>(k: &K, b: &[u8]) -> bool { call_ensures(<K as AsRef<[u8]>>::as_ref, (k,), b) }
/// what a point read inside the transaction must answer for (keyspace id, key)
pub open spec fn tx_view(t: &BaseTransaction, ks: u64, key: Seq<u8>) -> Option<Seq<u8>> {
    overlay(if t.memtables.view@.dom().contains(ks) { local_get(t.memtables.ids@[ks], key, u64::MAX) } else { None }, snap_get(ks, key, t.nonce.instant))
}
//@extract src/tx/write_tx.rs :: Readable for BaseTransaction :: get world inherent optmap props=C08+C05
//@contract
    requires forall|k: &Keyspace| #[trigger] resolves(&keyspace, k) ==> ks_ok(k),
    ensures tx_reads(*old(w), *final(w), self.nonce.instant), // [C08:layered-read] [C05:tx-reads-at-its-own-instant] [C06:tx-reads-at-its-own-instant]
        final(w).reads.len() > old(w).reads.len(),
        r matches Ok(v) ==> exists|k: &Keyspace, b: &[u8]| #![trigger k.id, b@] resolves(&keyspace, k) && key_of(&key, b) && oview(v) == tx_view(self, k.id, b@), // [C08:get-is-own-writes-over-snapshot]
//@end
//@extract src/tx/write_tx.rs :: Readable for BaseTransaction :: contains_key world inherent optmap props=C08+C05
//@contract
    requires forall|k: &Keyspace| #[trigger] resolves(&keyspace, k) ==> ks_ok(k),
    ensures tx_reads(*old(w), *final(w), self.nonce.instant), // [C08:layered-read] [C05:tx-reads-at-its-own-instant] [C06:tx-reads-at-its-own-instant]
        final(w).reads.len() > old(w).reads.len(),
        r matches Ok(c) ==> exists|k: &Keyspace, b: &[u8]| #![trigger k.id, b@] resolves(&keyspace, k) && key_of(&key, b) && c == (tx_view(self, k.id, b@) is Some), // [C08:contains_key-agrees-with-get]
//@end
//@extract src/tx/write_tx.rs :: Readable for BaseTransaction :: size_of world inherent optmap props=C08+C05
//@contract
    requires forall|k: &Keyspace| #[trigger] resolves(&keyspace, k) ==> ks_ok(k),
    ensures tx_reads(*old(w), *final(w), self.nonce.instant), // [C08:layered-read] [C05:tx-reads-at-its-own-instant] [C06:tx-reads-at-its-own-instant]
        final(w).reads.len() > old(w).reads.len(),
        r matches Ok(c) ==> exists|k: &Keyspace, b: &[u8]| #![trigger k.id, b@] resolves(&keyspace, k) && key_of(&key, b) && c == olen(tx_view(self, k.id, b@)), // [C08:size_of-agrees-with-get]
//@end
//@extract src/tx/write_tx.rs :: Readable for BaseTransaction :: iter world inherent optmap props=C08+C05
//@contract
    requires forall|k: &Keyspace| #[trigger] resolves(&keyspace, k) ==> ks_ok(k),
    ensures r.iter.at@ == self.nonce.instant && r.nonce.instant == self.nonce.instant, // [C05:tx-reads-at-its-own-instant] [C06:tx-reads-at-its-own-instant]
        r.iter.local@ is Some ==> r.iter.local@ == Some(self.seqno), // [C08:scan-merges-local-writes-up-to-own-seqno] [C05:scan-merges-local-writes-up-to-own-seqno]
        tx_reads(*old(w), *final(w), self.nonce.instant),
//@end
//@extract src/tx/write_tx.rs :: Readable for BaseTransaction :: range world inherent optmap props=C08+C05
//@contract
    requires forall|k: &Keyspace| #[trigger] resolves(&keyspace, k) ==> ks_ok(k),
    ensures r.iter.at@ == self.nonce.instant && r.nonce.instant == self.nonce.instant, // [C05:tx-reads-at-its-own-instant] [C06:tx-reads-at-its-own-instant]
        r.iter.local@ is Some ==> r.iter.local@ == Some(self.seqno), // [C08:scan-merges-local-writes-up-to-own-seqno] [C05:scan-merges-local-writes-up-to-own-seqno]
        tx_reads(*old(w), *final(w), self.nonce.instant),
//@end
//@extract src/tx/write_tx.rs :: Readable for BaseTransaction :: prefix world inherent optmap props=C08+C05
//@contract
    requires forall|k: &Keyspace| #[trigger] resolves(&keyspace, k) ==> ks_ok(k),
    ensures r.iter.at@ == self.nonce.instant && r.nonce.instant == self.nonce.instant, // [C05:tx-reads-at-its-own-instant] [C06:tx-reads-at-its-own-instant]
        r.iter.local@ is Some ==> r.iter.local@ == Some(self.seqno), // [C08:scan-merges-local-writes-up-to-own-seqno] [C05:scan-merges-local-writes-up-to-own-seqno]
        tx_reads(*old(w), *final(w), self.nonce.instant),
//@end

//@extract src/tx/write_tx.rs :: BaseTransaction :: commit world desugar_for=0 desugar_for_plain=1 props=C08+C07+C03+C09
//@contract
    ensures
        final(w).reads == old(w).reads,
        self.memtables.content@.len() == 0 ==> r is Ok && final(w).committed == old(w).committed, // [C08:empty-write-set-commits-nothing]
        // exactly the final write per key, of every keyspace written, in ONE batch
        self.memtables.content@.len() > 0 && r is Ok ==> final(w).committed == old(w).committed.push(all_firsts(self.memtables.content@, self.memtables.content@.len() as int)), // [C08:commit-applies-exactly-the-final-write-per-key-in-one-batch] [C07:commit-applies-exactly-the-final-write-per-key-in-one-batch] [C03:commit-applies-exactly-the-final-write-per-key-in-one-batch]
        r is Err ==> final(w).committed == old(w).committed, // [C08:failed-commit-applies-nothing]
        // the batch is committed with the durability level the transaction was given (C09: a transaction committed with SyncData / SyncAll is synced)
        self.memtables.content@.len() > 0 && r is Ok ==> final(w).committed_with == old(w).committed_with.push(dur_code(self.durability)), // [C09:transaction-commits-with-the-durability-it-was-given] [C02:transaction-commits-with-the-durability-it-was-given]
//@proof before let mut batch
        let ghost content = self.memtables.content@;
//@loop 0
            invariant
                *w == *old(w), __fjx_it0.content@ == content, __fjx_it0.idx@ == __fjx_n0, 0 <= __fjx_n0 <= content.len(), content == self.memtables.content@,
                bitems(batch.data@) == all_firsts(content, __fjx_n0), batch.durability == self.durability,
            ensures __fjx_n0 == content.len(),
            decreases content.len() - __fjx_n0,
//@loop 1
                invariant
                    *w == *old(w), __fjx_it0.content@ == content, __fjx_it0.idx@ == __fjx_n0, 0 < __fjx_n0 <= content.len(), content == self.memtables.content@,
                    keyspace.id == content[__fjx_n0 - 1].0, __fjx_it1.items@ == content[__fjx_n0 - 1].1, __fjx_it1.idx@ == __fjx_n1, 0 <= __fjx_n1 <= content[__fjx_n0 - 1].1.len(),
                    bitems(batch.data@) == all_firsts(content, __fjx_n0 - 1) + firsts(keyspace.id, content[__fjx_n0 - 1].1, __fjx_n1), batch.durability == self.durability,
                    __fjx_n1 == 0 ==> prev_key is None,
                    __fjx_n1 > 0 ==> prev_key is Some && prev_key->Some_0@ == content[__fjx_n0 - 1].1[__fjx_n1 - 1].key,
                ensures __fjx_n1 == content[__fjx_n0 - 1].1.len(),
                decreases content[__fjx_n0 - 1].1.len() - __fjx_n1,
//@proof before batch.data.push(
                let ghost d0 = bitems(batch.data@);
//@proof after batch.data.push(
                proof { assert(bitems(batch.data@) =~= d0.push(BItemV { ks: keyspace.id, key: iv(item).key, value: iv(item).value, vt: iv(item).vt })); }
//@end

//@extract src/tx/write_tx.rs :: BaseTransaction :: insert props=C08
//@contract
    requires old(self).seqno < u64::MAX,   // stated bound: fewer than 2^63 writes per transaction (the counter starts at 2^63)
    ensures final(self).seqno == old(self).seqno + 1, // [C08:later-writes-win]
        final(self).memtables.view@ == old(self).memtables.view@.insert(keyspace.id,
            (if old(self).memtables.view@.dom().contains(keyspace.id) { old(self).memtables.view@[keyspace.id] } else { Seq::empty() }).push(LocalW { seqno: old(self).seqno, vt: ValueType::Value })), // [C08:local-write-recorded]
        final(self).nonce == old(self).nonce, // [C08:nothing-visible-outside]
//@end
//@extract src/tx/write_tx.rs :: BaseTransaction :: remove props=C08
//@contract
    requires old(self).seqno < u64::MAX,
    ensures final(self).seqno == old(self).seqno + 1, // [C08:later-writes-win]
        final(self).memtables.view@ == old(self).memtables.view@.insert(keyspace.id,
            (if old(self).memtables.view@.dom().contains(keyspace.id) { old(self).memtables.view@[keyspace.id] } else { Seq::empty() }).push(LocalW { seqno: old(self).seqno, vt: ValueType::Tombstone })), // [C08:local-write-recorded]
        final(self).nonce == old(self).nonce,
//@end
//@extract src/tx/write_tx.rs :: BaseTransaction :: remove_weak props=C08
//@contract
    requires old(self).seqno < u64::MAX,
    ensures final(self).seqno == old(self).seqno + 1, // [C08:later-writes-win]
        final(self).memtables.view@ == old(self).memtables.view@.insert(keyspace.id,
            (if old(self).memtables.view@.dom().contains(keyspace.id) { old(self).memtables.view@[keyspace.id] } else { Seq::empty() }).push(LocalW { seqno: old(self).seqno, vt: ValueType::WeakTombstone })), // [C08:local-write-recorded]
        final(self).nonce == old(self).nonce,
//@end
//@extract src/tx/write_tx.rs :: BaseTransaction :: new props=C08
//@contract
    ensures r.seqno == 0x8000_0000_0000_0000, // [C08:local-writes-above-committed-data]
        r.nonce == nonce, r.durability is None,
//@end

// ---- read-modify-write helpers (src/tx/write_tx.rs). Rule R-REFARG: `self.get(keyspace, &key)` hands two REFERENCES to generic `AsRef`
// parameters; std resolves them through its blanket `impl<T: AsRef<U>> AsRef<U> for &T { fn as_ref(&self) -> &U { (**self).as_ref() } }`,
// which Verus cannot name. ByRef spells that impl out: a wrapper around the reference whose `as_ref` IS the referent's.
pub struct ByRef<'a, T>(pub &'a T);
impl<'a, U: ?Sized, T: AsRef<U>> AsRef<U> for ByRef<'a, T> {
    fn as_ref(&self) -> (r: &U) ensures call_ensures(<T as AsRef<U>>::as_ref, (self.0,), r) { self.0.as_ref() }
}
pub fn shim_by_ref<T>(t: &T) -> (r: ByRef<T>) ensures r.0 == t { ByRef(t) }
// src/keyspace/mod.rs `impl AsRef<Keyspace> for Keyspace { fn as_ref(&self) -> &Self { self } }`; byteview `impl AsRef<[u8]> for Slice` (the bytes)
impl AsRef<Keyspace> for Keyspace { fn as_ref(&self) -> (r: &Keyspace) ensures r == self { self } }
impl AsRef<[u8]> for Slice { #[verifier::external_body] fn as_ref(&self) -> (r: &[u8]) ensures r@ == self@ { unimplemented!() } }
/// how the local write log of keyspace `ks` may differ after a read-modify-write: untouched, or exactly one more entry of kind `vt`
pub open spec fn rmw_log(o: &BaseTransaction, n: &BaseTransaction, ks: u64, vt: ValueType) -> bool {
    n.memtables.view@ == o.memtables.view@.insert(ks, (if o.memtables.view@.dom().contains(ks) { o.memtables.view@[ks] } else { Seq::empty() }).push(LocalW { seqno: o.seqno, vt }))
}
//@extract src/tx/write_tx.rs :: BaseTransaction :: fetch_update world props=C08
//@refarg get
//@world self.get
//@contract
    requires ks_ok(keyspace), old(self).seqno < u64::MAX, forall|a: Option<&UserValue>| f.requires((a,)),
    ensures
        tx_reads(*old(w), *final(w), old(self).nonce.instant), final(self).nonce == old(self).nonce,
        // fetch_update returns what the transaction saw under the key BEFORE the update (its own earlier writes over its snapshot)
        r matches Ok(v) ==> exists|kb: UserKey| #![trigger kb@] call_ensures(<K as Into<UserKey>>::into, (key,), kb) && oview(v) == tx_view(old(self), keyspace.id, kb@), // [C08:fetch_update-returns-the-previous-value]
        // and it writes at most once: a value if the closure returned one, a tombstone if it returned None over an existing value, else nothing
        r is Ok ==> final(self).memtables.view@ == old(self).memtables.view@ || rmw_log(old(self), final(self), keyspace.id, ValueType::Value) || rmw_log(old(self), final(self), keyspace.id, ValueType::Tombstone), // [C08:rmw-writes-at-most-once]
        r is Err ==> final(self).memtables.view@ == old(self).memtables.view@, // [C08:failed-rmw-writes-nothing]
//@end

/// `Option::as_ref` as a value
pub open spec fn oref(o: &Option<UserValue>) -> Option<&UserValue> { match o { Some(x) => Some(x), None => None } }
//@extract src/tx/write_tx.rs :: BaseTransaction :: update_fetch world props=C08
//@refarg get
//@world self.get
//@contract
    requires ks_ok(keyspace), old(self).seqno < u64::MAX, forall|a: Option<&UserValue>| f.requires((a,)),
    ensures
        tx_reads(*old(w), *final(w), old(self).nonce.instant), final(self).nonce == old(self).nonce,
        // update_fetch returns the NEW value: what the closure made of the value the transaction saw under the key
        r matches Ok(v) ==> exists|kb: UserKey, pv: Option<UserValue>| #![trigger kb@, oref(&pv)] call_ensures(<K as Into<UserKey>>::into, (key,), kb)
            && oview(pv) == tx_view(old(self), keyspace.id, kb@) && exists|u: Option<UserValue>| f.ensures((oref(&pv),), u) && oview(u) == oview(v), // [C08:update_fetch-returns-the-new-value]
        r is Ok ==> final(self).memtables.view@ == old(self).memtables.view@ || rmw_log(old(self), final(self), keyspace.id, ValueType::Value) || rmw_log(old(self), final(self), keyspace.id, ValueType::Tombstone), // [C08:rmw-writes-at-most-once]
        r is Err ==> final(self).memtables.view@ == old(self).memtables.view@, // [C08:failed-rmw-writes-nothing]
//@proof before let key = key.into()
        let ghost k_in = key;
//@proof after let updated = f(
        let ghost key0 = key; let ghost prev0 = prev;
        proof { assert(call_ensures(<K as Into<UserKey>>::into, (k_in,), key0)); assert(f.ensures((oref(&prev0),), updated)); }
//@end
//@extract src/tx/write_tx.rs :: BaseTransaction :: take world props=C08
//@world self.fetch_update
//@contract
    requires ks_ok(keyspace), old(self).seqno < u64::MAX,
    ensures
        tx_reads(*old(w), *final(w), old(self).nonce.instant), final(self).nonce == old(self).nonce,
        r matches Ok(v) ==> exists|kb: UserKey| #![trigger kb@] call_ensures(<K as Into<UserKey>>::into, (key,), kb) && oview(v) == tx_view(old(self), keyspace.id, kb@), // [C08:take-returns-the-previous-value]
        r is Ok ==> final(self).memtables.view@ == old(self).memtables.view@ || rmw_log(old(self), final(self), keyspace.id, ValueType::Value) || rmw_log(old(self), final(self), keyspace.id, ValueType::Tombstone), // [C08:rmw-writes-at-most-once]
//@end

//@canary
} // verus!
fn main() {}
