// U-VERSION — version marker (src/version.rs) and Database::check_version (src/db.rs)
#![allow(unused_imports, unused_variables, dead_code, unused_mut, unused_parens, unreachable_code, unused_assignments)]
use vstd::prelude::*;
verus! {
//@include prelude/core.rs
//@include prelude/io.rs
//@include prelude/paths.rs
//@path std::io::Write => Write
//@broadcast axioms::array_slice_eq_spec, axioms::slice_array_eq_spec

//@extract-type src/version.rs :: FormatVersion derive=Clone+Copy+PartialEq+Eq
//@extract-const src/version.rs :: MAGIC_BYTES assume
//@contract
    ensures MAGIC_BYTES@ == seq![70u8, 74u8, 76u8], // ASSUMED: *b"FJL" is the ASCII of F, J, L
//@end

pub open spec fn version_byte(v: FormatVersion) -> u8 { match v { FormatVersion::V1 => 1, FormatVersion::V2 => 2, FormatVersion::V3 => 3 } }
pub open spec fn version_of_byte(b: u8) -> Result<FormatVersion, ()> {
    match b { 1u8 => Ok(FormatVersion::V1), 2u8 => Ok(FormatVersion::V2), 3u8 => Ok(FormatVersion::V3), _ => Err(()) }
}
impl vstd::std_specs::convert::FromSpecImpl<FormatVersion> for u8 {
    open spec fn obeys_from_spec() -> bool { true }
    open spec fn from_spec(v: FormatVersion) -> u8 { version_byte(v) }
}
impl vstd::std_specs::convert::TryFromSpecImpl<u8> for FormatVersion {
    open spec fn obeys_try_from_spec() -> bool { true }
    open spec fn try_from_spec(b: u8) -> Result<FormatVersion, ()> { version_of_byte(b) }
}
/// the header a directory must carry to be opened: "FJL" followed by the major version byte
pub open spec fn parse_header_spec(b: Seq<u8>) -> Option<FormatVersion> {
    if b.len() >= 4 && b.subrange(0, 3) == seq![70u8, 74u8, 76u8] && version_of_byte(b[3]) is Ok { Some(version_of_byte(b[3])->Ok_0) } else { None }
}

//@extract src/version.rs :: From<FormatVersion> for u8 :: from as_trait props=C17
//@contract
    ensures r == version_byte(value), // [C17:version-byte]
//@end
//@extract src/version.rs :: TryFrom<u8> for FormatVersion :: try_from as_trait props=C17
//@contract
    ensures r == version_of_byte(value), // [C17:version-of-byte]
//@end
//@extract src/version.rs :: FormatVersion :: parse_file_header props=C17
//@contract
    ensures r == parse_header_spec(bytes@), // [C17:header-accepted-iff]
//@end
//@extract src/version.rs :: FormatVersion :: write_file_header props=C17
//@contract
    ensures r is Ok ==> final(writer).sink() == old(writer).sink() + seq![70u8, 74u8, 76u8, version_byte(self)], // [C17:header-written]
//@end
//@canary
} // verus!
fn main() {}
