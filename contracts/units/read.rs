// U-READ — read paths (src/keyspace/mod.rs reads, src/snapshot.rs, src/iter.rs): every view reads at its own instant
#![feature(sized_hierarchy)]
#![allow(unused_imports, unused_variables, dead_code, unused_mut, unused_parens, unreachable_code, unused_assignments)]
use vstd::prelude::*;
use std::ops::RangeBounds;
verus! {
//@include prelude/core.rs
//@include prelude/fjall_types.rs
//@include prelude/reads.rs
//@include prelude/paths.rs
//@path crate::iter::Iter::new => Iter::new
//@world tree.get tree.contains_key tree.size_of tree.is_empty tree.first_key_value tree.last_key_value tree.iter tree.range tree.prefix self.iter

pub type World = RWorld;
pub type AnyTree = AnyTreeR;
// ---- handles (fields only)
pub struct SnapshotTracker { pub dummy: u8 }
pub struct SnapshotNonce { pub instant: SeqNo, pub id: Ghost<int> }
impl SnapshotTracker {
    // contract proved in U-TRACKER (fn/tracker_open.c), restated over this unit's small world: a fresh registered view
    #[verifier::external_body]
    pub fn open(&self) -> (r: SnapshotNonce) { unimplemented!() }
}
impl Clone for SnapshotNonce {
    // contract proved in U-TRACKER (fn/nonce_clone.c): same instant, one more registration
    #[verifier::external_body]
    fn clone(&self) -> (r: SnapshotNonce) ensures r.instant == self.instant { unimplemented!() }
}
pub struct Supervisor { pub snapshot_tracker: SnapshotTracker }
pub struct Keyspace { pub id: InternalKeyspaceId, pub tree: AnyTree, pub supervisor: Supervisor }
pub open spec fn ks_ok(k: &Keyspace) -> bool { k.tree.id@ == k.id }
/// what `keyspace.as_ref()` resolves to for a generic `impl AsRef<Keyspace>` argument
pub open spec fn resolves<T: AsRef<Keyspace>>(t: &T, k: &Keyspace) -> bool { call_ensures(<T as AsRef<Keyspace>>::as_ref, (t,), k) }

//@extract-type src/iter.rs :: Iter
//@extract-type src/snapshot.rs :: Snapshot

//@extract src/iter.rs :: Iter :: new props=C05
//@contract
    ensures r.nonce == nonce && r.iter == iter, // [C05:iterator-owns-its-view]
//@end
//@extract src/iter.rs :: Iterator for Iter :: next inherent optmap props=C01+C05
//@contract
    ensures final(self).iter.at == old(self).iter.at && final(self).nonce == old(self).nonce, // [C05:iterator-keeps-its-instant]
        // every item of the underlying scan is handed out exactly once, in order, and nothing else
        r is Some == (old(self).iter.todo@.len() > 0), // [C01:guards-forwarded-one-to-one]
        r matches Some(g) ==> g.0.id@ == old(self).iter.todo@[0] && final(self).iter.todo@ == old(self).iter.todo@.skip(1), // [C01:guards-forwarded-one-to-one]
        r is None ==> final(self).iter.todo == old(self).iter.todo,
//@end
//@extract src/iter.rs :: DoubleEndedIterator for Iter :: next_back inherent optmap assoc=Item:crate::Guard props=C01+C05
//@contract
    ensures final(self).iter.at == old(self).iter.at && final(self).nonce == old(self).nonce, // [C05:iterator-keeps-its-instant]
        r is Some == (old(self).iter.todo@.len() > 0), // [C01:guards-forwarded-one-to-one]
        r matches Some(g) ==> g.0.id@ == old(self).iter.todo@.last() && final(self).iter.todo@ == old(self).iter.todo@.drop_last(), // [C01:guards-forwarded-one-to-one]
        r is None ==> final(self).iter.todo == old(self).iter.todo,
//@end

/// `it` is the iterator a call of `iter()` on keyspace `ks` returned in world `o`, leaving world `n`
pub open spec fn scan_of(it: Iter, o: RWorld, n: RWorld, ks: u64) -> bool { it.iter.ks@ == ks && it.iter.at@ == it.nonce.instant && reads_only_at(o, n, it.nonce.instant) && it.iter.todo@.len() < usize::MAX }
// ---- plain keyspace reads: latest state
//@extract src/keyspace/mod.rs :: Keyspace :: get world props=C01
//@contract
    requires ks_ok(self),
    ensures point_read(*old(w), *final(w), self.id, u64::MAX), // [C01:point-read-sees-latest]
//@end
//@extract src/keyspace/mod.rs :: Keyspace :: contains_key world props=C01
//@contract
    requires ks_ok(self),
    ensures point_read(*old(w), *final(w), self.id, u64::MAX), // [C01:point-read-sees-latest]
//@end
//@extract src/keyspace/mod.rs :: Keyspace :: size_of world props=C01
//@contract
    requires ks_ok(self),
    ensures point_read(*old(w), *final(w), self.id, u64::MAX), // [C01:point-read-sees-latest]
//@end
//@extract src/keyspace/mod.rs :: Keyspace :: is_empty world props=C01
//@contract
    requires ks_ok(self),
    ensures reads_only_at(*old(w), *final(w), u64::MAX) && final(w).reads.len() == old(w).reads.len() + 1, // [C01:scan-sees-latest]
//@end
//@extract src/keyspace/mod.rs :: Keyspace :: first_key_value world optmap props=C01
//@contract
    requires ks_ok(self),
    ensures reads_only_at(*old(w), *final(w), u64::MAX) && final(w).reads.len() == old(w).reads.len() + 1, // [C01:scan-sees-latest]
//@end
//@extract src/keyspace/mod.rs :: Keyspace :: last_key_value world optmap props=C01
//@contract
    requires ks_ok(self),
    ensures reads_only_at(*old(w), *final(w), u64::MAX) && final(w).reads.len() == old(w).reads.len() + 1, // [C01:scan-sees-latest]
//@end
// ---- keyspace scans: a registered view at the visible seqno of their creation
//@extract src/keyspace/mod.rs :: Keyspace :: len world desugar_for_plain=0 props=C01
//@contract
    requires ks_ok(self),
    ensures
        // len is the number of items of ONE scan of the keyspace (each counted once), unless loading a key fails
        r is Ok ==> exists|it0: Iter| #[trigger] scan_of(it0, *old(w), *final(w), self.id) && r->Ok_0 == it0.iter.todo@.len(), // [C01:len-counts-every-item-of-one-scan-once]
//@loop 0
            invariant
                scan_of(__fjx_src0, *old(w), *w, self.id),
                0 <= count <= __fjx_src0.iter.todo@.len(), __fjx_it0.iter.todo@ =~= __fjx_src0.iter.todo@.skip(count as int),
            ensures count == __fjx_src0.iter.todo@.len(),
            decreases __fjx_it0.iter.todo@.len(),
//@proof before @loop-start 0
            proof { assert(__fjx_src0.iter.todo@.skip(count as int).skip(1) =~= __fjx_src0.iter.todo@.skip(count as int + 1)); }
//@end
//@extract src/keyspace/mod.rs :: Keyspace :: iter world props=C01+C05+C06
//@contract
    requires ks_ok(self),
    ensures r.iter.at@ == r.nonce.instant && r.iter.ks@ == self.id, // [C01:scan-reads-at-its-own-instant] [C05:scan-reads-at-its-own-instant] [C06:scan-reads-at-its-own-instant]
        reads_only_at(*old(w), *final(w), r.nonce.instant), // [C05:scan-reads-at-its-own-instant]
        r.iter.todo@.len() < usize::MAX,
//@end
//@extract src/keyspace/mod.rs :: Keyspace :: range world props=C01+C05+C06
//@contract
    requires ks_ok(self),
    ensures r.iter.at@ == r.nonce.instant && r.iter.ks@ == self.id, // [C01:scan-reads-at-its-own-instant] [C05:scan-reads-at-its-own-instant] [C06:scan-reads-at-its-own-instant]
        reads_only_at(*old(w), *final(w), r.nonce.instant), // [C05:scan-reads-at-its-own-instant]
//@end
//@extract src/keyspace/mod.rs :: Keyspace :: prefix world props=C01+C05+C06
//@contract
    requires ks_ok(self),
    ensures r.iter.at@ == r.nonce.instant && r.iter.ks@ == self.id, // [C01:scan-reads-at-its-own-instant] [C05:scan-reads-at-its-own-instant] [C06:scan-reads-at-its-own-instant]
        reads_only_at(*old(w), *final(w), r.nonce.instant), // [C05:scan-reads-at-its-own-instant]
//@end

// ---- snapshots
//@extract src/snapshot.rs :: Readable for Snapshot :: get world inherent props=C05
//@contract
    requires forall|k: &Keyspace| resolves(&keyspace, k) ==> ks_ok(k),
    ensures reads_only_at(*old(w), *final(w), self.nonce.instant) && final(w).reads.len() == old(w).reads.len() + 1, // [C05:snapshot-reads-at-its-own-instant]
//@end
//@extract src/snapshot.rs :: Readable for Snapshot :: contains_key world inherent props=C05
//@contract
    requires forall|k: &Keyspace| resolves(&keyspace, k) ==> ks_ok(k),
    ensures reads_only_at(*old(w), *final(w), self.nonce.instant) && final(w).reads.len() == old(w).reads.len() + 1, // [C05:snapshot-reads-at-its-own-instant]
//@end
//@extract src/snapshot.rs :: Readable for Snapshot :: size_of world inherent props=C05
//@contract
    requires forall|k: &Keyspace| resolves(&keyspace, k) ==> ks_ok(k),
    ensures reads_only_at(*old(w), *final(w), self.nonce.instant) && final(w).reads.len() == old(w).reads.len() + 1, // [C05:snapshot-reads-at-its-own-instant]
//@end
//@extract src/snapshot.rs :: Readable for Snapshot :: iter world inherent props=C05+C06
//@contract
    requires forall|k: &Keyspace| resolves(&keyspace, k) ==> ks_ok(k),
    ensures r.iter.at@ == self.nonce.instant && r.nonce.instant == self.nonce.instant, // [C05:snapshot-reads-at-its-own-instant] [C06:scan-reads-at-its-own-instant]
        reads_only_at(*old(w), *final(w), self.nonce.instant), // [C05:snapshot-reads-at-its-own-instant]
//@end
//@extract src/snapshot.rs :: Readable for Snapshot :: first_key_value world inherent props=C05
//@contract
    requires forall|k: &Keyspace| resolves(&keyspace, k) ==> ks_ok(k),
    ensures reads_only_at(*old(w), *final(w), self.nonce.instant), // [C05:snapshot-reads-at-its-own-instant]
//@end
//@extract src/snapshot.rs :: Readable for Snapshot :: last_key_value world inherent props=C05
//@contract
    requires forall|k: &Keyspace| resolves(&keyspace, k) ==> ks_ok(k),
    ensures reads_only_at(*old(w), *final(w), self.nonce.instant), // [C05:snapshot-reads-at-its-own-instant]
//@end
//@extract src/snapshot.rs :: Readable for Snapshot :: range world inherent props=C05+C06
//@contract
    requires forall|k: &Keyspace| resolves(&keyspace, k) ==> ks_ok(k),
    ensures r.iter.at@ == self.nonce.instant && r.nonce.instant == self.nonce.instant, // [C05:snapshot-reads-at-its-own-instant]
        reads_only_at(*old(w), *final(w), self.nonce.instant), // [C05:snapshot-reads-at-its-own-instant]
//@end
//@extract src/snapshot.rs :: Readable for Snapshot :: prefix world inherent props=C05+C06
//@contract
    requires forall|k: &Keyspace| resolves(&keyspace, k) ==> ks_ok(k),
    ensures r.iter.at@ == self.nonce.instant && r.nonce.instant == self.nonce.instant, // [C05:snapshot-reads-at-its-own-instant]
        reads_only_at(*old(w), *final(w), self.nonce.instant), // [C05:snapshot-reads-at-its-own-instant]
//@end

//@canary
} // verus!
fn main() {}
