// U-SWHELP — the single-operation helpers of a single-writer transactional keyspace (src/tx/single_writer/keyspace.rs): each one
// is a whole write transaction (write_tx takes the single-writer lock: U-SW), so it cannot interleave with an open write
// transaction -- "write transactions never overlap, so no update is lost" (C08)
#![allow(unused_imports, unused_variables, dead_code, unused_mut, unused_parens, unreachable_code, unused_assignments)]
use vstd::prelude::*;
verus! {
//@include prelude/core.rs
//@include prelude/fjall_types.rs
//@include prelude/paths.rs
//@world inner.insert inner.remove inner.remove_weak db.write_tx tx.fetch_update tx.update_fetch tx.insert tx.remove tx.remove_weak tx.commit self.fetch_update

// ---- ghost world: the write transactions this call ran, in order (each holds the single-writer lock from write_tx to commit / drop)
pub enum OpG { Insert, Remove, RemoveWeak, FetchUpdate, UpdateFetch }
pub struct TxG { pub ops: Seq<OpG>, pub finished: bool, pub committed: bool, pub result: int }
pub struct World { pub txs: Seq<TxG>, pub unlocked_writes: nat }
pub open spec fn last(w: World) -> TxG { w.txs.last() }
pub open spec fn upd_last(w: World, t: TxG) -> World { World { txs: w.txs.drop_last().push(t), ..w } }
pub struct Keyspace { pub id: InternalKeyspaceId }
impl Keyspace {
    // the plain write paths of the inner keyspace: journaled and applied WITHOUT the single-writer lock, so they can land
    // between the read and the write of somebody's open write transaction
    #[verifier::external_body]
    pub fn insert<K: Into<UserKey>, V: Into<UserValue>>(&self, key: K, value: V, Tracked(w): Tracked<&mut World>) -> (r: Result<(), Error>)
        ensures *final(w) == (World { unlocked_writes: old(w).unlocked_writes + 1, ..*old(w) }) { unimplemented!() }
    #[verifier::external_body]
    pub fn remove<K: Into<UserKey>>(&self, key: K, Tracked(w): Tracked<&mut World>) -> (r: Result<(), Error>)
        ensures *final(w) == (World { unlocked_writes: old(w).unlocked_writes + 1, ..*old(w) }) { unimplemented!() }
    #[verifier::external_body]
    pub fn remove_weak<K: Into<UserKey>>(&self, key: K, Tracked(w): Tracked<&mut World>) -> (r: Result<(), Error>)
        ensures *final(w) == (World { unlocked_writes: old(w).unlocked_writes + 1, ..*old(w) }) { unimplemented!() }
}
pub uninterp spec fn res_id(v: Option<UserValue>) -> int;    // identity of a returned value (which transaction produced it)
pub struct WriteTransaction { pub idx: Ghost<int> }
impl WriteTransaction {
    // contracts of the single-writer WriteTransaction (wrappers of BaseTransaction: U-TX), restated over this unit's log
    #[verifier::external_body]
    pub fn insert<K: Into<UserKey>, V: Into<UserValue>>(&mut self, ks: &SingleWriterTxKeyspace, key: K, value: V, Tracked(w): Tracked<&mut World>)
        requires old(w).txs.len() > 0, !last(*old(w)).finished,
        ensures *final(w) == upd_last(*old(w), TxG { ops: last(*old(w)).ops.push(OpG::Insert), ..last(*old(w)) }) { unimplemented!() }
    #[verifier::external_body]
    pub fn remove<K: Into<UserKey>>(&mut self, ks: &SingleWriterTxKeyspace, key: K, Tracked(w): Tracked<&mut World>)
        requires old(w).txs.len() > 0, !last(*old(w)).finished,
        ensures *final(w) == upd_last(*old(w), TxG { ops: last(*old(w)).ops.push(OpG::Remove), ..last(*old(w)) }) { unimplemented!() }
    #[verifier::external_body]
    pub fn remove_weak<K: Into<UserKey>>(&mut self, ks: &SingleWriterTxKeyspace, key: K, Tracked(w): Tracked<&mut World>)
        requires old(w).txs.len() > 0, !last(*old(w)).finished,
        ensures *final(w) == upd_last(*old(w), TxG { ops: last(*old(w)).ops.push(OpG::RemoveWeak), ..last(*old(w)) }) { unimplemented!() }
    #[verifier::external_body]
    pub fn fetch_update<K: Into<UserKey>, F: FnOnce(Option<&UserValue>) -> Option<UserValue>>(&mut self, ks: &SingleWriterTxKeyspace, key: K, f: F, Tracked(w): Tracked<&mut World>) -> (r: Result<Option<UserValue>, Error>)
        requires old(w).txs.len() > 0, !last(*old(w)).finished,
        ensures r is Ok ==> *final(w) == upd_last(*old(w), TxG { ops: last(*old(w)).ops.push(OpG::FetchUpdate), result: res_id(r->Ok_0), ..last(*old(w)) }),
                r is Err ==> *final(w) == *old(w) { unimplemented!() }
    #[verifier::external_body]
    pub fn update_fetch<K: Into<UserKey>, F: FnOnce(Option<&UserValue>) -> Option<UserValue>>(&mut self, ks: &SingleWriterTxKeyspace, key: K, f: F, Tracked(w): Tracked<&mut World>) -> (r: Result<Option<UserValue>, Error>)
        requires old(w).txs.len() > 0, !last(*old(w)).finished,
        ensures r is Ok ==> *final(w) == upd_last(*old(w), TxG { ops: last(*old(w)).ops.push(OpG::UpdateFetch), result: res_id(r->Ok_0), ..last(*old(w)) }),
                r is Err ==> *final(w) == *old(w) { unimplemented!() }
    // commit of a single-writer transaction: applies the write set in one batch (U-TX) and releases the lock; Err = nothing applied
    #[verifier::external_body]
    pub fn commit(self, Tracked(w): Tracked<&mut World>) -> (r: Result<(), Error>)
        requires old(w).txs.len() > 0, !last(*old(w)).finished,
        ensures *final(w) == upd_last(*old(w), TxG { finished: true, committed: r is Ok, ..last(*old(w)) }),
    { unimplemented!() }
}
pub struct SingleWriterTxDatabase { pub dummy: u8 }
impl SingleWriterTxDatabase {
    // U-SW write_tx: blocks on the single-writer lock, then a fresh transaction that holds it
    #[verifier::external_body]
    pub fn write_tx(&self, Tracked(w): Tracked<&mut World>) -> (r: WriteTransaction)
        requires old(w).txs.len() > 0 ==> last(*old(w)).finished,   // this thread holds no open write transaction (it would block on itself)
        ensures *final(w) == (World { txs: old(w).txs.push(TxG { ops: Seq::empty(), finished: false, committed: false, result: 0 }), ..*old(w) }) { unimplemented!() }
}
//@extract-type src/tx/single_writer/keyspace.rs :: SingleWriterTxKeyspace
/// the call wrote only through ONE write transaction (which held the single-writer lock), and that one committed this one operation
pub open spec fn one_locked_tx(o: World, n: World, op: OpG) -> bool {
    n.unlocked_writes == o.unlocked_writes && n.txs.len() == o.txs.len() + 1 && last(n).finished && last(n).committed && last(n).ops =~= seq![op]
    && n.txs.drop_last() =~= o.txs
}
//@extract src/tx/single_writer/keyspace.rs :: SingleWriterTxKeyspace :: insert world props=C08
//@contract
    requires old(w).txs.len() > 0 ==> last(*old(w)).finished,
    ensures r is Ok ==> one_locked_tx(*old(w), *final(w), OpG::Insert), // [C08:helper-is-one-write-transaction-under-the-single-writer-lock]
        final(w).unlocked_writes == old(w).unlocked_writes, // [C08:helper-never-writes-outside-the-single-writer-lock]
//@end
//@extract src/tx/single_writer/keyspace.rs :: SingleWriterTxKeyspace :: remove world props=C08
//@contract
    requires old(w).txs.len() > 0 ==> last(*old(w)).finished,
    ensures r is Ok ==> one_locked_tx(*old(w), *final(w), OpG::Remove), // [C08:helper-is-one-write-transaction-under-the-single-writer-lock]
        final(w).unlocked_writes == old(w).unlocked_writes, // [C08:helper-never-writes-outside-the-single-writer-lock]
//@end
//@extract src/tx/single_writer/keyspace.rs :: SingleWriterTxKeyspace :: remove_weak world props=C08
//@contract
    requires old(w).txs.len() > 0 ==> last(*old(w)).finished,
    ensures r is Ok ==> one_locked_tx(*old(w), *final(w), OpG::RemoveWeak), // [C08:helper-is-one-write-transaction-under-the-single-writer-lock]
        final(w).unlocked_writes == old(w).unlocked_writes, // [C08:helper-never-writes-outside-the-single-writer-lock]
//@end
//@extract src/tx/single_writer/keyspace.rs :: SingleWriterTxKeyspace :: fetch_update world props=C08
//@contract
    requires old(w).txs.len() > 0 ==> last(*old(w)).finished,
    ensures r is Ok ==> one_locked_tx(*old(w), *final(w), OpG::FetchUpdate) // [C08:helper-is-one-write-transaction-under-the-single-writer-lock]
            && res_id(r->Ok_0) == last(*final(w)).result, // [C08:helper-returns-what-its-own-transaction-read]
        final(w).unlocked_writes == old(w).unlocked_writes, // [C08:helper-never-writes-outside-the-single-writer-lock]
//@end
//@extract src/tx/single_writer/keyspace.rs :: SingleWriterTxKeyspace :: take world props=C08
//@contract
    requires old(w).txs.len() > 0 ==> last(*old(w)).finished,
    ensures r is Ok ==> one_locked_tx(*old(w), *final(w), OpG::FetchUpdate) // [C08:helper-is-one-write-transaction-under-the-single-writer-lock]
            && res_id(r->Ok_0) == last(*final(w)).result, // [C08:helper-returns-what-its-own-transaction-read]
        final(w).unlocked_writes == old(w).unlocked_writes, // [C08:helper-never-writes-outside-the-single-writer-lock]
//@end
//@extract src/tx/single_writer/keyspace.rs :: SingleWriterTxKeyspace :: update_fetch world props=C08
//@contract
    requires old(w).txs.len() > 0 ==> last(*old(w)).finished,
    ensures r is Ok ==> one_locked_tx(*old(w), *final(w), OpG::UpdateFetch) // [C08:helper-is-one-write-transaction-under-the-single-writer-lock]
            && res_id(r->Ok_0) == last(*final(w)).result, // [C08:helper-returns-what-its-own-transaction-read]
        final(w).unlocked_writes == old(w).unlocked_writes, // [C08:helper-never-writes-outside-the-single-writer-lock]
//@end

//@canary
} // verus!
fn main() {}
