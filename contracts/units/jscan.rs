// U-JSCAN — which files recovery takes for journals (src/journal/recovery.rs recover_journals, prefix slice: the directory scan up to
// the sort; the rest is U-JOURNALS): every entry named "<id>.jnl" is collected once with that id and its own path, nothing else is
// (C02: no journal file is skipped, C10: ids decide the order). File names are strings: their meaning is carried by uninterpreted
// functions (jname = dec ++ ".jnl") with assumed axioms; the loop, its exits and what is pushed are the real code.
#![allow(unused_imports, unused_variables, dead_code, unused_mut, unused_parens, unreachable_code, unused_assignments)]
use vstd::prelude::*;
use vstd::std_specs::iter::IteratorSpec;
verus! {
//@include prelude/core.rs
//@include prelude/fjall_types.rs
//@include prelude/paths.rs
//@path AsRef => AsRefShim
//@path std::fs::read_dir => fs_read_dir
//@path std::path::Path::new => path_of_str

pub type JournalId = u64;
pub struct CompressionTypeCfg { pub dummy: u8 }
pub type CompressionType2 = CompressionTypeCfg;
/// the decimal text of id / the text "<id>.jnl"
pub uninterp spec fn dec(id: u64) -> Seq<char>;
pub open spec fn jname(id: u64) -> Seq<char> { dec(id) + ".jnl"@ }
pub open spec fn is_jname(s: Seq<char>) -> bool { exists|id: u64| s == #[trigger] jname(id) }
pub open spec fn id_of(s: Seq<char>) -> u64 { choose|id: u64| s == #[trigger] jname(id) }
/// has the (ASCII case-insensitive) extension "jnl"
pub uninterp spec fn jnl_ext(s: Seq<char>) -> bool;
// ASSUMED: decimal rendering is injective; "<id>.jnl" has the extension jnl
#[verifier::external_body] pub broadcast proof fn axiom_dec_injective(a: u64, b: u64) ensures #[trigger] dec(a) == #[trigger] dec(b) ==> a == b { }
#[verifier::external_body] pub broadcast proof fn axiom_jname_ext(a: u64) ensures jnl_ext(#[trigger] jname(a)) { }

pub struct PathBuf { pub id: Ghost<int> }
pub struct Path { pub id: Ghost<int> }
pub trait AsRefShim<T> { spec fn pid(&self) -> int; fn as_ref(&self) -> (r: &Path) ensures r.id@ == self.pid(); }
impl AsRefShim<Path> for &PathBuf { open spec fn pid(&self) -> int { self.id@ } #[verifier::external_body] fn as_ref(&self) -> (r: &Path) { unimplemented!() } }
impl AsRefShim<Path> for PathBuf { open spec fn pid(&self) -> int { self.id@ } #[verifier::external_body] fn as_ref(&self) -> (r: &Path) { unimplemented!() } }
// one directory entry: its name, whether it is a regular file, the identity of its path
pub struct DirEntry { pub name: Ghost<Seq<char>>, pub is_file: Ghost<bool>, pub path: Ghost<int> }
pub struct FileType { pub f: bool }
impl FileType { pub fn is_file(&self) -> (r: bool) ensures r == self.f { self.f } }
pub struct OsString { pub s: Ghost<Seq<char>> }
pub struct StrS { pub s: Ghost<Seq<char>> }
pub struct ExtS { pub of: Ghost<Seq<char>> }
pub struct PathS { pub s: Ghost<Seq<char>> }
pub struct ParseIntError { pub dummy: u8 }
impl DirEntry {
    #[verifier::external_body] pub fn path(&self) -> (r: PathBuf) ensures r.id == self.path { unimplemented!() }
    #[verifier::external_body] pub fn file_type(&self) -> (r: Result<FileType, IoError>) ensures r is Ok ==> r->Ok_0.f == self.is_file@ { unimplemented!() }
    #[verifier::external_body] pub fn file_name(&self) -> (r: OsString) ensures r.s == self.name { unimplemented!() }
}
impl OsString {
    #[verifier::external_body] pub fn to_str(&self) -> (r: Option<&StrS>) ensures r matches Some(t) ==> t.s == self.s { unimplemented!() }
    #[verifier::external_body] pub fn display(&self) -> (r: u8) { unimplemented!() }
}
#[verifier::external_body] pub fn path_of_str(s: &StrS) -> (r: PathS) ensures r.s == s.s { unimplemented!() }
impl PathS { #[verifier::external_body] pub fn extension(&self) -> (r: Option<ExtS>) ensures r matches Some(e) ==> e.of == self.s, r is None ==> !jnl_ext(self.s@), { unimplemented!() } }
impl ExtS {
    // OsStr::eq_ignore_ascii_case("jnl") on the extension of a name
    #[verifier::external_body] pub fn eq_ignore_ascii_case(&self, other: &str) -> (r: bool) ensures other@ == "jnl"@ ==> r == jnl_ext(self.of@) { unimplemented!() }
}
impl PathS { pub open spec fn has_ext(&self) -> bool { true } }
impl StrS {
    // str::strip_suffix(".jnl"): Some(rest) iff the text is rest ++ ".jnl"
    #[verifier::external_body] pub fn strip_suffix(&self, suffix: &str) -> (r: Option<&StrS>) ensures r matches Some(t) ==> self.s@ == t.s@ + suffix@ { unimplemented!() }
    // str::parse::<u64>: Ok(id) iff the text is the decimal text of id
    #[verifier::external_body] pub fn parse<T>(&self) -> (r: Result<u64, ParseIntError>) ensures r matches Ok(id) ==> self.s@ == dec(id) { unimplemented!() }
}
/// what a directory listing yields (one read; recovery holds the directory lock). ASSUMED: a name with the extension jnl that is not
/// "<id>.jnl" makes the real code return InvalidFileName, an extension-less Path has no extension
pub uninterp spec fn dir_entries(path: int) -> Seq<Result<DirEntry, IoError>>;
#[verifier::external_body] pub fn fs_read_dir(p: &Path) -> (r: Result<Vec<Result<DirEntry, IoError>>, IoError>) ensures r is Ok ==> r->Ok_0@ == dir_entries(p.id@) { unimplemented!() }
pub struct RecoveryResult { pub dummy: u8 }

/// the journal files among the first n entries, in listing order: (id, path) of every entry whose name has the extension jnl
pub open spec fn frags(es: Seq<Result<DirEntry, IoError>>, n: int) -> Seq<(u64, int)> decreases n {
    if n <= 0 { Seq::empty() } else {
        let r = frags(es, n - 1);
        match es[n - 1] { Ok(e) => if jnl_ext(e.name@) { r.push((id_of(e.name@), e.path@)) } else { r }, Err(_) => r }
    }
}
pub open spec fn frag_view(v: Seq<(JournalId, PathBuf)>) -> Seq<(u64, int)> { Seq::new(v.len(), |i: int| (v[i].0, v[i].1.id@)) }

//@extract src/journal/recovery.rs :: recover_journals as=scan_journal_files desugar_for=0 optmap until=std::fs::read_dir(path) props=C02+C10
//@contract
    requires
        // ASSUMED about the directory: whatever carries the extension jnl is a regular file (the real code asserts it)
        forall|i: int| 0 <= i < dir_entries(path.pid()).len() ==> (#[trigger] dir_entries(path.pid())[i] matches Ok(e) ==> (jnl_ext(e.name@) ==> e.is_file@)),
    ensures true,
//@loop 0
            invariant
                __fjx_src0@ == dir_entries(path.id@), forall|i: int| 0 <= i < __fjx_src0@.len() ==> (#[trigger] __fjx_src0@[i] matches Ok(e) ==> (jnl_ext(e.name@) ==> e.is_file@)), __fjx_it0.remaining().len() == __fjx_src0@.len() - __fjx_n0, 0 <= __fjx_n0 <= __fjx_src0@.len(),
                forall|j: int| 0 <= j < __fjx_it0.remaining().len() ==> (#[trigger] __fjx_it0.remaining()[j]) == __fjx_src0@[__fjx_n0 + j],
                // every "<id>.jnl" entry seen so far is collected with ITS id and ITS path, in listing order, and nothing else is
                frag_view(journal_fragments@) == frags(__fjx_src0@, __fjx_n0), // [C02:every-journal-file-is-collected-with-its-own-id-and-path] [C10:every-journal-file-is-collected-with-its-own-id-and-path]
                forall|j: int| 0 <= j < journal_fragments@.len() ==> (#[trigger] journal_fragments@[j]).0 <= max_journal_id, // [C02:max-id-dominates-every-journal-found]
            ensures __fjx_n0 == __fjx_src0@.len(),
            decreases __fjx_src0@.len() - __fjx_n0,
//@proof before @loop-start 0
            proof { assert(__fjx_src0@[__fjx_n0 - 1] == dirent); }
//@proof before journal_fragments.push(
            proof {
                broadcast use axiom_dec_injective, axiom_jname_ext;
                assert(filename.s@ == jname(journal_id));
                assert(is_jname(filename.s@));
                assert(id_of(filename.s@) == journal_id) by {
                    let q = id_of(filename.s@);
                    assert(jname(q) == jname(journal_id));
                    assert(jname(q).len() == dec(q).len() + ".jnl"@.len());
                    assert(jname(journal_id).len() == dec(journal_id).len() + ".jnl"@.len());
                    assert(dec(q).len() == dec(journal_id).len());
                    assert(dec(q) =~= jname(q).subrange(0, dec(q).len() as int));
                    assert(dec(journal_id) =~= jname(journal_id).subrange(0, dec(journal_id).len() as int));
                }
            }
            let ghost f0 = frag_view(journal_fragments@);
//@proof after journal_fragments.push(
            proof { assert(frag_view(journal_fragments@) =~= f0.push((journal_id, path.id@))); }
//@proof before shim_slice_end
    proof { assert(frag_view(journal_fragments@) == frags(dir_entries(path.id@), dir_entries(path.id@).len() as int)); } // [C02:every-journal-file-is-collected-with-its-own-id-and-path]
//@end

//@canary
} // verus!
fn main() {}
