// U-OPTENC — what CreateOptions::encode_kvs stores (src/keyspace/options.rs, prefix slice: the `vec![..]` of rows; the compaction
// strategy's own rows and the blob rows after it are outside): every option is stored under its OWN name in the form its decoder
// reads back -- the policies in their stored form (U-POLICY), the scalars at full width, little endian, the flags as one byte (C16;
// `manual_journal_persist` also decides whether a recovered keyspace's writes are flushed before they are acknowledged: C02, C09).
// Together with U-OPTS (from_kvs reads every option from its own row, de64 of the first 8 bytes) and lemma L-RT-OPTS below, the
// stored options are the ones the keyspace was created with. Rules: R-VEC (vec![..] spelled out as pushes), R-MAC (policy!),
// R-METHOD (uN::to_le_bytes, which Verus cannot give a specification, -> shim with an assumed contract).
#![allow(unused_imports, unused_variables, dead_code, unused_mut, unused_parens, unreachable_code, unused_assignments)]
use vstd::prelude::*;
verus! {
//@include prelude/core.rs
//@include prelude/io.rs
//@include prelude/fjall_types.rs
//@include spec/byte_lemmas.rs
//@include prelude/paths.rs
//@include prelude/policy_types.rs
//@include spec/policy_spec.rs
//@vec-pushes
//@expand-macro src/keyspace/options.rs :: policy
//@method-shim to_le_bytes => shim_to_le_bytes
//@method-shim to_be_bytes => shim_to_be_bytes
//@broadcast byte_lemmas::group_le_len, byte_lemmas::group_le_inverse, rowlem::lemma_row_in_push

pub type PartitioningPolicy = PinningPolicy;
pub type KvPair = (UserKey, UserValue);
pub mod keyspace { pub mod config { pub trait EncodeConfig {} } }   // target of the `use` in the body (the encode methods are inherent here)
/// the key of option `name` of keyspace `id` in the meta keyspace (encode_config_key, src/meta_keyspace.rs: U-META)
pub uninterp spec fn cfg_key(id: u64, name: Seq<char>) -> Seq<u8>;
#[verifier::external_body]
pub fn encode_config_key(keyspace_id: InternalKeyspaceId, name: &str) -> (r: UserKey) ensures r@ == cfg_key(keyspace_id, name@) { unimplemented!() }
// std / byteview conversions. ASSUMED: `T: From<T>` is the identity; Slice::from(array) and Slice::from(&str) copy the bytes
impl From<[u8; 1]> for Slice { #[verifier::external_body] fn from(a: [u8; 1]) -> (r: Slice) ensures r@ == a@ { unimplemented!() } }
impl From<[u8; 8]> for Slice { #[verifier::external_body] fn from(a: [u8; 8]) -> (r: Slice) ensures r@ == a@ { unimplemented!() } }
impl From<&str> for Slice { #[verifier::external_body] fn from(a: &str) -> (r: Slice) { unimplemented!() } }
// u64::to_le_bytes (std): the 8 bytes of x, least significant first
#[verifier::external_body] pub fn shim_to_le_bytes(x: u64) -> (r: [u8; 8]) ensures r@ == le64(x) { unimplemented!() }
#[verifier::external_body] pub fn shim_to_be_bytes(x: u64) -> (r: [u8; 8]) ensures r@ == rev(le64(x)) { unimplemented!() }
pub struct Strategy { pub dummy: u8 }
impl Strategy { #[verifier::external_body] pub fn get_name(&self) -> (r: &'static str) { unimplemented!() } }
pub struct CreateOptions {
    pub level_count: u8, pub max_memtable_size: u64,
    pub data_block_hash_ratio_policy: HashRatioPolicy, pub data_block_size_policy: BlockSizePolicy,
    pub data_block_restart_interval_policy: RestartIntervalPolicy, pub index_block_restart_interval_policy: RestartIntervalPolicy,
    pub index_block_pinning_policy: PinningPolicy, pub filter_block_pinning_policy: PinningPolicy,
    pub filter_block_partitioning_policy: PartitioningPolicy, pub index_block_partitioning_policy: PartitioningPolicy,
    pub expect_point_read_hits: bool, pub filter_policy: FilterPolicy,
    pub data_block_compression_policy: CompressionPolicy, pub index_block_compression_policy: CompressionPolicy,
    pub manual_journal_persist: bool, pub compaction_strategy: Strategy,
}
impl CreateOptions {
    /// type invariant of the policy values (lsm-tree's constructors: 1..=255 entries)
    pub open spec fn wf(&self) -> bool {
        self.data_block_hash_ratio_policy.wf() && self.data_block_size_policy.wf() && self.data_block_restart_interval_policy.wf()
        && self.index_block_restart_interval_policy.wf() && self.index_block_pinning_policy.wf() && self.filter_block_pinning_policy.wf()
        && self.filter_block_partitioning_policy.wf() && self.index_block_partitioning_policy.wf() && self.filter_policy.wf()
        && self.data_block_compression_policy.wf() && self.index_block_compression_policy.wf()
    }
}
/// some row of kvs has key k and value v
pub open spec fn row_in(kvs: Seq<KvPair>, k: Seq<u8>, v: Seq<u8>) -> bool { exists|i: int| 0 <= i < kvs.len() && (#[trigger] kvs[i]).0@ == k && kvs[i].1@ =~= v }
pub mod rowlem { use vstd::prelude::*; use super::*;
pub broadcast proof fn lemma_row_in_push(s: Seq<KvPair>, x: KvPair, k: Seq<u8>, v: Seq<u8>)
    ensures #[trigger] row_in(s.push(x), k, v) == ((x.0@ == k && x.1@ =~= v) || row_in(s, k, v)),
{
    if row_in(s, k, v) { let i = choose|i: int| 0 <= i < s.len() && (#[trigger] s[i]).0@ == k && s[i].1@ =~= v; assert(s.push(x)[i] == s[i]); }
    if x.0@ == k && x.1@ =~= v { assert(s.push(x)[s.len() as int] == x); }
    if row_in(s.push(x), k, v) { let i = choose|i: int| 0 <= i < s.push(x).len() && (#[trigger] s.push(x)[i]).0@ == k && s.push(x)[i].1@ =~= v; if i < s.len() { assert(s[i] == s.push(x)[i]); } }
}
}
// ---- contracts of the encode functions: proved in U-POLICY, assumed here
//@extract src/keyspace/config/block_size.rs :: EncodeConfig for crate::config::BlockSizePolicy :: encode inherent spec_only
//@contract
    requires self.wf(),
    ensures r@ == enc_policy(ee_u32(), self@),
//@end
//@extract src/keyspace/config/compression.rs :: EncodeConfig for crate::config::CompressionPolicy :: encode inherent spec_only
//@contract
    requires self.wf(),
    ensures r@ == enc_policy(ee_comp(), self@),
//@end
//@extract src/keyspace/config/filter.rs :: EncodeConfig for crate::config::FilterPolicy :: encode inherent spec_only
//@contract
    requires self.wf(),
    ensures r@ == enc_policy(ee_filter(), self@),
//@end
//@extract src/keyspace/config/hash_ratio.rs :: EncodeConfig for crate::config::HashRatioPolicy :: encode inherent spec_only
//@contract
    requires self.wf(),
    ensures r@ == enc_policy(ee_f32(), self@),
//@end
//@extract src/keyspace/config/pinning.rs :: EncodeConfig for crate::config::PinningPolicy :: encode inherent spec_only
//@contract
    requires self.wf(),
    ensures r@ == enc_policy(ee_bool(), self@),
//@end
//@extract src/keyspace/config/restart_interval.rs :: EncodeConfig for crate::config::RestartIntervalPolicy :: encode inherent spec_only
//@contract
    requires self.wf(),
    ensures r@ == enc_policy(ee_u8(), self@),
//@end

//@extract src/keyspace/options.rs :: CreateOptions :: encode_kvs as=encode_kvs_rows until="max_memtable_size" props=C16+C02+C09
//@contract
    requires self.wf(),
    ensures true,
//@proof before shim_slice_end
    proof {
        let id = keyspace_id;
        assert(row_in(kvs@, cfg_key(id, "max_memtable_size"@), le64(self.max_memtable_size))); // [C16:max-memtable-size-stored-under-its-own-name-at-full-width-little-endian]
        assert(row_in(kvs@, cfg_key(id, "manual_journal_persist"@), seq![if self.manual_journal_persist { 1u8 } else { 0u8 }])); // [C16:manual-journal-persist-stored-under-its-own-name] [C02:manual-journal-persist-stored-under-its-own-name] [C09:manual-journal-persist-stored-under-its-own-name]
        assert(row_in(kvs@, cfg_key(id, "expect_point_read_hits"@), seq![if self.expect_point_read_hits { 1u8 } else { 0u8 }])); // [C16:expect-point-read-hits-stored-under-its-own-name]
        assert(row_in(kvs@, cfg_key(id, "level_count"@), seq![self.level_count])); // [C16:level-count-stored-under-its-own-name]
        assert(row_in(kvs@, cfg_key(id, "data_block_compression_policy"@), enc_policy(ee_comp(), self.data_block_compression_policy@))); // [C16:every-policy-stored-under-its-own-name]
        assert(row_in(kvs@, cfg_key(id, "index_block_compression_policy"@), enc_policy(ee_comp(), self.index_block_compression_policy@))); // [C16:every-policy-stored-under-its-own-name]
        assert(row_in(kvs@, cfg_key(id, "data_block_size_policy"@), enc_policy(ee_u32(), self.data_block_size_policy@))); // [C16:every-policy-stored-under-its-own-name]
        assert(row_in(kvs@, cfg_key(id, "filter_block_partitioning_policy"@), enc_policy(ee_bool(), self.filter_block_partitioning_policy@))); // [C16:every-policy-stored-under-its-own-name]
        assert(row_in(kvs@, cfg_key(id, "index_block_partitioning_policy"@), enc_policy(ee_bool(), self.index_block_partitioning_policy@))); // [C16:every-policy-stored-under-its-own-name]
        assert(row_in(kvs@, cfg_key(id, "filter_block_pinning_policy"@), enc_policy(ee_bool(), self.filter_block_pinning_policy@))); // [C16:every-policy-stored-under-its-own-name]
        assert(row_in(kvs@, cfg_key(id, "index_block_pinning_policy"@), enc_policy(ee_bool(), self.index_block_pinning_policy@))); // [C16:every-policy-stored-under-its-own-name]
        assert(row_in(kvs@, cfg_key(id, "data_block_restart_interval_policy"@), enc_policy(ee_u8(), self.data_block_restart_interval_policy@))); // [C16:every-policy-stored-under-its-own-name]
        assert(row_in(kvs@, cfg_key(id, "index_block_restart_interval_policy"@), enc_policy(ee_u8(), self.index_block_restart_interval_policy@))); // [C16:every-policy-stored-under-its-own-name]
        assert(row_in(kvs@, cfg_key(id, "data_block_hash_ratio_policy"@), enc_policy(ee_f32(), self.data_block_hash_ratio_policy@))); // [C16:every-policy-stored-under-its-own-name]
        assert(row_in(kvs@, cfg_key(id, "filter_policy"@), enc_policy(ee_filter(), self.filter_policy@))); // [C16:every-policy-stored-under-its-own-name]
    }
//@end

/// L-RT-OPTS: what encode_kvs stores for a 64-bit scalar is what from_kvs (U-OPTS: de64 of the first 8 bytes of the row) reads back
pub proof fn lemma_scalar_row_roundtrip(x: u64)
    ensures de64(le64(x).subrange(0, 8)) == x, // [C16:L-RT-OPTS-scalar-row-round-trip]
{
    broadcast use byte_lemmas::group_le_len, byte_lemmas::group_le_inverse;
    assert(le64(x).subrange(0, 8) =~= le64(x));
}

//@canary
} // verus!
fn main() {}
