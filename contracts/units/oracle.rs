// U-ORACLE — optimistic commit protocol (src/tx/optimistic/oracle.rs with_commit): validation window, one critical
// section for validate/apply/register, registration key, pruning bound, refused transactions apply nothing
#![allow(unused_imports, unused_variables, dead_code, unused_mut, unused_parens, unreachable_code, unused_assignments)]
use vstd::prelude::*;
verus! {
//@include prelude/core.rs
//@include prelude/fjall_types.rs
//@include prelude/paths.rs
//@guards write_serialize_lock.lock(
//@pure get
//@world write_serialize_lock.lock drop snapshot_tracker.get committed_txns.insert snapshot_tracker.close_raw

// ---- ghost world: the table of committed transactions (commit timestamp -> conflict set), protected by the oracle mutex
pub struct CmG { pub id: int }                                  // ghost identity of one transaction's read/conflict sets
pub uninterp spec fn conflicts(reader: CmG, writer: CmG) -> bool;   // the OCC validation predicate (ConflictManager::has_conflict)
pub struct World { pub committed: Map<u64, CmG>, pub locked: bool, pub visible: u64, pub freed: u64 }
pub struct ConflictManager { pub g: Ghost<CmG> }
impl ConflictManager {
    // ConflictManager::has_conflict (src/tx/optimistic/conflict_manager.rs): NOT under contract (BTreeSet range walks)
    #[verifier::external_body]
    pub fn has_conflict(&self, other: &ConflictManager) -> (r: bool) ensures r == conflicts(self.g@, other.g@) { unimplemented!() }
}
pub struct PoisonError { pub dummy: u8 }
pub struct Mutex<T> { pub ph: core::marker::PhantomData<T> }
pub struct BTreeMap<K, V> { pub ph: core::marker::PhantomData<(K, V)> }
pub struct MutexGuard<'a, T> { pub t: &'a mut T }
impl<'a, T> std::ops::Deref for MutexGuard<'a, T> { type Target = T; fn deref(&self) -> &T { self.t } }
impl<'a, T> std::ops::DerefMut for MutexGuard<'a, T> { fn deref_mut(&mut self) -> (r: &mut T) ensures *r == *old(self).t, *final(self).t == *final(r) { self.t } }
impl Mutex<BTreeMap<u64, ConflictManager>> {
    #[verifier::external_body]
    pub fn lock(&self, Tracked(w): Tracked<&mut World>) -> (r: Result<MutexGuard<'_, BTreeMap<u64, ConflictManager>>, PoisonError>)
        requires !old(w).locked,
        ensures r is Ok ==> *final(w) == (World { locked: true, ..*old(w) }), r is Err ==> *final(w) == *old(w),
    { unimplemented!() }
}
pub trait ShimDrop { spec fn drop_pre(&self, w: World) -> bool; spec fn drop_post(&self, o: World, n: World) -> bool; }
impl<'a> ShimDrop for MutexGuard<'a, BTreeMap<u64, ConflictManager>> {
    open spec fn drop_pre(&self, w: World) -> bool { w.locked }
    open spec fn drop_post(&self, o: World, n: World) -> bool { n == (World { locked: false, ..o }) }
}
#[verifier::external_body]
pub fn drop<T: ShimDrop>(t: T, Tracked(w): Tracked<&mut World>) requires t.drop_pre(*old(w)), ensures t.drop_post(*old(w), *final(w)), { unimplemented!() }
pub struct RangeFromU64 { pub start: u64 }
impl BTreeMap<u64, ConflictManager> {
    // S4 (C07): the table is read and written only inside the oracle's critical section
    // R-ANY targets: the entries with key >= r.start, in key order
    #[verifier::external_body]
    pub fn hof_range_len(&self, r: &std::ops::RangeFrom<u64>, Tracked(w): Tracked<&mut World>) -> (n: usize)
        requires old(w).locked, // [C07:S4-table-under-oracle-mutex]
        ensures *final(w) == *old(w), n == keys_from(old(w).committed, r.start).len(),
    { unimplemented!() }
    #[verifier::external_body]
    pub fn hof_range_at(&self, r: &std::ops::RangeFrom<u64>, i: usize, Tracked(w): Tracked<&mut World>) -> (e: (&u64, &ConflictManager))
        requires old(w).locked, i < keys_from(old(w).committed, r.start).len(),
        ensures *final(w) == *old(w), *e.0 == keys_from(old(w).committed, r.start)[i as int], e.1.g@ == old(w).committed[*e.0],
    { unimplemented!() }
    // R-RETAIN targets
    #[verifier::external_body]
    pub fn hof_keys(&self, Tracked(w): Tracked<&mut World>) -> (ks: Vec<u64>)
        requires old(w).locked, // [C07:S4-table-under-oracle-mutex]
        ensures *final(w) == *old(w), ks@.no_duplicates(), forall|k: u64| ks@.contains(k) <==> old(w).committed.dom().contains(k),
    { unimplemented!() }
    #[verifier::external_body]
    pub fn hof_retain_key(&mut self, k: u64, keep: bool, Tracked(w): Tracked<&mut World>)
        requires old(w).locked, old(w).committed.dom().contains(k),
        ensures *final(w) == (World { committed: if keep { old(w).committed } else { old(w).committed.remove(k) }, ..*old(w) }),
    { unimplemented!() }
    #[verifier::external_body]
    pub fn insert(&mut self, ts: u64, cm: ConflictManager, Tracked(w): Tracked<&mut World>) -> (r: Option<ConflictManager>)
        requires old(w).locked, // [C07:S4-table-under-oracle-mutex]
        ensures *final(w) == (World { committed: old(w).committed.insert(ts, cm.g@), ..*old(w) }),
    { unimplemented!() }
}
/// the keys >= lo of the table, ascending (BTreeMap::range)
pub uninterp spec fn keys_from(m: Map<u64, CmG>, lo: u64) -> Seq<u64>;
pub broadcast axiom fn keys_from_spec(m: Map<u64, CmG>, lo: u64, k: u64)
    ensures #[trigger] keys_from(m, lo).contains(k) <==> (m.dom().contains(k) && k >= lo);
pub struct SnapshotTracker { pub dummy: u8 }
impl SnapshotTracker {
    // contracts proved in U-TRACKER (get_seqno_safe_to_gc) / one-line accessor (get = visible seqno), over this unit's world
    #[verifier::external_body]
    pub fn get_seqno_safe_to_gc(&self, Tracked(w): Tracked<&mut World>) -> (r: u64) ensures *final(w) == *old(w), r == old(w).freed { unimplemented!() }
    #[verifier::external_body]
    pub fn get(&self, Tracked(w): Tracked<&mut World>) -> (r: u64) ensures *final(w) == *old(w), r == old(w).visible { unimplemented!() }
    // P-REG (C05): unregistering an instant is the privilege of the view that registered it (SnapshotNonce::drop, proved in
    // U-TRACKER). Nothing in this unit owns a registration: the transaction's nonce is alive during commit and unregisters
    // itself on drop, so any call from here unregisters some live view a second time (finding D2)
    #[verifier::external_body]
    pub fn close_raw(&self, instant: u64, Tracked(w): Tracked<&mut World>)
        requires false, // [C05:P-REG-unregister-only-by-the-owning-view]
        ensures *final(w) == *old(w),
    { unimplemented!() }
}

//@extract-type src/tx/optimistic/oracle.rs :: CommitOutcome
//@extract-type src/tx/optimistic/oracle.rs :: Oracle

/// S3 (C07): the transaction is validated against every transaction committed after its snapshot instant
pub open spec fn must_refuse(w: World, instant: u64, me: CmG) -> bool {
    exists|ts: u64| #![trigger w.committed[ts]] w.committed.dom().contains(ts) && ts > instant && conflicts(me, w.committed[ts])
}

//@extract src/tx/optimistic/oracle.rs :: Oracle :: with_commit world props=C07+C05
//@contract
    requires !old(w).locked, instant < u64::MAX,
        // S7: the apply closure may be called only for a transaction that passed validation
        !must_refuse(*old(w), instant, conflict_checker.g@) ==> f.requires(()), // [C07:S7-refused-transaction-applies-nothing]
        // the apply step (BaseTransaction::commit) publishes under the journal lock: it may advance the visible seqno
        forall|res: Result<(), E>| f.ensures((), res) ==> true,
    ensures
        !final(w).locked, // [C07:S4-one-critical-section]
        r matches Ok(CommitOutcome::Conflicted) <==> (r is Ok && must_refuse(*old(w), instant, conflict_checker.g@)), // [C07:S3-validated-against-all-later-commits]
        r matches Ok(CommitOutcome::Ok) ==> final(w).committed.dom().contains(final(w).visible) && final(w).committed[final(w).visible] == conflict_checker.g@, // [C07:registered-at-its-commit-timestamp]
        // S6: pruning never removes an entry a live or future transaction may still be validated against
        forall|ts: u64| #[trigger] old(w).committed.dom().contains(ts) && ts > old(w).freed ==> final(w).committed.dom().contains(ts) && (ts != final(w).visible ==> final(w).committed[ts] == old(w).committed[ts]), // [C07:S6-pruning-bounded-by-gc-watermark]
//@loop 0
                invariant
                    w.locked, *w == (World { locked: true, ..*old(w) }), __fjx_len == keys_from(w.committed, __fjx_r.start).len(), __fjx_r.start == instant + 1,
                    0 <= __fjx_j <= __fjx_len,
                    __fjx_found ==> must_refuse(*old(w), instant, conflict_checker.g@),
                    !__fjx_found ==> forall|i: int| 0 <= i < __fjx_j ==> !conflicts(conflict_checker.g@, w.committed[#[trigger] keys_from(w.committed, __fjx_r.start)[i]]),
                decreases __fjx_len - __fjx_j,
//@loop 1
                invariant
                    w.locked, __fjx_i <= __fjx_keys.len(), w.visible == old(w).visible, w.freed == old(w).freed,
                    forall|k: u64| #[trigger] w.committed.dom().contains(k) ==> old(w).committed.dom().contains(k) && w.committed[k] == old(w).committed[k],
                    forall|k: u64| #[trigger] old(w).committed.dom().contains(k) && k > safe_to_gc ==> w.committed.dom().contains(k),
                    forall|i: int| __fjx_i <= i < __fjx_keys.len() ==> w.committed.dom().contains(#[trigger] __fjx_keys@[i]),
                    __fjx_keys@.no_duplicates(), safe_to_gc == old(w).freed,
                decreases __fjx_keys.len() - __fjx_i,
//@proof after let conflicted
        proof {
            let ks = keys_from(w.committed, (instant + 1) as u64);
            if !conflicted {
                assert forall|ts: u64| #![trigger w.committed[ts]] w.committed.dom().contains(ts) && ts > instant implies !conflicts(conflict_checker.g@, w.committed[ts]) by {
                    keys_from_spec(w.committed, (instant + 1) as u64, ts);
                    assert(ks.contains(ts));
                    let i = choose|i: int| 0 <= i < ks.len() && ks[i] == ts;
                    assert(!conflicts(conflict_checker.g@, w.committed[ks[i]]));
                }
                assert(!must_refuse(*old(w), instant, conflict_checker.g@));
            }
        }
//@proof after hof_range_at
                proof {
                    if conflicts(conflict_checker.g@, other_conflict_checker.g@) {
                        keys_from_spec(w.committed, __fjx_r.start, *_ts);
                        assert(old(w).committed.dom().contains(*_ts) && *_ts > instant);
                        assert(conflicts(conflict_checker.g@, old(w).committed[*_ts]));
                        assert(must_refuse(*old(w), instant, conflict_checker.g@));
                    }
                }
//@proof after hof_keys
            proof {
                assert forall|i: int| 0 <= i < __fjx_keys.len() implies w.committed.dom().contains(#[trigger] __fjx_keys@[i]) by { assert(__fjx_keys@.contains(__fjx_keys@[i])); }
            }
//@proof before @loop-start 0
                    proof {
                        let ks = keys_from(w.committed, __fjx_r.start);
                        assert(ks.contains(ks[__fjx_j as int]));
                    }
//@proof before @loop-start 1
                    proof {
                        assert(__fjx_keys@.contains(__fjx_keys@[__fjx_i as int]));
                        assert forall|i: int| __fjx_i < i < __fjx_keys.len() implies __fjx_keys@[i] != __fjx_keys@[__fjx_i as int] by {}
                    }
//@end

//@canary
} // verus!
fn main() {}
