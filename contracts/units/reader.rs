// U-READER — journal readers (src/journal/reader.rs, src/journal/batch_reader.rs)
#![allow(unused_imports, unused_variables, dead_code, unused_mut, unused_parens, unreachable_code, unused_assignments)]
use vstd::prelude::*;
//@expand-macro src/lib.rs :: fail_iter
verus! {
//@include prelude/core.rs
//@include prelude/io.rs
//@include prelude/fjall_types.rs
//@include prelude/fs_read.rs
//@include prelude/xxh3.rs
//@include spec/byte_lemmas.rs
//@include spec/journal_format.rs
//@include spec/ops.rs
//@include spec/batch_format.rs
//@include prelude/paths.rs
//@broadcast axioms::array_slice_eq_spec, lz4_axioms::lz4_bound, byte_lemmas::group_le_len
//@world *.set_len *.sync_all *.open *.truncate_file *.maybe_truncate_file_to_last_valid_pos reader.next *.on_close *.truncate_to

//@extract-type src/journal/entry.rs :: Tag
//@extract-type src/journal/entry.rs :: Entry
//@extract-type src/journal/reader.rs :: JournalReader
//@include spec/reader_spec.rs

// contracts proved in U-CODEC, assumed here
//@extract src/journal/entry.rs :: Entry :: encode_into spec_only
//@contract-file fn/entry_encode_into.c
//@end
//@extract src/journal/entry.rs :: Entry :: decode_from spec_only
//@contract-file fn/entry_decode_from.c
//@end

//@extract src/journal/reader.rs :: JournalReader :: truncate_file world props=C03+C02+C09
//@contract-file fn/jreader_truncate_file.c
//@end

//@extract src/journal/reader.rs :: JournalReader :: maybe_truncate_file_to_last_valid_pos world props=C03+C02+C09
//@contract-file fn/jreader_maybe_truncate.c
//@end

//@extract src/journal/reader.rs :: Iterator for JournalReader :: next world inherent props=C03+C02+C15
//@contract-file fn/jreader_next.c
//@end

//@extract-type src/journal/batch_reader.rs :: ReadBatchItem
//@extract-type src/journal/batch_reader.rs :: Batch
//@extract-type src/journal/batch_reader.rs :: JournalBatchReader
//@include spec/batch_reader_spec.rs
//@include spec/roundtrip.rs

//@extract src/journal/batch_reader.rs :: JournalBatchReader :: truncate_to world props=C03+C02+C09
//@contract-file fn/breader_truncate_to.c
//@end

//@extract src/journal/batch_reader.rs :: JournalBatchReader :: on_close world props=C03+C02+C09+C15
//@contract-file fn/breader_on_close.c
//@end

//@extract src/journal/batch_reader.rs :: Iterator for JournalBatchReader :: next world inherent props=C03+C02+C15+C09
//@contract-file fn/breader_next.c
//@loop 0
            invariant
                self.wf(), self.reader.same_file(&old(self).reader), w.io_faults == old(w).io_faults,
                *w == *old(w),
                self.last_valid_pos == old(self).last_valid_pos,
                br_run(self.state(), self.reader.all(), self.reader.pos()) == br_run(old(self).state(), old(self).reader.all(), old(self).reader.pos()),
            decreases self.reader.all().len() - self.reader.pos(),
//@proof before self.reader.next
            let ghost s0 = self.state();
            let ghost p0 = self.reader.pos();
//@proof after self.items.push
                    proof {
                        assert(bytes@ =~= enc_item(keyspace_id, key@, value@, value_type, compression));
                        assert(self.state().items =~= s0.items.push(ItemV { keyspace_id, key: key@, value: value@, value_type }));
                    }
//@proof after std::mem::take(&mut self.cleared_keyspaces)
                    proof {
                        assert(self.state().items =~= Seq::<ItemV>::empty());
                        assert(self.state().cleared =~= Seq::<u64>::empty());
                        assert(self.state().acc =~= Seq::<u8>::empty());
                    }
//@end

//@canary
} // verus!
fn main() {}
