// U-METAKS — MetaKeyspace::create_keyspace / remove_keyspace (src/meta_keyspace.rs): the keyspace dictionary changes only
// under its write lock and only after the meta rows are stored (C12, C16); both functions change the version of the META
// tree (ingestion, compaction) and remove_keyspace advances the shared visible seqno -- rule P-VIS says where that is allowed (C06).
// NOT under contract here: the byte-level construction of the meta keys (R-ABS statements below; Verus cannot specify
// u64::to_be_bytes / Vec::extend) -- the rows are identified by (keyspace id, kind) only.
#![allow(unused_imports, unused_variables, dead_code, unused_mut, unused_parens, unreachable_code, unused_assignments)]
use vstd::prelude::*;
use vstd::std_specs::iter::IteratorSpec;
verus! {
//@include prelude/core.rs
//@include prelude/fjall_types.rs
//@include prelude/paths.rs
//@type RwLockWriteGuard<'_,Keyspaces> => KsWriteGuard
//@guards keyspaces.write() keyspaces.read() param:keyspaces
//@world .remove .next keyspaces.write keyspaces.read lock.get seqno_generator.next inner.ingestion ingestion.write ingestion.finish visible_seqno.fetch_max lock.remove keyspaces.insert self.maintenance shim_write_tombstones shim_name_row drop

/// one row of the meta tree, as far as this unit looks: whose it is and whether it is a tombstone
pub struct RowG { pub key: Seq<u8>, pub value: Seq<u8>, pub tomb: bool }
pub struct World {
    pub journal_locked: bool,          // the journal mutex is held by the thread under analysis
    pub recovering: bool,
    pub ks_wlocked: bool,              // the keyspace dictionary's write lock is held by the thread under analysis
    pub ks_rlocked: bool,              // ... its read lock (shared with other readers, e.g. batches applying their items)
    pub dict: Map<Seq<char>, u64>,     // the keyspace dictionary (name -> id)
    pub seqno: nat, pub visible: nat,  // the shared counters
    pub staged: Seq<RowG>,             // rows written into the open meta ingestion, in order
    pub meta_rows: Seq<RowG>,          // rows stored in the meta tree (ingestions finished), in order
    pub tombs_staged_for: Seq<u64>,    // keyspace ids whose config + name rows got tombstones in the open ingestion
    pub tombs_for: Seq<u64>,           // ... in finished ingestions
    pub version_changes: nat,          // version changes of the meta tree (each advances the shared visible seqno)
}
/// P-VIS (C06): the shared visible seqno may only advance while no batch can be half applied, i.e. inside the journal
/// critical section (or during recovery, when there are no writers)
pub open spec fn vis_ok(w: World) -> bool { w.journal_locked || w.recovering }

pub struct StrView { pub s: Ghost<Seq<char>> }
pub type KeyspaceKey = StrView;
impl vstd::std_specs::convert::FromSpecImpl<&str> for StrView {
    open spec fn obeys_from_spec() -> bool { true }
    open spec fn from_spec(s: &str) -> StrView { StrView { s: Ghost(s@) } }
}
impl From<&str> for StrView { #[verifier::external_body] fn from(s: &str) -> (r: StrView) { unimplemented!() } }

pub struct CreateOptions { pub id: Ghost<int> }
pub uninterp spec fn kvs_of(c: CreateOptions, id: u64) -> Seq<RowG>;   // CreateOptions::encode_kvs (U-POLICY / U-OPTS)
// Keyspace = Arc<KeyspaceInner> (deref): only `id` and `config` are used here
pub struct Keyspace { pub id: InternalKeyspaceId, pub config: CreateOptions }
pub struct KsLock { pub dummy: u8 }
pub struct KsLockResult { pub dummy: u8 }
pub struct KsWriteGuard { pub dummy: u8 }
impl KsLock {
    // RwLock::write on the keyspace dictionary: blocks until no reader (a batch applying its items) and no writer holds it
    #[verifier::external_body]
    pub fn write(&self, Tracked(w): Tracked<&mut World>) -> (r: KsLockResult)
        requires !old(w).ks_wlocked && !old(w).ks_rlocked,
        ensures *final(w) == (World { ks_wlocked: true, ..*old(w) }),
    { unimplemented!() }
}
pub struct KsReadLockResult { pub dummy: u8 }
pub struct KsReadGuard { pub dummy: u8 }
impl KsLock {
    // RwLock::read on the keyspace dictionary: shared with the batches that are applying their items
    #[verifier::external_body]
    pub fn read(&self, Tracked(w): Tracked<&mut World>) -> (r: KsReadLockResult)
        requires !old(w).ks_wlocked,
        ensures *final(w) == (World { ks_rlocked: true, ..*old(w) }),
    { unimplemented!() }
}
impl KsReadLockResult { #[verifier::external_body] pub fn expect(self, msg: &str) -> (r: KsReadGuard) { unimplemented!() } }
impl KsReadGuard {
    #[verifier::external_body]
    pub fn get(&self, name: &str, Tracked(w): Tracked<&mut World>) -> (r: Option<&Keyspace>)
        requires old(w).ks_rlocked,
        ensures *final(w) == *old(w), r is Some == old(w).dict.dom().contains(name@), r matches Some(k) ==> k.id == old(w).dict[name@],
    { unimplemented!() }
}
impl ShimDrop for KsReadGuard {
    open spec fn drop_pre(&self, w: World) -> bool { w.ks_rlocked }
    open spec fn drop_post(&self, o: World, n: World) -> bool { n == (World { ks_rlocked: false, ..o }) }
}
impl KsLockResult { #[verifier::external_body] pub fn expect(self, msg: &str) -> (r: KsWriteGuard) { unimplemented!() } }
impl KsWriteGuard {
    #[verifier::external_body]
    pub fn get(&self, name: &str, Tracked(w): Tracked<&mut World>) -> (r: Option<&Keyspace>)
        requires old(w).ks_wlocked,
        ensures *final(w) == *old(w), r is Some == old(w).dict.dom().contains(name@), r matches Some(k) ==> k.id == old(w).dict[name@],
    { unimplemented!() }
    // the dictionary changes only through the write guard
    #[verifier::external_body]
    pub fn remove(&mut self, name: &str, Tracked(w): Tracked<&mut World>) -> (r: Option<Keyspace>)
        requires old(w).ks_wlocked,
        ensures *final(w) == (World { dict: old(w).dict.remove(name@), ..*old(w) }),
    { unimplemented!() }
    #[verifier::external_body]
    pub fn insert(&mut self, name: StrView, k: Keyspace, Tracked(w): Tracked<&mut World>) -> (r: Option<Keyspace>)
        requires old(w).ks_wlocked,
        ensures *final(w) == (World { dict: old(w).dict.insert(name.s@, k.id), ..*old(w) }),
    { unimplemented!() }
}
pub trait ShimDrop { spec fn drop_pre(&self, w: World) -> bool; spec fn drop_post(&self, o: World, n: World) -> bool; }
impl ShimDrop for KsWriteGuard {
    open spec fn drop_pre(&self, w: World) -> bool { w.ks_wlocked }
    open spec fn drop_post(&self, o: World, n: World) -> bool { n == (World { ks_wlocked: false, ..o }) }
}
#[verifier::external_body]
pub fn drop<T: ShimDrop>(t: T, Tracked(w): Tracked<&mut World>) requires t.drop_pre(*old(w)), ensures t.drop_post(*old(w), *final(w)), { unimplemented!() }

pub struct SequenceNumberCounter { pub which: Ghost<int> }   // 0 = the seqno generator, 1 = the visible seqno
impl SequenceNumberCounter {
    #[verifier::external_body]
    pub fn next(&self, Tracked(w): Tracked<&mut World>) -> (r: u64)
        requires self.which@ == 0,
        ensures r == old(w).seqno, r < u64::MAX, *final(w) == (World { seqno: old(w).seqno + 1, ..*old(w) }),   // ASSUMED: seqnos never reach u64::MAX
    { unimplemented!() }
    #[verifier::external_body]
    pub fn fetch_max(&self, v: u64, Tracked(w): Tracked<&mut World>) -> (r: u64)
        requires self.which@ == 1,
            // a batch applies its items under the dictionary READ lock: while the write lock is held no batch is inside its apply loop
            // (stated before P-VIS: a failed clause is assumed for the ones after it)
            vis_ok(*old(w)) || old(w).ks_wlocked, // [C06:publish-excludes-batches-inside-their-apply-loop]
            vis_ok(*old(w)), // [C06:P-VIS-advance-under-lock]
        ensures *final(w) == (World { visible: if v > old(w).visible { v as nat } else { old(w).visible }, ..*old(w) }),
    { unimplemented!() }
}

// lsm-tree AnyTree of the meta keyspace and its bulk ingestion
pub struct AnyTree { pub dummy: u8 }
pub struct MetaIngestion { pub dummy: u8 }
impl AnyTree {
    #[verifier::external_body]
    pub fn ingestion(&self, Tracked(w): Tracked<&mut World>) -> (r: Result<MetaIngestion, lsm_tree::Error>)
        ensures r is Ok ==> *final(w) == (World { staged: Seq::empty(), tombs_staged_for: Seq::empty(), ..*old(w) }), r is Err ==> *final(w) == *old(w),
    { unimplemented!() }
}
impl MetaIngestion {
    #[verifier::external_body]
    pub fn write(&mut self, k: UserKey, v: UserValue, Tracked(w): Tracked<&mut World>) -> (r: Result<(), lsm_tree::Error>)
        ensures r is Ok ==> *final(w) == (World { staged: old(w).staged.push(RowG { key: k@, value: v@, tomb: false }), ..*old(w) }), r is Err ==> *final(w) == *old(w),
    { unimplemented!() }
    // lsm-tree Ingestion::finish: registers the written table = a version change of the meta tree, which (lsm-tree
    // upgrade_version) advances the shared visible seqno
    #[verifier::external_body]
    pub fn finish(self, Tracked(w): Tracked<&mut World>) -> (r: Result<(), lsm_tree::Error>)
        requires vis_ok(*old(w)) || old(w).ks_wlocked, // [C06:version-change-excludes-batches-inside-their-apply-loop]
            vis_ok(*old(w)), // [C06:P-VIS-version-change]
        ensures r is Ok ==> *final(w) == (World { meta_rows: old(w).meta_rows + old(w).staged, tombs_for: old(w).tombs_for + old(w).tombs_staged_for, staged: Seq::empty(), tombs_staged_for: Seq::empty(),
                    version_changes: old(w).version_changes + 1, ..*old(w) }),
                r is Err ==> *final(w) == (World { staged: Seq::empty(), tombs_staged_for: Seq::empty(), ..*old(w) }),
    { unimplemented!() }
}
// R-ABS shim for the block of remove_keyspace that builds the `c<id>` prefix, scans it and writes a tombstone for every
// config row and for the `n<id>` name row (ASSUMED: exactly the rows of the id the dictionary holds for `name`)
#[verifier::external_body]
pub fn shim_write_tombstones(ingestion: &mut MetaIngestion, inner: &AnyTree, name: &str, Tracked(w): Tracked<&mut World>) -> (r: Result<(), Error>)
    requires old(w).dict.dom().contains(name@),
    ensures r is Ok ==> *final(w) == (World { tombs_staged_for: old(w).tombs_staged_for.push(old(w).dict[name@]), ..*old(w) }), r is Err ==> *final(w) == *old(w),
{ unimplemented!() }
// R-ABS shim for the expression statement of create_keyspace that builds the `n<id>` -> name row and pushes it
pub uninterp spec fn name_row(id: u64, name: Seq<char>) -> RowG;
pub open spec fn kv_view(k: (UserKey, UserValue)) -> RowG { RowG { key: k.0@, value: k.1@, tomb: false } }
pub open spec fn kvs_view(v: Seq<(UserKey, UserValue)>) -> Seq<RowG> { Seq::new(v.len(), |i: int| kv_view(v[i])) }
pub open spec fn sorted_rows(s: Seq<RowG>) -> bool { forall|i: int, j: int| 0 <= i < j < s.len() ==> bytes_lt(#[trigger] s[i].key, #[trigger] s[j].key) }
pub uninterp spec fn bytes_lt(a: Seq<u8>, b: Seq<u8>) -> bool;   // strict lexicographic order of byte strings (Slice: Ord)
impl CreateOptions {
    // CreateOptions::encode_kvs (src/keyspace/options.rs; its policy rows are under contract in U-POLICY)
    #[verifier::external_body]
    pub fn encode_kvs(&self, id: InternalKeyspaceId) -> (r: Vec<(UserKey, UserValue)>) ensures kvs_view(r@) == kvs_of(*self, id), { unimplemented!() }
}
// R-ABS shims of create_keyspace: the block expression that builds the `n<id>` -> name row (bytes), the sort with a
// tuple-pattern closure, and the debug assertion with a closure
#[verifier::external_body]
pub fn shim_push_name_row(kvs: &mut Vec<(UserKey, UserValue)>, id: InternalKeyspaceId, name: &str)
    ensures kvs_view(final(kvs)@) == kvs_view(old(kvs)@).push(name_row(id, name@)),
{ unimplemented!() }
#[verifier::external_body]
pub fn shim_sort_rows(kvs: &mut Vec<(UserKey, UserValue)>)
    ensures kvs_view(final(kvs)@).to_multiset() == kvs_view(old(kvs)@).to_multiset(), final(kvs)@.len() == old(kvs)@.len(),
        rows_distinct(kvs_view(old(kvs)@)) ==> sorted_rows(kvs_view(final(kvs)@)),
{ unimplemented!() }
pub open spec fn rows_distinct(s: Seq<RowG>) -> bool { forall|i: int, j: int| 0 <= i < j < s.len() ==> (#[trigger] s[i]).key != (#[trigger] s[j]).key }
pub fn shim_debug_assert_sorted(kvs: &Vec<(UserKey, UserValue)>)
    requires sorted_rows(kvs_view(kvs@)),   // the debug assertion `kvs.is_sorted_by_key(..)` cannot fire
{ }
pub struct MetaKeyspace { pub inner: AnyTree, pub keyspaces: KsLock, pub seqno_generator: SequenceNumberCounter, pub visible_seqno: SequenceNumberCounter }
impl MetaKeyspace {
    // MetaKeyspace::maintenance (src/meta_keyspace.rs): compacts the meta tree = possibly a version change
    #[verifier::external_body]
    pub fn maintenance(&self, Tracked(w): Tracked<&mut World>) -> (r: Result<(), Error>)
        requires vis_ok(*old(w)), // [C06:P-VIS-version-change]
        ensures final(w).version_changes >= old(w).version_changes, *final(w) == (World { version_changes: final(w).version_changes, ..*old(w) }),
    { unimplemented!() }
}
pub struct ResultUnit { pub dummy: u8 }

//@extract src/meta_keyspace.rs :: MetaKeyspace :: remove_keyspace world props=C12+C06+C16
//@abstract let pfx: Vec<u8> => shim_write_tombstones(&mut ingestion, &self.inner, name)?;
//@contract
    requires !old(w).ks_wlocked, !old(w).ks_rlocked, self.seqno_generator.which@ == 0, self.visible_seqno.which@ == 1,
    ensures
        !final(w).ks_wlocked && !final(w).ks_rlocked, // [C12:dictionary-lock-released]
        // the name leaves the dictionary only together with tombstones for every meta row of its id
        r is Ok && old(w).dict.dom().contains(name@) && old(w).dict[name@] == id ==> final(w).dict == old(w).dict.remove(name@)
            && final(w).tombs_for =~= old(w).tombs_for.push(id), // [C12:deleted-name-and-its-meta-rows-go-together]
        r is Ok && !old(w).dict.dom().contains(name@) ==> final(w).dict == old(w).dict && final(w).tombs_for == old(w).tombs_for && final(w).meta_rows == old(w).meta_rows, // [C12:deleting-an-unknown-name-changes-nothing]
        // the name is held by ANOTHER keyspace (created after the given one was deleted): nothing of it is touched
        old(w).dict.dom().contains(name@) && old(w).dict[name@] != id ==> r is Ok && final(w).dict == old(w).dict && final(w).tombs_for == old(w).tombs_for
            && final(w).meta_rows == old(w).meta_rows && final(w).visible == old(w).visible && final(w).version_changes == old(w).version_changes, // [C12:delete-through-a-stale-handle-leaves-the-keyspace-that-took-over-the-name]
        r is Err ==> final(w).dict == old(w).dict && final(w).tombs_for == old(w).tombs_for, // [C12:failed-delete-keeps-the-keyspace]
        final(w).visible >= old(w).visible,
//@end

//@extract src/meta_keyspace.rs :: MetaKeyspace :: create_keyspace world props=C12+C16+C06
//@abstract key.push(b'n') => shim_push_name_row(&mut kvs, keyspace_id, name);
//@abstract kvs.sort_by( => shim_sort_rows(&mut kvs);
//@abstract is_sorted_by_key => shim_debug_assert_sorted(&kvs);
//@contract
    requires old(w).ks_wlocked,   // the caller passes the write guard it took (type RwLockWriteGuard)
        keyspace.id == keyspace_id,
        rows_distinct(kvs_of(keyspace.config, keyspace_id).push(name_row(keyspace_id, name@))),   // ASSUMED: option keys `c<id><name>` and the name key `n<id>` are pairwise different
    ensures
        !final(w).ks_wlocked, // [C12:dictionary-lock-released]
        // the name enters the dictionary only after every option row and the name row are stored
        r is Ok ==> final(w).dict == old(w).dict.insert(name@, keyspace_id), // [C12:name-registered-with-its-id]
        r is Ok ==> exists|rows: Seq<RowG>| final(w).meta_rows == old(w).meta_rows + rows
            && rows.to_multiset() == kvs_of(keyspace.config, keyspace_id).push(name_row(keyspace_id, name@)).to_multiset(), // [C16:every-option-row-is-stored-with-the-keyspace] [C12:name-row-stored-with-the-keyspace]
        r is Err ==> final(w).dict == old(w).dict && final(w).meta_rows == old(w).meta_rows, // [C12:failed-create-registers-nothing]
//@proof before let mut ingestion
        let ghost kvs0 = kvs@;
//@loop 0
            invariant
                it.snapshot@.remaining() == kvs0, 0 <= it.index@ <= kvs0.len(),
                w.staged =~= kvs_view(kvs0.take(it.index@ as int)), old(w).ks_wlocked,
                *w == (World { staged: w.staged, tombs_staged_for: w.tombs_staged_for, ..*old(w) }),
//@proof before ingestion.finish(
        proof {
            assert(kvs0.take(kvs0.len() as int) =~= kvs0);
            assert(w.staged =~= kvs_view(kvs0));
        }
//@end

//@canary
} // verus!
fn main() {}
