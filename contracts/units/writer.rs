// U-WRITER — journal writer (src/journal/writer.rs): framing, append-only, three-tier persistence
#![allow(unused_imports, unused_variables, dead_code, unused_mut, unused_parens, unreachable_code, unused_assignments)]
use vstd::prelude::*;
verus! {
//@include prelude/core.rs
//@include prelude/io.rs
//@include prelude/fjall_types.rs
//@include prelude/fs.rs
//@include prelude/xxh3.rs
//@include spec/byte_lemmas.rs
//@include spec/journal_format.rs
//@include spec/ops.rs
//@include spec/batch_format.rs
//@include prelude/paths.rs
//@broadcast axioms::array_slice_eq_spec, lz4_axioms::lz4_bound, byte_lemmas::group_le_len

pub struct Keyspace { pub id: InternalKeyspaceId }   // shim: only the id is read here (item.keyspace.id through Deref)
pub type BatchItem = Item;                            // writer.rs: `use crate::batch::item::Item as BatchItem`

//@extract-type src/journal/entry.rs :: Tag
//@extract-type src/journal/entry.rs :: Entry
//@extract-type src/batch/item.rs :: Item
//@extract-type src/journal/writer.rs :: Writer
//@extract-type src/journal/writer.rs :: PersistMode derive=Clone+Copy+PartialEq+Eq
//@include spec/writer_spec.rs
//@include spec/item_ops.rs

// contracts proved in U-CODEC, assumed here
//@extract src/journal/entry.rs :: serialize_marker_item spec_only
//@contract-file fn/serialize_marker_item.c
//@end
//@extract src/journal/entry.rs :: Entry :: encode_into spec_only
//@contract-file fn/entry_encode_into.c
//@end

//@extract src/journal/writer.rs :: Writer :: persist props=C09+C02+C13
//@contract-file fn/writer_persist.c
//@end

// the flush worker asks for the journal position (worker_tick, Flush branch, under the journal lock) right before it turns a sealed
// memtable into a table: seeking the buffered writer is what pushes every record still in the user-space buffer to the OS first,
// so that -- also with manual_journal_persist -- a process crash never finds part of a batch in a table and the rest nowhere
//@extract src/journal/writer.rs :: Writer :: pos props=C03+C02
//@contract
    requires old(self).wf(),
    ensures final(self).wf(), final(self).file.logical() == old(self).file.logical(), final(self).file.inner.synced@ == old(self).file.inner.synced@,
        r is Ok ==> final(self).file.buffered@.len() == 0, // [C03:journal-position-query-pushes-the-write-buffer-to-the-os] [C02:journal-position-query-pushes-the-write-buffer-to-the-os]
//@end

//@extract src/journal/writer.rs :: Writer :: rotate as=rotate_sync_first until=self.persist( props=C09+C02
//@contract
    requires old(self).wf(),
    ensures
        // an error exit of the prefix is a failed sync: the journal is NOT switched, nothing written is dropped
        r is Err ==> final(self).file.logical() == old(self).file.logical(), // [C09:failed-rotation-keeps-the-journal]
//@proof before shim_slice_end
        proof {
            // C09: before the writer is pointed at a new file, everything written to the journal being sealed is on the device
            assert(self.file.inner.synced@ == old(self).file.logical() && self.file.buffered@.len() == 0); // [C09:rotation-syncs-the-sealed-journal-first] [C02:rotation-syncs-the-sealed-journal-first]
        }
//@end

//@extract src/journal/writer.rs :: Writer :: write_start props=C03+C02+C13
//@contract-file fn/writer_write_start.c
//@proof after encode_into(&mut self.buf)
        proof { assert(self.buf@ =~= enc_start(item_count, seqno)); }
//@end

//@extract src/journal/writer.rs :: Writer :: write_end props=C03+C02+C13
//@contract-file fn/writer_write_end.c
//@proof after encode_into(&mut self.buf)
        proof { assert(self.buf@ =~= enc_end(checksum)); }
//@end

//@extract src/journal/writer.rs :: Writer :: write_raw props=C03+C02+C09+C15+C01+C13
//@contract-file fn/writer_write_raw.c
//@proof before hasher.update(&self.buf)
        proof {
            assert(self.buf@ =~= enc_item(keyspace_id, key@, value@, value_type, pick(old(self).compression, old(self).compression_threshold, value@.len())));
        }
//@proof before Ok(byte_count)
        proof {
            let ops = seq![OpV::Item { keyspace_id, key: key@, value: value@, value_type }];
            let c = old(self).compression; let t = old(self).compression_threshold;
            assert(payload(ops, 0, c, t) =~= Seq::<u8>::empty());
            assert(payload(ops, 1, c, t) =~= enc_op(ops[0], c, t));
            assert(self.file.logical() =~= old(self).file.logical() + enc_batch(seqno, ops, c, t));
        }
//@end

//@extract src/journal/writer.rs :: Writer :: write_clear props=C03+C02+C09+C04+C13
//@contract-file fn/writer_write_clear.c
//@proof before self.file.write_all(&self.buf)
        proof { assert(self.buf@ =~= enc_clear(keyspace_id)); }
//@proof before Ok(byte_count)
        proof {
            let ops = seq![OpV::Clear { keyspace_id }];
            let c = old(self).compression; let t = old(self).compression_threshold;
            assert(payload(ops, 0, c, t) =~= Seq::<u8>::empty());
            assert(payload(ops, 1, c, t) =~= enc_op(ops[0], c, t));
            assert(self.file.logical() =~= old(self).file.logical() + enc_batch(seqno, ops, c, t));
        }
//@end

//@extract src/journal/writer.rs :: Writer :: write_batch props=C03+C02+C09+C15+C01+C13 iter_param=items
//@contract-file fn/writer_write_batch.c
//@loop 0
        invariant
            self.is_buffer_dirty, self.buf@.len() == 0,
            self.appended(old(self)),
            0 <= it.index@ <= items@.len(),
            hasher.acc@ == payload(ops_of(items@), it.index@, old(self).compression, old(self).compression_threshold),
            self.file.logical() == old(self).file.logical() + enc_start(item_count, seqno)
                + payload(ops_of(items@), it.index@, old(self).compression, old(self).compression_threshold),
            byte_count == 13 + payload(ops_of(items@), it.index@, old(self).compression, old(self).compression_threshold).len(),
            payload(ops_of(items@), items@.len() as int, old(self).compression, old(self).compression_threshold).len() < 0x7fff_ffff_ffff_ff00,
            items_within_limits(items@),
//@proof before hasher.update(&self.buf)
            proof {
                let c = old(self).compression; let t = old(self).compression_threshold;
                assert(self.buf@ =~= enc_op(ops_of(items@)[it.index@], c, t));
                lemma_payload_mono(ops_of(items@), it.index@ + 1, items@.len() as int, c, t);
            }
//@end

//@canary
} // verus!
fn main() {}
