// U-OPTS — which stored row each option is recovered from (src/keyspace/options.rs CreateOptions::from_kvs, the
// policy part: prefix slice up to the filter policy) (C16)
#![allow(unused_imports, unused_variables, dead_code, unused_mut, unused_parens, unreachable_code, unused_assignments)]
use vstd::prelude::*;
verus! {
//@include prelude/core.rs
//@include prelude/io.rs
//@include prelude/fjall_types.rs
//@include spec/byte_lemmas.rs
//@include prelude/paths.rs
//@include prelude/policy_types.rs
//@include spec/policy_spec.rs
//@world meta_keyspace.get_kv_for_config
//@cursor-shim
//@path byteorder::LE => LE
//@path crate::compaction::Fifo => Fifo
//@path crate::compaction::Leveled => Leveled
//@type Arc<dynlsm_tree::compaction::CompactionStrategy+Send+Sync> => Arc<Leveled>
//@identity-cast Arc<Leveled>

// `&[u8]` as the decode functions see it (in U-POLICY the same parameter is a cursor at position 0 over these bytes)
pub trait CursorView { spec fn at_start(&self) -> bool; spec fn rs(&self) -> RS; }
impl<'a> CursorView for &'a [u8] {
    open spec fn at_start(&self) -> bool { true }
    open spec fn rs(&self) -> RS { RS { all: self@, pos: 0, may_fail: false, id: 0 } }
}
// ---- the meta keyspace's option rows: (keyspace id, option name) -> stored bytes
pub struct World { pub rows: Map<(u64, Seq<char>), Seq<u8>> }
pub struct MetaKeyspace { pub dummy: u8 }
impl MetaKeyspace {
    // MetaKeyspace::get_kv_for_config = tree.get(encode_config_key(id, name), SeqNo::MAX) (src/meta_keyspace.rs, 2 lines): ASSUMED
    #[verifier::external_body]
    pub fn get_kv_for_config(&self, keyspace_id: InternalKeyspaceId, name: &str, Tracked(w): Tracked<&mut World>) -> (r: FjResult<Option<UserValue>>)
        ensures *final(w) == *old(w),
            r matches Ok(Some(v)) ==> old(w).rows.dom().contains((keyspace_id, name@)) && v@ == old(w).rows[(keyspace_id, name@)],
            r matches Ok(None) ==> !old(w).rows.dom().contains((keyspace_id, name@)),
    { unimplemented!() }
}
pub type PartitioningPolicy = PinningPolicy;
impl vstd::std_specs::cmp::PartialEqSpecImpl<[u8; 1]> for Slice {
    open spec fn obeys_eq_spec() -> bool { true }
    open spec fn eq_spec(&self, other: &[u8; 1]) -> bool { self@ == other@ }
}
impl PartialEq<[u8; 1]> for Slice { #[verifier::external_body] fn eq(&self, other: &[u8; 1]) -> (r: bool) { unimplemented!() } }

// ---- contracts of the decode functions: proved in U-POLICY from the same contract files, assumed here
//@extract src/keyspace/config/block_size.rs :: DecodeConfig for crate::config::BlockSizePolicy :: decode inherent spec_only
//@contract-file fn/policy_decode_block_size.c
//@end
//@extract src/keyspace/config/compression.rs :: DecodeConfig for crate::config::CompressionPolicy :: decode inherent spec_only
//@contract-file fn/policy_decode_compression.c
//@end
//@extract src/keyspace/config/filter.rs :: DecodeConfig for crate::config::FilterPolicy :: decode inherent spec_only
//@contract-file fn/policy_decode_filter.c
//@end
//@extract src/keyspace/config/hash_ratio.rs :: DecodeConfig for crate::config::HashRatioPolicy :: decode inherent spec_only
//@contract-file fn/policy_decode_hash_ratio.c
//@end
//@extract src/keyspace/config/pinning.rs :: DecodeConfig for crate::config::PinningPolicy :: decode inherent spec_only
//@contract-file fn/policy_decode_pinning.c
//@end
//@extract src/keyspace/config/restart_interval.rs :: DecodeConfig for crate::config::RestartIntervalPolicy :: decode inherent spec_only
//@contract-file fn/policy_decode_restart_interval.c
//@end

/// the policy options a keyspace was created with (ghost record), and what `encode_kvs` stores for them: one row per option,
/// under the option's own name (the names are the string literals of encode_kvs / the `policy!` macro)
pub struct PolicyOpts {
    pub data_block_compression: Seq<CompressionType>, pub index_block_compression: Seq<CompressionType>, pub data_block_size: Seq<u32>,
    pub filter_block_partitioning: Seq<bool>, pub index_block_partitioning: Seq<bool>, pub filter_block_pinning: Seq<bool>, pub index_block_pinning: Seq<bool>,
    pub data_block_restart_interval: Seq<u8>, pub index_block_restart_interval: Seq<u8>, pub data_block_hash_ratio: Seq<f32>,
    pub expect_point_read_hits: bool, pub filter_policy: Seq<FilterPolicyEntry>,
}
pub open spec fn row<T>(w: World, id: u64, name: Seq<char>, ee: spec_fn(T) -> Seq<u8>, s: Seq<T>) -> bool {
    w.rows.dom().contains((id, name)) && stored_as(ee, s, w.rows[(id, name)])
}
pub open spec fn rows_of(w: World, id: u64, o: PolicyOpts) -> bool {
    &&& row(w, id, "data_block_compression_policy"@, ee_comp(), o.data_block_compression)
    &&& row(w, id, "index_block_compression_policy"@, ee_comp(), o.index_block_compression)
    &&& row(w, id, "data_block_size_policy"@, ee_u32(), o.data_block_size)
    &&& row(w, id, "filter_block_partitioning_policy"@, ee_bool(), o.filter_block_partitioning)
    &&& row(w, id, "index_block_partitioning_policy"@, ee_bool(), o.index_block_partitioning)
    &&& row(w, id, "filter_block_pinning_policy"@, ee_bool(), o.filter_block_pinning)
    &&& row(w, id, "index_block_pinning_policy"@, ee_bool(), o.index_block_pinning)
    &&& row(w, id, "data_block_restart_interval_policy"@, ee_u8(), o.data_block_restart_interval)
    &&& row(w, id, "index_block_restart_interval_policy"@, ee_u8(), o.index_block_restart_interval)
    &&& row(w, id, "data_block_hash_ratio_policy"@, ee_f32(), o.data_block_hash_ratio)
    &&& row(w, id, "filter_policy"@, ee_filter(), o.filter_policy)
    &&& w.rows.dom().contains((id, "expect_point_read_hits"@)) && w.rows[(id, "expect_point_read_hits"@)] == (if o.expect_point_read_hits { seq![1u8] } else { seq![0u8] })
}
pub struct CreateOptions { pub dummy: u8 }

//@extract src/keyspace/options.rs :: CreateOptions :: from_kvs as=from_kvs_policies world until=FilterPolicy::decode(&filter_policy) props=C16
//@contract
    requires exists|o: PolicyOpts| rows_of(*old(w), keyspace_id, o),
    ensures true,
//@proof before let blob
        let ghost o = choose|o: PolicyOpts| rows_of(*old(w), keyspace_id, o);
//@proof before shim_slice_end
        proof {
            // C16: every policy option is recovered from its OWN row, and comes back exactly as it was stored
            assert(data_block_compression_policy@ == o.data_block_compression); // [C16:data-block-compression-recovered-from-its-own-row]
            assert(index_block_compression_policy@ == o.index_block_compression); // [C16:index-block-compression-recovered-from-its-own-row]
            assert(data_block_size_policy@ == o.data_block_size); // [C16:data-block-size-recovered-from-its-own-row]
            assert(filter_block_partitioning_policy@ == o.filter_block_partitioning); // [C16:filter-block-partitioning-recovered-from-its-own-row]
            assert(index_block_partitioning_policy@ == o.index_block_partitioning); // [C16:index-block-partitioning-recovered-from-its-own-row]
            assert(filter_block_pinning_policy@ == o.filter_block_pinning); // [C16:filter-block-pinning-recovered-from-its-own-row]
            assert(index_block_pinning_policy@ == o.index_block_pinning); // [C16:index-block-pinning-recovered-from-its-own-row]
            assert(data_block_restart_interval_policy@ == o.data_block_restart_interval); // [C16:data-block-restart-interval-recovered-from-its-own-row]
            assert(index_block_restart_interval_policy@ == o.index_block_restart_interval); // [C16:index-block-restart-interval-recovered-from-its-own-row]
            assert(data_block_hash_ratio_policy@ == o.data_block_hash_ratio); // [C16:hash-ratio-recovered-from-its-own-row]
            assert([1u8]@ =~= seq![1u8]); assert(seq![1u8][0] != seq![0u8][0]);
            assert(expect_point_read_hits == o.expect_point_read_hits); // [C16:expect-point-read-hits-recovered-from-its-own-row]
            assert(filter_policy@ == o.filter_policy); // [C16:filter-policy-recovered-from-its-own-row]
        }
//@end

//@extract src/keyspace/options.rs :: CreateOptions :: from_kvs as=from_kvs_manual_persist world props=C16+C02+C09
//@anchor let manual_journal_persist
//@sig fn from_kvs_manual_persist(keyspace_id: InternalKeyspaceId, meta_keyspace: &MetaKeyspace) -> FjResult<bool>
//@yield Ok(manual_journal_persist)
//@contract
    requires old(w).rows.dom().contains((keyspace_id, "manual_journal_persist"@)),
    ensures
        // the journal persist mode a keyspace was created with is recovered from ITS OWN row (C16); it decides whether an
        // acknowledged write has reached the OS (C02, C09)
        r is Ok ==> r->Ok_0 == (old(w).rows[(keyspace_id, "manual_journal_persist"@)] == seq![1u8]), // [C16:manual-journal-persist-recovered-from-its-own-row] [C02:manual-journal-persist-recovered-from-its-own-row] [C09:manual-journal-persist-recovered-from-its-own-row]
//@proof before Ok(manual_journal_persist)
        proof { assert([1u8]@ =~= seq![1u8]); }
//@end

// ---- scalar options and compaction-strategy parameters: rule R-CURSOR reads the row's bytes through a cursor at position 0
pub type LE = LittleEndian;
#[verifier::external_body]
pub fn shim_cursor(s: &UserValue) -> (r: ByteCursor) ensures r.all@ == s@, r.pos@ == 0 { unimplemented!() }
pub struct Arc<T> { pub t: T }
impl<T> Arc<T> { pub fn new(t: T) -> (r: Arc<T>) ensures r.t == t { Arc { t } } }
// lsm-tree compaction::Fifo::new(limit, ttl_seconds) (re-exported as crate::compaction::Fifo)
pub struct Fifo { pub limit: u64, pub ttl_seconds: Option<u64> }
impl Fifo { pub fn new(limit: u64, ttl_seconds: Option<u64>) -> (r: Fifo) ensures r == (Fifo { limit, ttl_seconds }) { Fifo { limit, ttl_seconds } } }
/// the little-endian u64 a row starts with
pub open spec fn row_u64(w: World, id: u64, name: Seq<char>) -> u64 { de64(w.rows[(id, name)].subrange(0, 8)) }

//@extract src/keyspace/options.rs :: CreateOptions :: from_kvs as=from_kvs_max_memtable_size world props=C16
//@anchor let max_memtable_size = meta_keyspace
//@stmts 2
//@sig fn from_kvs_max_memtable_size(keyspace_id: InternalKeyspaceId, meta_keyspace: &MetaKeyspace) -> FjResult<u64>
//@yield Ok(max_memtable_size)
//@contract
    requires old(w).rows.dom().contains((keyspace_id, "max_memtable_size"@)),
    ensures
        // the memtable size a keyspace was created with is recovered from ITS OWN row, all eight bytes of it
        r is Ok ==> r->Ok_0 == row_u64(*old(w), keyspace_id, "max_memtable_size"@), // [C16:max-memtable-size-recovered-from-its-own-row-at-full-width]
//@end

//@extract src/keyspace/options.rs :: CreateOptions :: from_kvs as=from_kvs_expect_point_read_hits world props=C16
//@anchor let expect_point_read_hits = meta_keyspace
//@stmts 2
//@sig fn from_kvs_expect_point_read_hits(keyspace_id: InternalKeyspaceId, meta_keyspace: &MetaKeyspace) -> FjResult<bool>
//@yield Ok(expect_point_read_hits)
//@contract
    requires old(w).rows.dom().contains((keyspace_id, "expect_point_read_hits"@)),
    ensures r is Ok ==> r->Ok_0 == (old(w).rows[(keyspace_id, "expect_point_read_hits"@)] == seq![1u8]), // [C16:expect-point-read-hits-recovered-from-its-own-row]
//@proof before Ok(expect_point_read_hits)
        proof { assert([1u8]@ =~= seq![1u8]); }
//@end

//@extract src/keyspace/options.rs :: CreateOptions :: from_kvs as=from_kvs_fifo world props=C16
//@anchor let fifo_limit = meta_keyspace
//@to-block-end
//@wrap-ok
//@sig fn from_kvs_fifo(keyspace_id: InternalKeyspaceId, meta_keyspace: &MetaKeyspace) -> FjResult<Arc<Fifo>>
//@contract
    requires old(w).rows.dom().contains((keyspace_id, "fifo_limit"@)), old(w).rows.dom().contains((keyspace_id, "fifo_ttl"@)),
        old(w).rows[(keyspace_id, "fifo_ttl"@)] == seq![1u8] ==> old(w).rows.dom().contains((keyspace_id, "fifo_ttl_seconds"@)),
    ensures
        // the FIFO parameters are recovered from their own rows, the limit at its full eight bytes
        r is Ok ==> r->Ok_0.t.limit == row_u64(*old(w), keyspace_id, "fifo_limit"@), // [C16:fifo-limit-recovered-from-its-own-row-at-full-width]
        r is Ok ==> r->Ok_0.t.ttl_seconds == (if old(w).rows[(keyspace_id, "fifo_ttl"@)] == seq![1u8] { Some(row_u64(*old(w), keyspace_id, "fifo_ttl_seconds"@)) } else { None::<u64> }), // [C16:fifo-ttl-recovered-from-its-own-rows]
//@proof before let ttl_seconds
    proof { assert([1u8]@ =~= seq![1u8]); }
//@end

// lsm-tree compaction::Leveled (builder): only the three stored parameters
pub struct Leveled { pub l0_threshold: Ghost<Option<u8>>, pub target_size: Ghost<Option<u64>>, pub ratios: Ghost<Option<Seq<f32>>> }
impl Leveled {
    #[verifier::external_body] pub fn default() -> (r: Leveled) ensures r.l0_threshold@ is None, r.target_size@ is None, r.ratios@ is None { unimplemented!() }
    #[verifier::external_body] pub fn with_l0_threshold(self, v: u8) -> (r: Leveled) ensures r.l0_threshold@ == Some(v), r.target_size == self.target_size, r.ratios == self.ratios { unimplemented!() }
    #[verifier::external_body] pub fn with_table_target_size(self, v: u64) -> (r: Leveled) ensures r.target_size@ == Some(v), r.l0_threshold == self.l0_threshold, r.ratios == self.ratios { unimplemented!() }
    #[verifier::external_body] pub fn with_level_ratio_policy(self, v: Vec<f32>) -> (r: Leveled) ensures r.ratios@ == Some(v@), r.l0_threshold == self.l0_threshold, r.target_size == self.target_size { unimplemented!() }
}

//@extract src/keyspace/options.rs :: CreateOptions :: from_kvs as=from_kvs_leveled world props=C16
//@anchor let l0_threshold = meta_keyspace
//@to-block-end
//@wrap-ok
//@sig fn from_kvs_leveled(keyspace_id: InternalKeyspaceId, meta_keyspace: &MetaKeyspace) -> FjResult<Arc<Leveled>>
//@contract
    requires old(w).rows.dom().contains((keyspace_id, "leveled_l0_threshold"@)), old(w).rows.dom().contains((keyspace_id, "leveled_target_size"@)),
        old(w).rows.dom().contains((keyspace_id, "leveled_level_ratio_policy"@)),
    ensures
        // the Leveled parameters are recovered from their own rows, at full width
        r is Ok ==> r->Ok_0.t.l0_threshold@ == Some(old(w).rows[(keyspace_id, "leveled_l0_threshold"@)][0]), // [C16:leveled-l0-threshold-recovered-from-its-own-row]
        r is Ok ==> r->Ok_0.t.target_size@ == Some(row_u64(*old(w), keyspace_id, "leveled_target_size"@)), // [C16:leveled-target-size-recovered-from-its-own-row-at-full-width]
        // (the level ratios are read by a counted loop of `read_f32` over the same row; only its memory safety is shown here)
//@loop 0
            invariant 0 <= level_ratio_policy_bytes.rs().pos <= level_ratio_policy_bytes.rs().all.len(),
//@end

//@canary
} // verus!
fn main() {}
