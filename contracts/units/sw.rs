// U-SW — single-writer transactions never overlap (src/tx/single_writer/mod.rs write_tx, write_tx.rs new/commit):
// the snapshot is opened while the single-writer mutex is held, and the guard lives inside the returned transaction (C08)
#![allow(unused_imports, unused_variables, dead_code, unused_mut, unused_parens, unreachable_code, unused_assignments)]
use vstd::prelude::*;
verus! {
//@include prelude/core.rs
//@include prelude/fjall_types.rs
//@include prelude/paths.rs
//@path SingleWriterTxDatabase => TxDatabase
//@world single_writer_lock.lock snapshot_tracker.open

// ---- ghost world: who holds the single-writer mutex, and when this call took its snapshot
pub struct World { pub sw_locked: bool, pub snapshots_opened_unlocked: nat, pub opened: nat }
pub struct MutexGuard<'a, T> { pub id: Ghost<int>, pub ph: core::marker::PhantomData<&'a T> }
pub struct LockResult<'a> { pub g: MutexGuard<'a, ()> }
impl<'a> LockResult<'a> { pub fn expect(self, m: &str) -> (r: MutexGuard<'a, ()>) ensures r == self.g { self.g } }   // a poisoned mutex panics: not modelled
pub struct SwMutex { pub id: Ghost<int> }   // id: WHICH mutex (two handles exclude each other only through the same one)
impl SwMutex {
    // std::sync::Mutex::lock: blocks until no other guard exists (mutual exclusion is the mutex's own contract)
    #[verifier::external_body]
    pub fn lock(&self, Tracked(w): Tracked<&mut World>) -> (r: LockResult<'_>)
        requires !old(w).sw_locked,
        ensures *final(w) == (World { sw_locked: true, ..*old(w) }),
    { unimplemented!() }
}
pub struct SnapshotNonce { pub instant: u64, pub taken_locked: Ghost<bool> }
pub struct SnapshotTracker { pub dummy: u8 }
impl SnapshotTracker {
    // SnapshotTracker::open (proved in U-TRACKER): here only WHEN it is called matters.
    // C08: a single-writer transaction's snapshot must be taken after the previous writer's commit, i.e. with the mutex held
    #[verifier::external_body]
    pub fn open(&self, Tracked(w): Tracked<&mut World>) -> (r: SnapshotNonce)
        requires old(w).sw_locked, // [C08:snapshot-opened-under-the-single-writer-lock] [C05:snapshot-opened-under-the-single-writer-lock]
        ensures *final(w) == (World { opened: old(w).opened + 1, ..*old(w) }), r.taken_locked@ == old(w).sw_locked,
    { unimplemented!() }
}
pub struct Supervisor { pub snapshot_tracker: SnapshotTracker }
pub struct DbConfig { pub manual_journal_persist: bool }
pub struct Database { pub supervisor: Supervisor, pub config: DbConfig }
impl Clone for Database { #[verifier::external_body] fn clone(&self) -> (r: Database) { unimplemented!() } }
pub struct Arc<T> { pub t: T }
// Arc::clone shares the pointee; Arc::default() allocates a NEW one (nothing is known about which)
impl Clone for Arc<SwMutex> { #[verifier::external_body] fn clone(&self) -> (r: Self) ensures r.t.id == self.t.id { unimplemented!() } }
impl Default for Arc<SwMutex> { #[verifier::external_body] fn default() -> (r: Self) { unimplemented!() } }
pub struct Keyspace { pub id: Ghost<int> }
pub struct KeyspaceCreateOptions { pub dummy: u8 }
impl Database {
    // Database::keyspace (U-META / U-METAKS): create or open
    #[verifier::external_body] pub fn keyspace<F: FnOnce() -> KeyspaceCreateOptions>(&self, name: &str, create_options: F) -> (r: Result<Keyspace, Error>) { unimplemented!() }
}
impl<T> std::ops::Deref for Arc<T> { type Target = T; fn deref(&self) -> (r: &T) ensures *r == self.t { &self.t } }
#[derive(Clone, Copy, PartialEq, Eq)]
pub enum PersistMode { Buffer, SyncData, SyncAll }
pub struct BaseTransaction { pub nonce: SnapshotNonce, pub durability: Option<PersistMode> }
impl BaseTransaction {
    // proved in U-TX
    #[verifier::external_body] pub fn new(db: Database, nonce: SnapshotNonce) -> (r: BaseTransaction) ensures r.nonce == nonce, r.durability is None { unimplemented!() }
    #[verifier::external_body] pub fn durability(self, mode: Option<PersistMode>) -> (r: BaseTransaction) ensures r.nonce == self.nonce, r.durability == mode { unimplemented!() }
}
pub struct TxDatabase { pub inner: Database, pub single_writer_lock: Arc<SwMutex> }
// #[derive(Clone)] of TxDatabase written out (ASSUMED to be what the derive expands to: field-wise clone)
impl Clone for TxDatabase { fn clone(&self) -> (r: TxDatabase) ensures r.single_writer_lock.t.id == self.single_writer_lock.t.id { TxDatabase { inner: self.inner.clone(), single_writer_lock: self.single_writer_lock.clone() } } }
//@extract-type src/tx/single_writer/keyspace.rs :: SingleWriterTxKeyspace

//@extract-type src/tx/single_writer/write_tx.rs :: WriteTransaction

//@extract src/tx/single_writer/write_tx.rs :: WriteTransaction<'tx> :: new props=C08
//@contract
    ensures r._guard == guard, // [C08:transaction-owns-the-single-writer-guard]
        r.inner.nonce == nonce, r.inner.durability is None,
//@end
//@extract src/tx/single_writer/write_tx.rs :: WriteTransaction<'tx> :: durability props=C08
//@contract
    ensures r._guard == self._guard, // [C08:transaction-owns-the-single-writer-guard]
        r.inner.nonce == self.inner.nonce, r.inner.durability == mode,
//@end

//@extract src/tx/single_writer/mod.rs :: TxDatabase :: write_tx world props=C08+C05
//@contract
    requires !old(w).sw_locked,
    ensures
        final(w).sw_locked, // [C08:single-writer-lock-held-for-the-whole-transaction]
        r.inner.nonce.taken_locked@, // [C08:snapshot-opened-under-the-single-writer-lock] [C05:snapshot-opened-under-the-single-writer-lock]
        final(w).opened == old(w).opened + 1,
        // journal persist: Buffer unless the database is in manual-persist mode (C02/C09 premise for transactions)
        r.inner.durability == (if self.inner.config.manual_journal_persist { None } else { Some(PersistMode::Buffer) }), // [C08:commit-durability-follows-the-database-mode]
//@end

// every keyspace handle of a transactional database serializes its writers through the DATABASE's mutex, not one of its own
//@extract src/tx/single_writer/mod.rs :: TxDatabase :: keyspace props=C08
//@contract
    ensures r matches Ok(ks) ==> ks.db.single_writer_lock.t.id == self.single_writer_lock.t.id, // [C08:keyspace-handle-shares-the-single-writer-lock-of-its-database]
//@end

//@canary
} // verus!
fn main() {}
