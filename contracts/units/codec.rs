// U-CODEC — journal entry codec (src/journal/entry.rs)
#![allow(unused_imports, unused_variables, dead_code, unused_mut, unused_parens, unreachable_code)]
use vstd::prelude::*;
verus! {
//@include prelude/core.rs
//@include prelude/io.rs
//@include prelude/fjall_types.rs
//@include spec/byte_lemmas.rs
//@include spec/journal_format.rs
//@include spec/tag_convert.rs

//@include prelude/paths.rs
//@broadcast axioms::array_slice_eq_spec, lz4_axioms::lz4_bound, byte_lemmas::group_le_len

//@extract-type src/journal/entry.rs :: Tag
//@extract-const src/file.rs :: MAGIC_BYTES
//@contract
    ensures MAGIC_BYTES@ == trailer(), // [C15:trailer] [C03:trailer]
//@proof
    assert(__fjx_c@ =~= trailer());
//@end

//@extract src/journal/entry.rs :: From<Tag> for u8 :: from as_trait props=C15+C03
//@contract-file fn/tag_into_u8.c
//@end

//@extract src/journal/entry.rs :: TryFrom<u8> for Tag :: try_from as_trait props=C15+C03
//@contract-file fn/tag_try_from_u8.c
//@end

//@extract src/journal/entry.rs :: serialize_marker_item props=C15+C03
//@contract-file fn/serialize_marker_item.c
//@end

//@extract-type src/journal/entry.rs :: Entry

//@extract src/journal/entry.rs :: Entry :: encode_into props=C15+C03
//@contract-file fn/entry_encode_into.c
//@end

//@extract src/journal/entry.rs :: Entry :: decode_from props=C15+C03
//@contract-file fn/entry_decode_from.c
//@end

//@canary
} // verus!
fn main() {}
