// U-CODEC — journal entry codec (src/journal/entry.rs)
#![allow(unused_imports, unused_variables, dead_code, unused_mut, unused_parens, unreachable_code)]
use vstd::prelude::*;
verus! {
//@include prelude/core.rs
//@include prelude/io.rs
//@include prelude/fjall_types.rs
//@include spec/journal_format.rs

//@include prelude/paths.rs

//@extract-type src/journal/entry.rs :: Tag
//@extract-const src/file.rs :: MAGIC_BYTES
//@contract
    ensures MAGIC_BYTES@ == trailer(), // [C15:trailer] [C03:trailer]
//@proof
    assert(__fjx_c@ =~= trailer());
//@end

//@extract src/journal/entry.rs :: From<Tag> for u8 :: from as_trait props=C15+C03
//@contract
    ensures r == tag_byte(val), // [C15:tag-encode]
//@end

//@extract src/journal/entry.rs :: TryFrom<u8> for Tag :: try_from as_trait props=C15+C03
//@contract
    ensures r == tag_of_byte(value), // [C15:tag-decode]
//@end

//@extract src/journal/entry.rs :: serialize_marker_item props=C15+C03
//@contract
    ensures
        r is Ok ==> final(writer).sink() == old(writer).sink() + enc_item(keyspace_id, key@, value@, value_type, compression), // [C15:item-layout] [C03:item-layout]
        r is Err ==> old(writer).sink().is_prefix_of(final(writer).sink()), // [C03:append-only]
//@end

//@extract-type src/journal/entry.rs :: Entry

//@extract src/journal/entry.rs :: Entry :: encode_into props=C15+C03
//@contract
    ensures
        r is Ok ==> final(writer).sink() == old(writer).sink() + enc_entry(*self), // [C15:entry-layout] [C03:entry-layout]
        r is Err ==> old(writer).sink().is_prefix_of(final(writer).sink()), // [C03:append-only]
//@end

//@extract src/journal/entry.rs :: Entry :: decode_from props=C15+C03
//@contract
    requires
        0 <= old(reader).rs().pos <= old(reader).rs().all.len(),
    ensures
        read_frame(old(reader).rs(), final(reader).rs()),
        r is Ok ==> parse_at(old(reader).rs().all, old(reader).rs().pos) == Some((entry_view(r->Ok_0), final(reader).rs().pos)), // [C15:decode-sound] [C03:decode-sound]
        !old(reader).rs().may_fail ==> (r is Ok <==> parse_at(old(reader).rs().all, old(reader).rs().pos) is Some), // [C15:decode-complete] [C03:decode-complete]
        !old(reader).rs().may_fail ==> (r matches Err(Error::Io(e)) ==> e.kind == IoErrorKind::UnexpectedEof), // [C03:eof-class]
//@end

//@canary
} // verus!
fn main() {}
