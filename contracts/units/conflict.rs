// U-CONFLICT — the OCC validation predicate (src/tx/optimistic/conflict_manager.rs): has_conflict against a spec
// function over the recorded reads and the other transaction's written keys; mark_range normalisation (C07)
#![allow(unused_imports, unused_variables, dead_code, unused_mut, unused_parens, unreachable_code, unused_assignments)]
use vstd::prelude::*;
use std::cmp::Ordering;
verus! {
//@include prelude/core.rs
//@include prelude/fjall_types.rs
//@include prelude/paths.rs
//@path core::ops::Bound => Bound
//@world self.push_read
//@range-shim
//@broadcast lemma_lex_irrefl

// ---- byte-string order (lsm_tree::Slice: Ord is the lexicographic order of the bytes)
pub open spec fn lex_lt(a: Seq<u8>, b: Seq<u8>) -> bool decreases a.len() {
    if b.len() == 0 { false } else if a.len() == 0 { true } else if a[0] != b[0] { a[0] < b[0] } else { lex_lt(a.drop_first(), b.drop_first()) }
}
pub open spec fn lex_le(a: Seq<u8>, b: Seq<u8>) -> bool { a == b || lex_lt(a, b) }
impl vstd::std_specs::cmp::PartialOrdSpecImpl for Slice {
    open spec fn obeys_partial_cmp_spec() -> bool { true }
    open spec fn partial_cmp_spec(&self, other: &Slice) -> Option<Ordering> {
        if self@ == other@ { Some(Ordering::Equal) } else if lex_lt(self@, other@) { Some(Ordering::Less) } else { Some(Ordering::Greater) }
    }
}
impl PartialOrd for Slice { #[verifier::external_body] fn partial_cmp(&self, other: &Slice) -> (r: Option<Ordering>) { unimplemented!() } }

// ---- core::ops::Bound (declared here so that its variants are plain data)
pub enum Bound<T> { Included(T), Excluded(T), Unbounded }
pub enum BoundV { Included(Seq<u8>), Excluded(Seq<u8>), Unbounded }
pub open spec fn bv(b: Bound<Slice>) -> BoundV { match b { Bound::Included(k) => BoundV::Included(k@), Bound::Excluded(k) => BoundV::Excluded(k@), Bound::Unbounded => BoundV::Unbounded } }
pub open spec fn bvr(b: Bound<&Slice>) -> BoundV { match b { Bound::Included(k) => BoundV::Included(k@), Bound::Excluded(k) => BoundV::Excluded(k@), Bound::Unbounded => BoundV::Unbounded } }
impl vstd::std_specs::cmp::PartialEqSpecImpl for Bound<Slice> {
    open spec fn obeys_eq_spec() -> bool { true }
    open spec fn eq_spec(&self, other: &Bound<Slice>) -> bool { bv(*self) == bv(*other) }
}
impl PartialEq for Bound<Slice> { #[verifier::external_body] fn eq(&self, other: &Bound<Slice>) -> (r: bool) { unimplemented!() } }

//@extract-type src/tx/optimistic/conflict_manager.rs :: Read
pub enum ReadV { Single(Seq<u8>), Range { start: BoundV, end: BoundV }, All }
pub open spec fn rv(r: Read) -> ReadV { match r { Read::Single(k) => ReadV::Single(k@), Read::Range { start, end } => ReadV::Range { start: bv(start), end: bv(end) }, Read::All => ReadV::All } }
pub open spec fn above(lo: BoundV, k: Seq<u8>) -> bool { match lo { BoundV::Included(s) => lex_le(s, k), BoundV::Excluded(s) => lex_lt(s, k), BoundV::Unbounded => true } }
pub open spec fn below(hi: BoundV, k: Seq<u8>) -> bool { match hi { BoundV::Included(e) => lex_le(k, e), BoundV::Excluded(e) => lex_lt(k, e), BoundV::Unbounded => true } }
/// what a recorded read covers: the key itself / the keys within the bounds / every key of the keyspace
pub open spec fn covers(r: ReadV, k: Seq<u8>) -> bool {
    match r { ReadV::Single(x) => x == k, ReadV::Range { start, end } => above(start, k) && below(end, k), ReadV::All => true }
}
pub open spec fn read_hits(r: ReadV, ws: Seq<Seq<u8>>, n: int) -> bool { exists|j: int| 0 <= j < n && covers(r, #[trigger] ws[j]) }
pub open spec fn reads_hit(rs: Seq<ReadV>, n: int, ws: Seq<Seq<u8>>) -> bool { exists|i: int| 0 <= i < n && read_hits(#[trigger] rs[i], ws, ws.len() as int) }
pub open spec fn lookup(ws: Seq<(u64, Seq<Seq<u8>>)>, ks: u64) -> Option<Seq<Seq<u8>>> {
    if exists|b: int| 0 <= b < ws.len() && (#[trigger] ws[b]).0 == ks { Some(ws[choose|b: int| 0 <= b < ws.len() && (#[trigger] ws[b]).0 == ks].1) } else { None }
}
pub open spec fn entry_hits(e: (u64, Seq<ReadV>), ws: Seq<(u64, Seq<Seq<u8>>)>) -> bool {
    match lookup(ws, e.0) { Some(keys) => reads_hit(e.1, e.1.len() as int, keys), None => false }
}
/// C07 validation predicate: some recorded read of `reads` covers some key written by the other transaction IN THE SAME KEYSPACE
pub open spec fn conflicts_spec(reads: Seq<(u64, Seq<ReadV>)>, n: int, ws: Seq<(u64, Seq<Seq<u8>>)>) -> bool {
    exists|a: int| 0 <= a < n && entry_hits(#[trigger] reads[a], ws)
}
/// mark_range never records a Range with both ends unbounded (that is Read::All), and BTreeSet::range panics on an
/// inverted range or on an empty one with both ends excluded (finding D15)
pub open spec fn range_ok(lo: BoundV, hi: BoundV) -> bool {
    match (lo, hi) {
        (BoundV::Unbounded, _) => true, (_, BoundV::Unbounded) => true,
        (BoundV::Excluded(s), BoundV::Excluded(e)) => lex_lt(s, e),
        (BoundV::Included(s), BoundV::Included(e)) => lex_le(s, e), (BoundV::Included(s), BoundV::Excluded(e)) => lex_le(s, e), (BoundV::Excluded(s), BoundV::Included(e)) => lex_le(s, e),
    }
}
pub open spec fn read_wf(r: ReadV) -> bool { r matches ReadV::Range { start, end } ==> !(start is Unbounded && end is Unbounded) && range_ok(start, end) }

// ---- std collections behind the two mutexes: BTreeMap<u64, V> as its entries in key order, BTreeSet<Slice> as its keys in order
pub struct BTreeMap<K, V> { pub e: Vec<(K, V)> }
pub struct BTreeSet<T> { pub k: Vec<T> }
pub open spec fn rvs(v: Seq<Read>) -> Seq<ReadV> { Seq::new(v.len(), |i: int| rv(v[i])) }
pub open spec fn reads_view(m: BTreeMap<u64, Vec<Read>>) -> Seq<(u64, Seq<ReadV>)> { Seq::new(m.e@.len(), |i: int| (m.e@[i].0, rvs(m.e@[i].1@))) }
pub open spec fn keys_view(s: BTreeSet<Slice>) -> Seq<Seq<u8>> { Seq::new(s.k@.len(), |i: int| s.k@[i]@) }
pub open spec fn writes_view(m: BTreeMap<u64, BTreeSet<Slice>>) -> Seq<(u64, Seq<Seq<u8>>)> { Seq::new(m.e@.len(), |i: int| (m.e@[i].0, keys_view(m.e@[i].1))) }
pub open spec fn reads_wf(m: BTreeMap<u64, Vec<Read>>) -> bool { forall|a: int, i: int| 0 <= a < m.e@.len() && 0 <= i < m.e@[a].1@.len() ==> read_wf(rv(#[trigger] m.e@[a].1@[i])) }
pub struct MapIter<'a, V> { pub m: &'a BTreeMap<u64, V>, pub idx: Ghost<int> }
impl<'a, V> Iterator for MapIter<'a, V> {
    type Item = (&'a u64, &'a V);
    #[verifier::external_body]
    fn next(&mut self) -> (r: Option<(&'a u64, &'a V)>)
        ensures final(self).m == old(self).m,
            0 <= old(self).idx@ < old(self).m.e@.len() ==> r is Some && *r->Some_0.0 == old(self).m.e@[old(self).idx@].0 && *r->Some_0.1 == old(self).m.e@[old(self).idx@].1 && final(self).idx@ == old(self).idx@ + 1,
            old(self).idx@ >= old(self).m.e@.len() ==> r is None && final(self).idx@ == old(self).idx@,
    { unimplemented!() }
}
impl<'a, V> IntoIterator for &'a BTreeMap<u64, V> {
    type Item = (&'a u64, &'a V);
    type IntoIter = MapIter<'a, V>;
    #[verifier::external_body]
    fn into_iter(self) -> (r: MapIter<'a, V>) ensures r.m == self, r.idx@ == 0 { unimplemented!() }
}
impl<V> BTreeMap<u64, V> {
    #[verifier::external_body] pub fn is_empty(&self) -> (r: bool) ensures r == (self.e@.len() == 0) { unimplemented!() }
}
impl BTreeMap<u64, BTreeSet<Slice>> {
    // BTreeMap::get: the value stored under the key, if any. The last two clauses restate the first two through `lookup`
    // for a map with unique keys; that restatement is PROVED (lemma_lookup_some / lemma_lookup_none), not assumed
    #[verifier::external_body]
    pub fn get(&self, k: &u64) -> (r: Option<&BTreeSet<Slice>>)
        ensures r matches Some(v) ==> exists|b: int| 0 <= b < self.e@.len() && (#[trigger] self.e@[b]).0 == *k && *v == self.e@[b].1,
                r is None ==> forall|b: int| 0 <= b < self.e@.len() ==> (#[trigger] self.e@[b]).0 != *k,
                keys_unique(*self) ==> (r matches Some(v) ==> lookup(writes_view(*self), *k) == Some(keys_view(*v))),
                r is None ==> lookup(writes_view(*self), *k) is None,
    { unimplemented!() }
}
/// a map has one entry per key
pub open spec fn keys_unique<V>(m: BTreeMap<u64, V>) -> bool { forall|a: int, b: int| 0 <= a < m.e@.len() && 0 <= b < m.e@.len() && (#[trigger] m.e@[a]).0 == (#[trigger] m.e@[b]).0 ==> a == b }
pub struct SetIter<'a> { pub s: &'a BTreeSet<Slice>, pub idx: Ghost<int> }
impl<'a> Iterator for SetIter<'a> {
    type Item = &'a Slice;
    #[verifier::external_body]
    fn next(&mut self) -> (r: Option<&'a Slice>)
        ensures final(self).s == old(self).s,
            0 <= old(self).idx@ < old(self).s.k@.len() ==> r is Some && *r->Some_0 == old(self).s.k@[old(self).idx@] && final(self).idx@ == old(self).idx@ + 1,
            old(self).idx@ >= old(self).s.k@.len() ==> r is None && final(self).idx@ == old(self).idx@,
    { unimplemented!() }
}
impl<'a> IntoIterator for &'a BTreeSet<Slice> {
    type Item = &'a Slice;
    type IntoIter = SetIter<'a>;
    #[verifier::external_body]
    fn into_iter(self) -> (r: SetIter<'a>) ensures r.s == self, r.idx@ == 0 { unimplemented!() }
}
pub trait BoundPair { spec fn lo(&self) -> BoundV; spec fn hi(&self) -> BoundV; }
impl<'a> BoundPair for (Bound<&'a Slice>, Bound<&'a Slice>) { open spec fn lo(&self) -> BoundV { bvr(self.0) } open spec fn hi(&self) -> BoundV { bvr(self.1) } }
pub struct SetRange { pub has: Ghost<bool> }
impl SetRange {
    #[verifier::external_body] pub fn next(&mut self) -> (r: Option<&Slice>) ensures r is Some == old(self).has@ { unimplemented!() }
}
impl BTreeSet<Slice> {
    #[verifier::external_body] pub fn contains(&self, k: &Slice) -> (r: bool) ensures r == (exists|j: int| 0 <= j < self.k@.len() && (#[trigger] self.k@[j])@ == k@) { unimplemented!() }
    #[verifier::external_body] pub fn is_empty(&self) -> (r: bool) ensures r == (self.k@.len() == 0) { unimplemented!() }
    // BTreeSet::range: the keys within the bounds; std PANICS if start > end, or if start == end and both are Excluded
    #[verifier::external_body]
    pub fn range<K, R: BoundPair>(&self, r: R) -> (it: SetRange)
        requires range_ok(r.lo(), r.hi()), // [C07:no-panic-inside-the-oracle-critical-section]
        ensures it.has@ == (exists|j: int| 0 <= j < self.k@.len() && above(r.lo(), (#[trigger] self.k@[j])@) && below(r.hi(), self.k@[j]@)),
    { unimplemented!() }
}
// `..=end` / `..end` over &Slice and RangeTo*::contains (core::ops): `item <= end` / `item < end` in the byte order
pub struct RangeToInclusive<T> { pub end: T }
pub struct RangeTo<T> { pub end: T }
impl<'a> RangeToInclusive<&'a Slice> { #[verifier::external_body] pub fn contains(&self, item: &&'a Slice) -> (r: bool) ensures r == lex_le(item@, self.end@) { unimplemented!() } }
impl<'a> RangeTo<&'a Slice> { #[verifier::external_body] pub fn contains(&self, item: &&'a Slice) -> (r: bool) ensures r == lex_lt(item@, self.end@) { unimplemented!() } }

// ---- std::sync::Mutex: lock().expect(..) gives access to the protected value (a poisoned mutex panics: not modelled)
pub struct Mutex<T> { pub v: T }
pub struct LockResult<'a, T> { pub g: MutexGuard<'a, T> }
pub struct MutexGuard<'a, T> { pub t: &'a T }
impl<T> Mutex<T> { #[verifier::external_body] pub fn lock(&self) -> (r: LockResult<'_, T>) ensures *r.g.t == self.v { unimplemented!() } }
impl<'a, T> LockResult<'a, T> { pub fn expect(self, m: &str) -> (r: MutexGuard<'a, T>) ensures r == self.g { self.g } }
impl<'a, T> std::ops::Deref for MutexGuard<'a, T> { type Target = T; fn deref(&self) -> (r: &T) ensures *r == *self.t { self.t } }

//@extract-type src/tx/optimistic/conflict_manager.rs :: ConflictManager

// ---- recording side: ghost log of what push_read is asked to record (push_read itself, 6 lines of Mutex<BTreeMap> plumbing, is NOT under contract)
pub struct World { pub pushed: Seq<(u64, ReadV)> }
impl ConflictManager {
    #[verifier::external_body]
    pub fn push_read(&self, keyspace_id: InternalKeyspaceId, read: Read, Tracked(w): Tracked<&mut World>)
        ensures final(w).pushed == old(w).pushed.push((keyspace_id, rv(read))),
    { unimplemented!() }
}
// std::ops::RangeBounds<Slice>
pub trait RangeBounds<T> { spec fn lo(&self) -> BoundV; spec fn hi(&self) -> BoundV;
    fn start_bound(&self) -> (r: Bound<&Slice>) ensures bvr(r) == self.lo();
    fn end_bound(&self) -> (r: Bound<&Slice>) ensures bvr(r) == self.hi();
}
/// a range that can contain no key at all (inverted, or empty with an excluded end)
pub open spec fn void_range(lo: BoundV, hi: BoundV) -> bool { !range_ok(lo, hi) }
pub proof fn lemma_void_range_covers_nothing(lo: BoundV, hi: BoundV, k: Seq<u8>)
    requires void_range(lo, hi),
    ensures !covers(ReadV::Range { start: lo, end: hi }, k), // [C07:void-range-covers-no-key]
{
    match (lo, hi) {
        (BoundV::Excluded(s), BoundV::Excluded(e)) => { if lex_lt(s, k) && lex_lt(k, e) { lemma_lex_trans(s, k, e); } }
        (BoundV::Included(s), BoundV::Included(e)) => { if lex_le(s, k) && lex_le(k, e) { lemma_lex_le_trans(s, k, e); } }
        (BoundV::Included(s), BoundV::Excluded(e)) => { if lex_le(s, k) && lex_lt(k, e) { lemma_lex_le_trans(s, k, e); } }
        (BoundV::Excluded(s), BoundV::Included(e)) => { if lex_lt(s, k) && lex_le(k, e) { lemma_lex_le_trans(s, k, e); } }
        _ => {}
    }
}
pub proof fn lemma_lex_trans(a: Seq<u8>, b: Seq<u8>, c: Seq<u8>)
    requires lex_lt(a, b), lex_lt(b, c),
    ensures lex_lt(a, c),
    decreases a.len(),
{
    if a.len() > 0 && b.len() > 0 && c.len() > 0 && a[0] == b[0] && b[0] == c[0] { lemma_lex_trans(a.drop_first(), b.drop_first(), c.drop_first()); }
}
pub broadcast proof fn lemma_lex_irrefl(a: Seq<u8>)
    ensures !(#[trigger] lex_lt(a, a)),
    decreases a.len(),
{
    if a.len() > 0 { lemma_lex_irrefl(a.drop_first()); }
}
pub proof fn lemma_lex_le_trans(a: Seq<u8>, b: Seq<u8>, c: Seq<u8>)
    requires lex_le(a, b), lex_le(b, c),
    ensures lex_le(a, c),
{
    if a != b && b != c { lemma_lex_trans(a, b, c); }
}

//@extract src/tx/optimistic/conflict_manager.rs :: ConflictManager :: mark_read world props=C07
//@contract
    ensures final(w).pushed == old(w).pushed.push((keyspace_id, ReadV::Single(key@))), // [C07:S1-point-read-recorded-as-single]
//@end

//@extract src/tx/optimistic/conflict_manager.rs :: ConflictManager :: mark_range world props=C07
//@contract
    ensures
        // a range read is recorded with exactly its bounds (both ends open: the whole keyspace) ...
        !void_range(range.lo(), range.hi()) ==> final(w).pushed == old(w).pushed.push((keyspace_id,
            if range.lo() is Unbounded && range.hi() is Unbounded { ReadV::All } else { ReadV::Range { start: range.lo(), end: range.hi() } })), // [C07:S1-range-read-recorded-with-its-bounds]
        // ... unless it can contain no key at all (nothing observed, nothing to validate)
        void_range(range.lo(), range.hi()) ==> final(w).pushed == old(w).pushed, // [C07:void-range-records-nothing]
        // whatever is recorded is well formed: has_conflict's precondition (no both-open Range; BTreeSet::range cannot panic) (D15)
        forall|i: int| old(w).pushed.len() <= i < final(w).pushed.len() ==> read_wf(#[trigger] final(w).pushed[i].1), // [C07:recorded-reads-are-well-formed]
//@end

// ---- PROVED facts connecting the collection shims to the spec predicates
pub proof fn lemma_lookup_some(m: BTreeMap<u64, BTreeSet<Slice>>, b: int)
    requires keys_unique(m), 0 <= b < m.e@.len(),
    ensures lookup(writes_view(m), m.e@[b].0) == Some(keys_view(m.e@[b].1)),
{
    let ws = writes_view(m); let ks = m.e@[b].0;
    assert(ws[b].0 == ks);
    let c = choose|c: int| 0 <= c < ws.len() && (#[trigger] ws[c]).0 == ks;
    assert(m.e@[c].0 == m.e@[b].0);
}
pub proof fn lemma_lookup_none(m: BTreeMap<u64, BTreeSet<Slice>>, ks: u64)
    requires forall|b: int| 0 <= b < m.e@.len() ==> (#[trigger] m.e@[b]).0 != ks,
    ensures lookup(writes_view(m), ks) is None,
{
    let ws = writes_view(m);
    assert forall|b: int| 0 <= b < ws.len() implies (#[trigger] ws[b]).0 != ks by { assert(m.e@[b].0 != ks); }
}
pub proof fn lemma_set_facts(s: BTreeSet<Slice>)
    ensures
        forall|k: Seq<u8>| (exists|j: int| 0 <= j < s.k@.len() && (#[trigger] s.k@[j])@ == k) == #[trigger] read_hits(ReadV::Single(k), keys_view(s), s.k@.len() as int),
        (s.k@.len() == 0) == !read_hits(ReadV::All, keys_view(s), s.k@.len() as int),
        forall|lo: BoundV, hi: BoundV| (exists|j: int| 0 <= j < s.k@.len() && above(lo, (#[trigger] s.k@[j])@) && below(hi, s.k@[j]@)) == #[trigger] read_hits(ReadV::Range { start: lo, end: hi }, keys_view(s), s.k@.len() as int),
{
    let kv = keys_view(s); let n = s.k@.len() as int;
    assert forall|k: Seq<u8>| (exists|j: int| 0 <= j < s.k@.len() && (#[trigger] s.k@[j])@ == k) == #[trigger] read_hits(ReadV::Single(k), kv, n) by {
        if exists|j: int| 0 <= j < s.k@.len() && (#[trigger] s.k@[j])@ == k { let j = choose|j: int| 0 <= j < s.k@.len() && (#[trigger] s.k@[j])@ == k; assert(covers(ReadV::Single(k), kv[j])); }
        if read_hits(ReadV::Single(k), kv, n) { let j = choose|j: int| 0 <= j < n && covers(ReadV::Single(k), #[trigger] kv[j]); assert(s.k@[j]@ == k); }
    }
    if n > 0 { assert(covers(ReadV::All, kv[0])); }
    assert forall|lo: BoundV, hi: BoundV| (exists|j: int| 0 <= j < s.k@.len() && above(lo, (#[trigger] s.k@[j])@) && below(hi, s.k@[j]@)) == #[trigger] read_hits(ReadV::Range { start: lo, end: hi }, kv, n) by {
        let r = ReadV::Range { start: lo, end: hi };
        if exists|j: int| 0 <= j < s.k@.len() && above(lo, (#[trigger] s.k@[j])@) && below(hi, s.k@[j]@) { let j = choose|j: int| 0 <= j < s.k@.len() && above(lo, (#[trigger] s.k@[j])@) && below(hi, s.k@[j]@); assert(covers(r, kv[j])); }
        if read_hits(r, kv, n) { let j = choose|j: int| 0 <= j < n && covers(r, #[trigger] kv[j]); assert(above(lo, s.k@[j]@) && below(hi, s.k@[j]@)); }
    }
}

//@extract src/tx/optimistic/conflict_manager.rs :: ConflictManager :: has_conflict desugar_for=0,2,3 props=C07
//@contract
    requires reads_wf(self.reads.v), keys_unique(other.conflict_keys.v),
    ensures r == conflicts_spec(reads_view(self.reads.v), self.reads.v.e@.len() as int, writes_view(other.conflict_keys.v)), // [C07:has_conflict-is-the-validation-predicate]
//@proof after let conflict_keys_lock
        let ghost m = self.reads.v; let ghost om = other.conflict_keys.v;
        let ghost rr = reads_view(m); let ghost ww = writes_view(om); let ghost len = m.e@.len() as int;
//@loop 0
                invariant
                    *__fjx_it0.m == m, __fjx_it0.idx@ == __fjx_n0, 0 <= __fjx_n0 <= len, m == self.reads.v, om == other.conflict_keys.v,
                    rr == reads_view(m), ww == writes_view(om), len == m.e@.len(), *conflict_keys_lock.t == om, reads_wf(m), keys_unique(om),
                    !conflicts_spec(rr, __fjx_n0, ww),
                ensures __fjx_n0 == len,
                decreases len - __fjx_n0,
//@proof before @loop-start 0
                proof { assert(*keyspace_name == m.e@[__fjx_n0 - 1].0 && *keys == m.e@[__fjx_n0 - 1].1); assert(rr[__fjx_n0 - 1] == (m.e@[__fjx_n0 - 1].0, rvs(m.e@[__fjx_n0 - 1].1@))); }
//@proof before for ro in
                    let ghost b = choose|b: int| 0 <= b < om.e@.len() && (#[trigger] om.e@[b]).0 == *keyspace_name && *other_conflict_keys == om.e@[b].1;
                    let ghost ockv = keys_view(*other_conflict_keys); let ghost kn = other_conflict_keys.k@.len() as int;
                    proof { lemma_lookup_some(om, b); lemma_set_facts(*other_conflict_keys); }
//@loop 1
                        invariant
                            0 <= it.index@ <= keys@.len(), 0 < __fjx_n0 <= len, *keys == m.e@[__fjx_n0 - 1].1, *keyspace_name == m.e@[__fjx_n0 - 1].0,
                            rr == reads_view(m), ww == writes_view(om), len == m.e@.len(), reads_wf(m), m == self.reads.v, om == other.conflict_keys.v,
                            rr[__fjx_n0 - 1] == (m.e@[__fjx_n0 - 1].0, rvs(m.e@[__fjx_n0 - 1].1@)),
                            lookup(ww, *keyspace_name) == Some(ockv), ockv == keys_view(*other_conflict_keys), kn == other_conflict_keys.k@.len(), kn == ockv.len(),
                            forall|k: Seq<u8>| (exists|j: int| 0 <= j < other_conflict_keys.k@.len() && (#[trigger] other_conflict_keys.k@[j])@ == k) == #[trigger] read_hits(ReadV::Single(k), ockv, kn),
                            (other_conflict_keys.k@.len() == 0) == !read_hits(ReadV::All, ockv, kn),
                            forall|lo: BoundV, hi: BoundV| (exists|j: int| 0 <= j < other_conflict_keys.k@.len() && above(lo, (#[trigger] other_conflict_keys.k@[j])@) && below(hi, other_conflict_keys.k@[j]@)) == #[trigger] read_hits(ReadV::Range { start: lo, end: hi }, ockv, kn),
                            !reads_hit(rvs(keys@), it.index@, ockv),
//@proof before @loop-start 1
                        proof {
                            assert(*ro == m.e@[__fjx_n0 - 1].1@[it.index@]);
                            assert(read_wf(rv(*ro)));
                            assert(rvs(keys@)[it.index@] == rv(*ro));
                            // a hit of THIS read is a conflict of the two transactions
                            assert(read_hits(rv(*ro), ockv, kn) ==> conflicts_spec(rr, len, ww)) by {
                                if read_hits(rv(*ro), ockv, kn) {
                                    assert(reads_hit(rvs(keys@), keys@.len() as int, ockv));
                                    assert(entry_hits(rr[__fjx_n0 - 1], ww));
                                }
                            }
                        }
//@loop 2
                                        invariant
                                            *__fjx_it2.s == *other_conflict_keys, __fjx_it2.idx@ == __fjx_n2, 0 <= __fjx_n2 <= kn, kn == other_conflict_keys.k@.len(), ockv == keys_view(*other_conflict_keys),
                                            rr == reads_view(self.reads.v), len == self.reads.v.e@.len(), ww == writes_view(other.conflict_keys.v),
                                            range.end@ == end@, rv(*ro) == (ReadV::Range { start: BoundV::Unbounded, end: BoundV::Included(end@) }),
                                            read_hits(rv(*ro), ockv, kn) ==> conflicts_spec(rr, len, ww),
                                            forall|j: int| 0 <= j < __fjx_n2 ==> !covers(rv(*ro), #[trigger] ockv[j]),
                                        ensures __fjx_n2 == kn,
                                        decreases kn - __fjx_n2,
//@proof before @loop-start 2
                                        proof { assert(write@ == ockv[__fjx_n2 - 1]); }
//@loop 3
                                        invariant
                                            *__fjx_it3.s == *other_conflict_keys, __fjx_it3.idx@ == __fjx_n3, 0 <= __fjx_n3 <= kn, kn == other_conflict_keys.k@.len(), ockv == keys_view(*other_conflict_keys),
                                            rr == reads_view(self.reads.v), len == self.reads.v.e@.len(), ww == writes_view(other.conflict_keys.v),
                                            range.end@ == end@, rv(*ro) == (ReadV::Range { start: BoundV::Unbounded, end: BoundV::Excluded(end@) }),
                                            read_hits(rv(*ro), ockv, kn) ==> conflicts_spec(rr, len, ww),
                                            forall|j: int| 0 <= j < __fjx_n3 ==> !covers(rv(*ro), #[trigger] ockv[j]),
                                        ensures __fjx_n3 == kn,
                                        decreases kn - __fjx_n3,
//@proof before @loop-start 3
                                        proof { assert(write@ == ockv[__fjx_n3 - 1]); }
//@end

//@canary
} // verus!
fn main() {}
