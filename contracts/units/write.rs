// U-WRITE — the write protocol (src/keyspace/mod.rs, src/batch/mod.rs, src/db.rs): P-LOCK, P-FRESH, P-WAL, P-PUBLISH, P-POISON
#![allow(unused_imports, unused_variables, dead_code, unused_mut, unused_parens, unreachable_code, unused_assignments)]
use vstd::prelude::*;
use vstd::std_specs::iter::IteratorSpec;
verus! {
//@include prelude/core.rs
//@include prelude/fjall_types.rs
//@include spec/ops.rs
pub struct Item { pub keyspace: Keyspace, pub key: UserKey, pub value: UserValue, pub value_type: ValueType }  // src/batch/item.rs (fields)
//@include spec/item_ops.rs
pub type BatchItem = Item;
//@include prelude/world.rs
//@include prelude/handles.rs
//@include prelude/paths.rs
//@path std::sync::atomic::Ordering => atomic_shim::Ordering
//@guards .get_writer(
//@world is_deleted.load seqno.next seqno.get tree.insert tree.remove tree.remove_weak tree.clear drop writer.lock

//@extract-type src/journal/mod.rs :: Journal
//@extract src/journal/mod.rs :: Journal :: get_writer world props=C06+C02+C13
//@contract-file fn/journal_get_writer.c
//@end
//@extract src/journal/mod.rs :: Journal :: persist world props=C09+C13
//@contract-file fn/journal_persist.c
//@end

//@extract src/journal/mod.rs :: Drop for Journal :: drop world inherent props=C09
//@contract
    requires !old(w).journal.locked, inv(*old(w)),
    ensures
        // C09: everything written before the database is dropped is synced to the device (unless the sync itself fails)
        final(w).journal.synced_len == old(w).journal.len || final(w).journal.failed || final(w).journal == old(w).journal, // [C09:dropping-the-journal-syncs-everything-written]
        final(w).journal.recs == old(w).journal.recs && final(w).journal.len == old(w).journal.len && final(w).trees == old(w).trees, // [C09:drop-changes-no-content]
//@end

//@extract src/snapshot_tracker.rs :: SnapshotTracker :: publish world spec_only
//@contract-file fn/tracker_publish.c
//@end

//@extract src/keyspace/mod.rs :: Keyspace :: insert world props=C01+C02+C06+C12+C13+C05
//@contract-file fn/ks_insert.c
//@end

//@extract src/keyspace/mod.rs :: Keyspace :: remove world props=C01+C02+C06+C12+C13+C05
//@contract-file fn/ks_remove.c
//@end

//@extract src/keyspace/mod.rs :: Keyspace :: remove_weak world props=C01+C02+C06+C12+C13+C05
//@contract-file fn/ks_remove_weak.c
//@end

//@extract src/keyspace/mod.rs :: Keyspace :: clear world props=C01+C02+C04+C06+C12+C13+C05
//@contract-file fn/ks_clear.c
//@end

//@extract src/db.rs :: Database :: persist world props=C09+C13+C02
//@contract-file fn/db_persist.c
//@end

//@extract-type src/batch/mod.rs :: WriteBatch
//@include spec/batch_spec.rs

// ---- constructors of a batch: what they establish is WriteBatch::wf's durability clause (finding D11)
//@extract src/batch/mod.rs :: WriteBatch :: new props=C02
//@contract
    ensures r.data@.len() == 0, r.durability is None, r.db == db,
//@end
//@extract src/batch/mod.rs :: WriteBatch :: durability props=C02+C09
//@contract
    ensures r.durability == mode, r.data == self.data, r.db == self.db, // [C09:requested-durability-is-what-commit-uses]
//@end
//@extract src/batch/mod.rs :: WriteBatch :: with_capacity props=C02
//@contract
    ensures r.data@.len() == 0, r.db == db,
        // C02: unless the journal is persisted manually, a committed batch is flushed to the OS before it is acknowledged
        r.durability is None ==> db.config.manual_journal_persist, // [C02:public-batch-constructor-flushes-unless-manual-persist]
//@end
//@extract src/db.rs :: Database :: batch props=C02
//@contract
    ensures r.data@.len() == 0, r.db == *self,
        r.durability is None ==> self.config.manual_journal_persist, // [C02:public-batch-constructor-flushes-unless-manual-persist]
//@end

//@extract src/batch/mod.rs :: WriteBatch :: len props=C03
//@contract
    ensures r == self.data@.len(),
//@end
//@extract src/batch/mod.rs :: WriteBatch :: is_empty props=C03
//@contract
    ensures r == (self.data@.len() == 0),
//@end

//@extract src/batch/mod.rs :: WriteBatch :: commit world until=drop(keyspaces) iter_arg=write_batch:0 props=C01+C02+C03+C06+C09+C13+C05
//@contract-file fn/batch_commit.c
//@loop 0
            invariant
                w.journal.locked, !w.journal.failed, w.inflight == Some(batch_seqno), w.poison == old(w).poison, w.deleted == old(w).deleted,
                w.db_poison == old(w).db_poison, w.db_manual_persist == old(w).db_manual_persist,
                w.visible == old(w).visible, w.seqno == old(w).seqno + 1,
                w.trees.dom() == old(w).trees.dom(),
                forall|k: u64| w.trees.dom().contains(k) ==> (#[trigger] w.trees[k]).manual_persist == old(w).trees[k].manual_persist,
                it.snapshot@.remaining() == data0, 0 <= it.index@ <= data0.len(),
                w.pending == ops_of(data0).skip(it.index@),
                w.journal.recs.len() > 0 && w.journal.recs.last().seqno == batch_seqno && w.journal.recs.last().batch,
                w.journal.recs.last().end <= w.journal.os_len || w.db_manual_persist,
                w.journal.recs == recs1, w.journal.len == len1, w.journal.os_len <= w.journal.len && w.journal.synced_len <= w.journal.os_len,
                batch_size <= it.index@ * 0x1_0001_0040,
                data0.len() <= 0x7fff_ffff,
                forall|i: int| 0 <= i < data0.len() ==> ks_wf(&(#[trigger] data0[i]).keyspace, *old(w)) && data0[i].value_type != ValueType::Indirection,
//@proof before std::mem::take(&mut __fjx_self.data)
        let ghost data0 = self.data@;
        let ghost recs1 = w.journal.recs;
        let ghost len1 = w.journal.len;
//@proof before shim_slice_end
        proof { assert(inv(*w)); assert(!w.journal.locked && w.inflight is None); }
//@end

//@canary
} // verus!
fn main() {}
