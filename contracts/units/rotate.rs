// U-ROTATE — Writer::rotate after its sync-first prefix (src/journal/writer.rs): which file is reported as sealed, which
// becomes the active journal, and how journal file ids advance (C10: sealed and reclaimed oldest first; C04/C02: the
// journal manager must queue the file that was sealed, the writer must append to the new one).
// File names are strings: their meaning is carried by uninterpreted functions with assumed axioms (jname is the text
// "<id>.jnl"; strip_suffix/parse invert it) -- the order of the returned pair, the `+ 1`, the switch of `*self`
// and the exits are the real code. (That the compression setting is carried over is not a property: not stated.)
#![allow(unused_imports, unused_variables, dead_code, unused_mut, unused_parens, unreachable_code, unused_assignments)]
use vstd::prelude::*;
verus! {
//@include prelude/core.rs
//@include prelude/fjall_types.rs
//@include prelude/paths.rs

pub type JournalId = u64;
/// the text "<id>.jnl"
pub uninterp spec fn jname(id: nat) -> Seq<char>;
/// the decimal text of id
pub uninterp spec fn dec(id: nat) -> Seq<char>;
pub open spec fn is_jname(s: Seq<char>) -> bool { exists|id: nat| s == #[trigger] jname(id) }
// ASSUMED (decimal rendering is injective)
#[verifier::external_body]
pub broadcast proof fn axiom_jname_injective(a: nat, b: nat) ensures #[trigger] jname(a) == #[trigger] jname(b) ==> a == b { }

// a path = (directory identity, file name); Path and PathBuf are not distinguished
pub struct PathBuf { pub dir: Ghost<int>, pub name: Ghost<Seq<char>> }
pub struct OsStr { pub s: Ghost<Seq<char>> }
pub struct StrS { pub s: Ghost<Seq<char>> }
pub struct ParseIntError { pub dummy: u8 }
impl Clone for PathBuf { #[verifier::external_body] fn clone(&self) -> (r: PathBuf) ensures r == *self { unimplemented!() } }
impl PathBuf {
    // Path::parent of <dir>/<name>: the directory (name of the directory itself is not looked at: the empty text)
    #[verifier::external_body]
    pub fn parent(&self) -> (r: Option<&PathBuf>) ensures r matches Some(p) ==> p.dir == self.dir && p.name@ == Seq::<char>::empty(),
        is_jname(self.name@) ==> r is Some,   // ASSUMED: a journal file path is <journals dir>/<id>.jnl, it has a parent
    { unimplemented!() }
    #[verifier::external_body]
    pub fn to_path_buf(&self) -> (r: PathBuf) ensures r == *self { unimplemented!() }
    #[verifier::external_body]
    pub fn file_name(&self) -> (r: Option<&OsStr>) ensures r matches Some(n) ==> n.s == self.name, is_jname(self.name@) ==> r is Some, { unimplemented!() }
    // Path::join(folder, file name)
    #[verifier::external_body]
    pub fn join(&self, name: StringS) -> (r: PathBuf) ensures r.dir == self.dir && r.name == name.s { unimplemented!() }
}
impl OsStr { #[verifier::external_body] pub fn to_str(&self) -> (r: Option<&StrS>) ensures r matches Some(t) ==> t.s == self.s, is_jname(self.s@) ==> r is Some, { unimplemented!() } }   // "<id>.jnl" is ASCII
pub struct StringS { pub s: Ghost<Seq<char>> }
impl StrS {
    // str::strip_suffix(".jnl"): ASSUMED for journal file names: "<id>.jnl" minus ".jnl" is the decimal text of id
    #[verifier::external_body]
    pub fn strip_suffix(&self, suffix: &str) -> (r: Option<&StrS>)
        ensures suffix@ == ".jnl"@ ==> (forall|id: nat| self.s@ == #[trigger] jname(id) ==> (r matches Some(t) && t.s@ == dec(id))),
    { unimplemented!() }
    // str::parse::<u64>: ASSUMED: the decimal text of id parses to id (ids are < 2^64 by the writer's invariant)
    #[verifier::external_body]
    pub fn parse<T>(&self) -> (r: Result<u64, ParseIntError>)
        ensures forall|id: nat| self.s@ == #[trigger] dec(id) && id <= u64::MAX ==> r == Ok::<u64, ParseIntError>(id as u64),
    { unimplemented!() }
}
// R-FMT: format!("{}.jnl", id)
#[verifier::external_body]
pub fn shim_format_1(f: &str, id: u64) -> (r: StringS) ensures f@ == "{}.jnl"@ ==> r.s@ == jname(id as nat) { unimplemented!() }

pub struct JFile { pub id: Ghost<int> }
pub struct Writer { pub path: PathBuf, pub file: JFile, pub compression: CompressionType, pub compression_threshold: usize, pub fresh: Ghost<bool> }
// crate::file::fsync_directory
#[verifier::external_body]
pub fn fsync_directory(p: &PathBuf) -> (r: Result<(), IoError>) { unimplemented!() }

impl Writer {
    // Writer::create_new (src/journal/writer.rs, not under contract: File::create_new + set_len + sync_all): a writer on a
    // file that did not exist before, no compression configured
    #[verifier::external_body]
    pub fn create_new(path: PathBuf) -> (r: FjResult<Writer>)
        ensures r matches Ok(wr) ==> wr.path == path && wr.fresh@ && wr.compression == CompressionType::None && wr.compression_threshold == 0,
    { unimplemented!() }
    // Writer::set_compression (two assignments)
    pub fn set_compression(&mut self, comp: CompressionType, threshold: usize)
        ensures *final(self) == (Writer { compression: comp, compression_threshold: threshold, ..*old(self) }),
    { self.compression = comp; self.compression_threshold = threshold; }
}

//@extract src/journal/writer.rs :: Writer :: rotate as=rotate_switch props=C10+C04+C02
//@anchor let prev_path = self.path.clone();
//@to-block-end
//@sig fn rotate_switch(&mut self) -> crate::Result<(PathBuf, PathBuf)>
//@contract
    requires
        // the writer's file is a journal file "<j>.jnl" with room for a successor (ASSUMED: fewer than 2^64 - 1 rotations)
        exists|j: nat| old(self).path.name@ == #[trigger] jname(j) && j < u64::MAX,
        old(self).path.name@ != Seq::<char>::empty(),
    ensures
        r matches Ok(pp) ==> pp.0 == old(self).path, // [C10:first-path-is-the-sealed-file] [C04:first-path-is-the-sealed-file] [C02:first-path-is-the-sealed-file]
        r matches Ok(pp) ==> pp.1 == final(self).path && final(self).fresh@, // [C04:writer-appends-to-the-new-file] [C02:writer-appends-to-the-new-file]
        // journal ids grow by exactly one, in the same directory: recovery orders journals by id, eviction is oldest first
        r matches Ok(pp) ==> pp.1.dir == old(self).path.dir && (forall|j: nat| old(self).path.name@ == #[trigger] jname(j) ==> pp.1.name@ == jname(j + 1)), // [C10:journal-ids-grow-by-one]
        r matches Ok(pp) ==> pp.1 != pp.0, // [C10:new-active-journal-is-a-different-file] [C04:new-active-journal-is-a-different-file]
        // an error exit leaves the writer either on the old file or on the (new, empty) successor
        r is Err ==> final(self).path == old(self).path || final(self).fresh@,
//@proof after let prev_path = self.path.clone();
        let ghost j0 = choose|j: nat| old(self).path.name@ == #[trigger] jname(j) && j < u64::MAX;
        proof { broadcast use axiom_jname_injective; assert(is_jname(self.path.name@)); }
//@proof before let new_path
        proof { assert(journal_id == j0); }
//@end

//@canary
} // verus!
fn main() {}
