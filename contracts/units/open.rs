// U-OPEN — opening a directory (src/db.rs check_version / create_or_recover / recover preamble, src/locked_file.rs):
// the version marker decides, the directory lock is taken without creating or truncating anything, and nothing in the
// directory is touched before both (P-ORDER-OPEN) (C17)
#![allow(unused_imports, unused_variables, dead_code, unused_mut, unused_parens, unreachable_code, unused_assignments)]
use vstd::prelude::*;
use vstd::std_specs::iter::IteratorSpec;
verus! {
//@include prelude/core.rs
//@include prelude/fjall_types.rs
//@include prelude/paths.rs
//@path std::fs::read => fs_read
//@path AsRef => AsRefShim
//@path std::fs::TryLockError => TryLockError
//@path std::thread::sleep => thread_sleep
//@path std::time::Duration::from_millis => duration_from_millis
//@path std::time::Duration::from_micros => duration_from_micros
//@path std::sync::atomic::Ordering => atomic_shim::Ordering
//@path Relaxed => atomic_shim::Ordering::Relaxed
//@path Journal::recover => journal_recover
//@world fs_read try_exists file.try_lock file.try_lock_shared *.open Self::check_version LockedFileGuard::try_acquire journal_recover Self::recover Self::create_new File::create_new

// ---- ghost world: the file system as far as opening a database is concerned
pub struct World {
    pub files: Map<int, Seq<u8>>,       // existing regular files by path identity -> content
    pub lock_other: Set<int>,           // paths whose flock is held through ANOTHER open file description (another instance)
    pub lock_mine: Set<int>,            // paths whose EXCLUSIVE flock this call has acquired
    pub lock_mine_shared: Set<int>,     // paths on which this call holds only a SHARED flock (does not keep other instances out)
    pub mutations: int,                 // number of file-system mutations performed (create / truncate / write / unlink)
    pub recovered: Set<int>, pub created: Set<int>,   // directories handed to Database::recover / Database::create_new
    pub flush_tasks_cleared: bool, pub keyspaces_cleared: bool, pub journal_queue_cleared: bool, pub dir_removed: bool,   // Drop for DatabaseInner
    pub stop_sent: bool, pub threads: nat,   // stop signal raised; background threads of this instance still running
    pub poisoned: bool,                 // the instance's poison flag (fail-stop: no write is acknowledged any more)
}
pub struct PathBuf { pub id: Ghost<int> }
pub struct Path { pub id: Ghost<int> }
pub uninterp spec fn join_id(dir: int, name: int) -> int;       // identity of <dir>/<name>
pub const VERSION_MARKER: u8 = 1;
pub const LOCK_FILE: u8 = 2;
// std::convert::AsRef<Path> (rule R-PATH `AsRef => AsRefShim`): the path a value refers to, by identity
pub trait AsRefShim<T> { spec fn pid(&self) -> int; fn as_ref(&self) -> (r: &Path) ensures r.id@ == self.pid(); }
impl AsRefShim<Path> for &PathBuf { open spec fn pid(&self) -> int { self.id@ } #[verifier::external_body] fn as_ref(&self) -> (r: &Path) { unimplemented!() } }
impl AsRefShim<Path> for PathBuf { open spec fn pid(&self) -> int { self.id@ } #[verifier::external_body] fn as_ref(&self) -> (r: &Path) { unimplemented!() } }
impl Path {
    #[verifier::external_body] pub fn join(&self, name: u8) -> (r: PathBuf) ensures r.id@ == join_id(self.id@, name as int) { unimplemented!() }
}
impl PathBuf {
    #[verifier::external_body] pub fn join(&self, name: u8) -> (r: PathBuf) ensures r.id@ == join_id(self.id@, name as int) { unimplemented!() }
    // Path::try_exists: no mutation
    #[verifier::external_body] pub fn try_exists(&self, Tracked(w): Tracked<&mut World>) -> (r: Result<bool, IoError>)
        ensures *final(w) == *old(w), r is Ok ==> r->Ok_0 == old(w).files.dom().contains(self.id@) { unimplemented!() }
}
impl std::ops::Deref for PathBuf { type Target = Path; #[verifier::external_body] fn deref(&self) -> (r: &Path) ensures r.id == self.id { unimplemented!() } }
// std::fs::read: whole content of an existing file; no mutation
#[verifier::external_body] pub fn fs_read(p: PathBuf, Tracked(w): Tracked<&mut World>) -> (r: Result<Vec<u8>, IoError>)
    ensures *final(w) == *old(w), r is Ok ==> old(w).files.dom().contains(p.id@) && r->Ok_0@ == old(w).files[p.id@],
            !old(w).files.dom().contains(p.id@) ==> r is Err,
{ unimplemented!() }

// ---- std::fs::File / OpenOptions / flock (File::try_lock, std 1.89)
pub struct File { pub path: Ghost<int> }
pub enum TryLockError { Error(IoError), WouldBlock }
impl File {
    // flock(LOCK_EX | LOCK_NB) on this open file description: fails with WouldBlock exactly while another description holds it
    #[verifier::external_body]
    pub fn try_lock(&self, Tracked(w): Tracked<&mut World>) -> (r: Result<(), TryLockError>)
        ensures r is Ok ==> !old(w).lock_other.contains(self.path@) && *final(w) == (World { lock_mine: old(w).lock_mine.insert(self.path@), ..*old(w) }),
                r is Err ==> *final(w) == *old(w),
                r matches Err(TryLockError::WouldBlock) ==> old(w).lock_other.contains(self.path@),
                old(w).lock_other.contains(self.path@) ==> r is Err,
    { unimplemented!() }
    // flock(LOCK_SH | LOCK_NB): succeeds alongside other shared holders; it excludes nobody who also locks shared
    #[verifier::external_body]
    pub fn try_lock_shared(&self, Tracked(w): Tracked<&mut World>) -> (r: Result<(), TryLockError>)
        ensures r is Ok ==> *final(w) == (World { lock_mine_shared: old(w).lock_mine_shared.insert(self.path@), ..*old(w) }),
                r is Err ==> *final(w) == *old(w),
    { unimplemented!() }
    // O_CREAT | O_EXCL: creates the file or fails with AlreadyExists
    #[verifier::external_body]
    pub fn create_new(p: &Path, Tracked(w): Tracked<&mut World>) -> (r: Result<File, IoError>)
        ensures r is Ok ==> !old(w).files.dom().contains(p.id@) && r->Ok_0.path@ == p.id@
                    && *final(w) == (World { files: old(w).files.insert(p.id@, Seq::empty()), mutations: old(w).mutations + 1, ..*old(w) }),
                r is Err ==> *final(w) == *old(w),
                old(w).files.dom().contains(p.id@) ==> (r matches Err(e) && e.kind == IoErrorKind::AlreadyExists),
    { unimplemented!() }
}
pub struct OpenOptions { pub read: bool, pub write: bool, pub create: bool, pub truncate: bool, pub append: bool }
impl OpenOptions {
    pub fn new() -> (r: OpenOptions) ensures r == (OpenOptions { read: false, write: false, create: false, truncate: false, append: false }) { OpenOptions { read: false, write: false, create: false, truncate: false, append: false } }
    pub fn read(self, b: bool) -> (r: OpenOptions) ensures r == (OpenOptions { read: b, ..self }) { OpenOptions { read: b, ..self } }
    pub fn write(self, b: bool) -> (r: OpenOptions) ensures r == (OpenOptions { write: b, ..self }) { OpenOptions { write: b, ..self } }
    pub fn create(self, b: bool) -> (r: OpenOptions) ensures r == (OpenOptions { create: b, ..self }) { OpenOptions { create: b, ..self } }
    pub fn truncate(self, b: bool) -> (r: OpenOptions) ensures r == (OpenOptions { truncate: b, ..self }) { OpenOptions { truncate: b, ..self } }
    // open(2): without O_CREAT / O_TRUNC an open never changes the file system and fails on a missing file
    #[verifier::external_body]
    pub fn open(self, p: &Path, Tracked(w): Tracked<&mut World>) -> (r: Result<File, IoError>)
        ensures r is Ok ==> r->Ok_0.path@ == p.id@,
                !self.create && !self.truncate ==> *final(w) == *old(w) && (r is Ok ==> old(w).files.dom().contains(p.id@)),
                self.create || self.truncate ==> final(w).mutations >= old(w).mutations && final(w).lock_mine == old(w).lock_mine && final(w).lock_other == old(w).lock_other
                    && final(w).recovered == old(w).recovered && final(w).created == old(w).created,
    { unimplemented!() }
}
pub struct Duration { pub ms: u64 }
pub fn duration_from_millis(ms: u64) -> (r: Duration) { Duration { ms } }
pub fn duration_from_micros(us: u64) -> (r: Duration) { Duration { ms: us / 1000 } }
pub mod atomic_shim { pub use std::sync::atomic::Ordering; }
#[verifier::external_body] pub fn thread_sleep(d: Duration) { unimplemented!() }
pub struct Arc<T> { pub t: T }
impl<T> Arc<T> { pub fn new(t: T) -> (r: Arc<T>) ensures r.t == t { Arc { t } } }
pub struct LockedFileGuardInner(pub File);
//@extract-type src/locked_file.rs :: LockedFileGuard

// ---- version marker (contracts proved in U-VERSION, assumed here)
pub type FormatVersion = FormatVersionShim;   // the same three variants (prelude/fjall_types.rs), so crate::Error::InvalidVersion(Some(version)) is verbatim
pub open spec fn version_of_byte(b: u8) -> Result<FormatVersion, ()> {
    match b { 1u8 => Ok(FormatVersion::V1), 2u8 => Ok(FormatVersion::V2), 3u8 => Ok(FormatVersion::V3), _ => Err(()) }
}
pub open spec fn parse_header_spec(b: Seq<u8>) -> Option<FormatVersion> {
    if b.len() >= 4 && b.subrange(0, 3) == seq![70u8, 74u8, 76u8] && version_of_byte(b[3]) is Ok { Some(version_of_byte(b[3])->Ok_0) } else { None }
}
//@extract src/version.rs :: FormatVersion :: parse_file_header spec_only
//@contract
    ensures r == parse_header_spec(bytes@), // [C17:header-accepted-iff]
//@end
pub open spec fn shim_of(v: FormatVersion) -> FormatVersionShim { match v { FormatVersion::V1 => FormatVersionShim::V1, FormatVersion::V2 => FormatVersionShim::V2, FormatVersion::V3 => FormatVersionShim::V3 } }

/// the marker file of a directory is acceptable: "FJL" followed by this major version (3)
pub open spec fn marker_ok(w: World, dir: int) -> bool {
    w.files.dom().contains(join_id(dir, VERSION_MARKER as int)) && parse_header_spec(w.files[join_id(dir, VERSION_MARKER as int)]) == Some(FormatVersion::V3)
}

//@extract src/db.rs :: Database :: check_version world props=C17
//@contract
    ensures
        *final(w) == *old(w), // [C17:version-check-modifies-nothing]
        r is Ok ==> marker_ok(*old(w), path.pid()), // [C17:only-this-major-version-is-accepted]
        !marker_ok(*old(w), path.pid()) ==> r is Err, // [C17:absent-unknown-or-foreign-marker-is-refused]
//@end

//@extract src/locked_file.rs :: LockedFileGuard :: try_acquire world desugar_for_plain=0 props=C17
//@contract
    ensures
        final(w).files == old(w).files && final(w).mutations == old(w).mutations, // [C17:acquiring-the-lock-creates-and-truncates-nothing]
        final(w).lock_other == old(w).lock_other && final(w).recovered == old(w).recovered && final(w).created == old(w).created,
        r is Ok ==> final(w).lock_mine == old(w).lock_mine.insert(path.id@) && !old(w).lock_other.contains(path.id@), // [C17:ok-means-the-lock-is-held]
        old(w).lock_other.contains(path.id@) ==> r is Err && final(w).lock_mine == old(w).lock_mine, // [C17:second-open-fails-while-another-instance-holds-the-lock]
//@loop 0
            invariant_except_break
                *w == *old(w), 0 <= __fjx_n0 <= 2,
                __fjx_it0.remaining().len() == 3 - __fjx_n0,
                forall|j: int| 0 <= j < __fjx_it0.remaining().len() ==> (#[trigger] __fjx_it0.remaining()[j]) == __fjx_n0 + 1 + j,
            invariant
                file.path@ == path.id@, RETRIES == 3,
            ensures
                *w == (World { lock_mine: old(w).lock_mine.insert(path.id@), ..*old(w) }), !old(w).lock_other.contains(path.id@),
            decreases 3 - __fjx_n0,
//@end

// ---- the directory-mutating steps of Database::recover / create_new, by their P-ORDER-OPEN precondition
pub struct CompressionTypeCfg { pub dummy: u8 }
pub struct Config { pub path: PathBuf, pub journal_compression_type: CompressionTypeCfg, pub journal_compression_threshold: usize }
pub struct JournalRecovery { pub dummy: u8 }
// Journal::recover: scans the directory, may CREATE a journal file and TRUNCATES a torn tail: the first mutating step of recover
#[verifier::external_body]
pub fn journal_recover(p: &PathBuf, c: CompressionTypeCfg, t: usize, Tracked(w): Tracked<&mut World>) -> (r: Result<JournalRecovery, Error>)
    requires marker_ok(*old(w), p.id@), // [C17:P-ORDER-OPEN-version-checked-before-any-mutation]
             old(w).lock_mine.contains(join_id(p.id@, LOCK_FILE as int)), // [C17:P-ORDER-OPEN-lock-held-before-any-mutation]
    ensures final(w).lock_mine == old(w).lock_mine,
{ unimplemented!() }

//@extract src/db.rs :: Database :: recover as=recover_preamble world until=Journal::recover( props=C17
//@contract
    ensures
        // a directory that is refused (marker absent/unknown/foreign, or locked by another instance) is left exactly as it was
        !marker_ok(*old(w), config.path.id@) || old(w).lock_other.contains(join_id(config.path.id@, LOCK_FILE as int))
            ==> final(w).mutations == old(w).mutations && final(w).files == old(w).files, // [C17:refused-directory-is-not-modified]
        !marker_ok(*old(w), config.path.id@) ==> r is Err, // [C17:absent-unknown-or-foreign-marker-is-refused]
        old(w).lock_other.contains(join_id(config.path.id@, LOCK_FILE as int)) ==> r is Err, // [C17:second-open-fails-while-another-instance-holds-the-lock]
//@end

pub struct Database { pub dummy: u8 }
impl Database {
    // the two ways to open a directory (their bodies: recover_preamble above / U-META, U-REPLAY slices)
    #[verifier::external_body]
    pub fn recover(config: Config, Tracked(w): Tracked<&mut World>) -> (r: FjResult<Database>)
        ensures *final(w) == (World { recovered: old(w).recovered.insert(config.path.id@), ..*final(w) }), final(w).created == old(w).created { unimplemented!() }
    #[verifier::external_body]
    pub fn create_new(config: Config, Tracked(w): Tracked<&mut World>) -> (r: FjResult<Database>)
        ensures *final(w) == (World { created: old(w).created.insert(config.path.id@), ..*final(w) }), final(w).recovered == old(w).recovered { unimplemented!() }
}
//@extract src/db.rs :: Database :: create_or_recover world props=C17
//@contract
    ensures
        // a directory that carries a version marker is never re-initialised; it goes through recover (and its version check)
        old(w).files.dom().contains(join_id(config.path.id@, VERSION_MARKER as int)) ==> final(w).created == old(w).created, // [C17:existing-marker-is-never-overwritten-by-create]
        !old(w).files.dom().contains(join_id(config.path.id@, VERSION_MARKER as int)) ==> final(w).recovered == old(w).recovered,
//@end

// ---- Drop for DatabaseInner (src/db.rs), from the first cycle-breaking call to the end of drop(): the handles that point back
// at the database (flush tasks, registered keyspaces, eviction watermarks of sealed journals) are released unconditionally,
// otherwise the Arc cycle keeps DatabaseInner's fields -- the directory lock guard and the journal -- alive for ever
pub struct FlushManager { pub dummy: u8 }
impl FlushManager { #[verifier::external_body] pub fn clear(&self, Tracked(w): Tracked<&mut World>) ensures *final(w) == (World { flush_tasks_cleared: true, ..*old(w) }) { unimplemented!() } }
pub struct RwLockH<T> { pub ph: core::marker::PhantomData<T> }
pub struct RwWriteResult<T> { pub ph: core::marker::PhantomData<T> }
impl<T> RwLockH<T> { #[verifier::external_body] pub fn write(&self) -> (r: RwWriteResult<T>) { unimplemented!() } }
impl<T> RwWriteResult<T> { #[verifier::external_body] pub fn expect(self, m: &str) -> (r: T) { unimplemented!() } }   // poisoned lock panics: not modelled
pub struct KeyspacesG { pub dummy: u8 }
impl KeyspacesG { #[verifier::external_body] pub fn clear(&mut self, Tracked(w): Tracked<&mut World>) ensures *final(w) == (World { keyspaces_cleared: true, ..*old(w) }) { unimplemented!() } }
pub struct JournalManagerG { pub dummy: u8 }
impl JournalManagerG { #[verifier::external_body] pub fn clear(&mut self, Tracked(w): Tracked<&mut World>) ensures *final(w) == (World { journal_queue_cleared: true, ..*old(w) }) { unimplemented!() } }
pub struct SupervisorD { pub flush_manager: FlushManager, pub keyspaces: RwLockH<KeyspacesG>, pub journal_manager: RwLockH<JournalManagerG> }
pub struct ConfigD { pub clean_path_on_drop: bool, pub path: PathBuf }
impl PathBuf { #[verifier::external_body] pub fn display(&self) -> (r: u8) { unimplemented!() } }
#[verifier::external_body] pub fn remove_dir_all(p: &PathBuf, Tracked(w): Tracked<&mut World>) -> (r: Result<(), IoError>) ensures *final(w) == (World { dir_removed: final(w).dir_removed, ..*old(w) }) { unimplemented!() }
// background threads: the stop signal, the live-thread counter, the worker pool's channel
pub struct StopSignal { pub dummy: u8 }
impl StopSignal { #[verifier::external_body] pub fn send(&self, Tracked(w): Tracked<&mut World>) ensures *final(w) == (World { stop_sent: true, ..*old(w) }) { unimplemented!() } }
pub struct ThreadCounter { pub dummy: u8 }
impl ThreadCounter {
    // AtomicUsize::load of active_thread_counter. ASSUMED: every background thread decrements it as its last action, and
    // once the database is being dropped no new thread is started, so the count only falls
    #[verifier::external_body]
    pub fn load(&self, o: atomic_shim::Ordering, Tracked(w): Tracked<&mut World>) -> (r: usize)
        ensures final(w).threads <= old(w).threads, r == final(w).threads, *final(w) == (World { threads: final(w).threads, ..*old(w) }),
    { unimplemented!() }
}
pub enum WorkerMessage { Close, Flush, Compact, RotateMemtable }
pub struct SendResult { pub dummy: u8 }
pub struct Drained { pub dummy: u8 }
pub struct WorkerRx { pub dummy: u8 }
pub struct WorkerTx { pub dummy: u8 }
impl WorkerRx { #[verifier::external_body] pub fn drain(&self) -> (r: Drained) { unimplemented!() } }
impl Drained { #[verifier::external_body] pub fn count(self) -> (r: usize) { unimplemented!() } }
impl WorkerTx {
    // flume Sender::send into the BOUNDED worker channel blocks while the channel is full. P-NOBLOCK (C17): the thread that drops the
    // database must never do that -- once the last worker has taken its Close nobody receives any more, and a send into the full
    // channel never returns (the drop would hang and the directory lock would never be released)
    #[verifier::external_body]
    pub fn send(&self, m: WorkerMessage, Tracked(w): Tracked<&mut World>) -> (r: SendResult)
        requires false, // [C17:P-NOBLOCK-drop-never-blocks-on-the-worker-channel]
        ensures final(w).threads <= old(w).threads, *final(w) == (World { threads: final(w).threads, ..*old(w) }),
    { unimplemented!() }
    // flume Sender::try_send: never blocks; a Close that is accepted wakes one worker, which exits
    #[verifier::external_body]
    pub fn try_send(&self, m: WorkerMessage, Tracked(w): Tracked<&mut World>) -> (r: SendResult)
        ensures final(w).threads <= old(w).threads, *final(w) == (World { threads: final(w).threads, ..*old(w) }),
    { unimplemented!() }
}
impl SendResult { #[verifier::external_body] pub fn is_err(&self) -> (r: bool) { unimplemented!() } }
pub struct WorkerPoolD { pub rx: WorkerRx, pub sender: WorkerTx }
pub struct DatabaseInner { pub supervisor: SupervisorD, pub config: ConfigD, pub stop_signal: StopSignal, pub active_thread_counter: ThreadCounter, pub worker_pool: WorkerPoolD }

//@extract src/db.rs :: Drop for DatabaseInner :: drop world inherent no_decreases props=C17
//@world flush_manager.clear .clear remove_dir_all stop_signal.send active_thread_counter.load sender.send sender.try_send
//@contract
    ensures
        final(w).stop_sent, // [C17:stop-signal-raised]
        // C17: when the last handle is gone, drop() has waited until no background thread of this instance is left
        final(w).threads == 0, // [C17:background-threads-have-stopped-when-drop-returns]
        // ... and every back-reference to the database is released, so the lock guard field is dropped and the journal is
        // dropped (synced by Drop for Journal, U-WRITE); reopening then succeeds
        final(w).flush_tasks_cleared && final(w).keyspaces_cleared && final(w).journal_queue_cleared, // [C17:drop-releases-every-back-reference-to-the-database]
//@loop 0
            invariant w.stop_sent,
//@end

// ---- the worker thread's loop body (closure in WorkerPool::start, src/worker_pool.rs): the assumption behind Drop for DatabaseInner's
// wait loop -- "every worker decrements the live-thread counter as its last action" -- checked on the real statement: one
// iteration of `loop { match worker_tick(..) { .. } }`; its `return`s are the thread's exits
pub struct WorkerStateD { pub dummy: u8 }
#[verifier::external_body]
pub fn worker_tick(ws: &WorkerStateD, Tracked(w): Tracked<&mut World>) -> (r: FjResult<bool>) ensures *final(w) == *old(w) { unimplemented!() }
pub struct PoisonDart { pub dummy: u8 }
impl PoisonDart {
    // PoisonDart::poison: sets the database's poison flag (src/poison.rs); its Drop does so only while the thread is panicking
    #[verifier::external_body] pub fn poison(&self, Tracked(w): Tracked<&mut World>) ensures *final(w) == (World { poisoned: true, ..*old(w) }) { unimplemented!() }
}
impl ThreadCounter {
    // AtomicUsize::fetch_sub(1) on active_thread_counter
    #[verifier::external_body]
    pub fn fetch_sub(&self, n: usize, o: atomic_shim::Ordering, Tracked(w): Tracked<&mut World>) -> (r: usize)
        requires old(w).threads >= n,
        ensures *final(w) == (World { threads: (old(w).threads - n) as nat, ..*old(w) }) { unimplemented!() }
}
//@extract src/worker_pool.rs :: WorkerPool :: start as=worker_loop_iteration world props=C17+C13
//@anchor match worker_tick(&worker_state)
//@world worker_tick thread_counter.fetch_sub poison_dart.poison
//@sig fn worker_loop_iteration(worker_state: WorkerStateD, thread_counter: ThreadCounter, poison_dart: PoisonDart, i: usize) -> Result<(), Error>
//@contract
    requires old(w).threads >= 1,   // this thread is counted (WorkerPool::start adds the pool size before spawning)
    ensures
        // whichever way a worker thread ends -- told to close, or stopped by an error -- it is no longer counted as alive
        final(w).threads == old(w).threads - 1, // [C17:a-worker-leaves-only-after-decrementing-the-live-thread-counter]
        // background work (flush, journal rotation, compaction) has no caller to report an error to: a worker that stops with one
        // makes the instance fail-stop
        r is Err ==> final(w).poisoned, // [C13:a-worker-that-stops-with-an-error-poisons-the-instance]
//@end

//@canary
} // verus!
fn main() {}
