// U-OTX — starting an optimistic transaction (src/tx/optimistic/mod.rs write_tx, oracle.rs write_serialize_lock): S5 -- the
// snapshot is taken inside the oracle's critical section, so it cannot be older than a commit that has already been
// validated-and-applied but not yet registered; the lock is released before the transaction is handed out (C07)
#![allow(unused_imports, unused_variables, dead_code, unused_mut, unused_parens, unreachable_code, unused_assignments)]
use vstd::prelude::*;
verus! {
//@include prelude/core.rs
//@include prelude/fjall_types.rs
//@include prelude/paths.rs
//@guards .write_serialize_lock(
//@world write_serialize_lock.lock oracle.write_serialize_lock snapshot_tracker.open drop oracle.with_commit

pub struct World { pub oracle_locked: bool, pub opened: nat,
    pub validations: Seq<(u64, int)> }   // (start instant, read/write-set identity) of every commit attempt handed to the oracle
pub struct ConflictManagerT { pub dummy: u8 }
pub struct BTreeMap<K, V> { pub ph: core::marker::PhantomData<(K, V)> }
pub struct ConflictManager { pub id: Ghost<int> }   // identity of one transaction's recorded reads and writes
impl ConflictManager { #[verifier::external_body] pub fn default() -> (r: ConflictManager) { unimplemented!() } }
pub struct PoisonError { pub dummy: u8 }
pub struct MutexGuard<'a, T> { pub ph: core::marker::PhantomData<&'a T> }
pub struct Mutex<T> { pub ph: core::marker::PhantomData<T> }
impl Mutex<BTreeMap<u64, ConflictManager>> {
    // std::sync::Mutex::lock on the oracle's mutex
    #[verifier::external_body]
    pub fn lock(&self, Tracked(w): Tracked<&mut World>) -> (r: Result<MutexGuard<'_, BTreeMap<u64, ConflictManager>>, PoisonError>)
        requires !old(w).oracle_locked,
        ensures r is Ok ==> *final(w) == (World { oracle_locked: true, ..*old(w) }), r is Err ==> *final(w) == *old(w),
    { unimplemented!() }
}
pub trait ShimDrop { spec fn drop_pre(&self, w: World) -> bool; spec fn drop_post(&self, o: World, n: World) -> bool; }
impl<'a> ShimDrop for MutexGuard<'a, BTreeMap<u64, ConflictManager>> {
    open spec fn drop_pre(&self, w: World) -> bool { w.oracle_locked }
    open spec fn drop_post(&self, o: World, n: World) -> bool { n == (World { oracle_locked: false, ..o }) }
}
#[verifier::external_body]
pub fn drop<T: ShimDrop>(t: T, Tracked(w): Tracked<&mut World>) requires t.drop_pre(*old(w)), ensures t.drop_post(*old(w), *final(w)), { unimplemented!() }
pub struct SnapshotNonce { pub instant: u64, pub under_oracle_lock: Ghost<bool> }
pub struct SnapshotTracker { pub dummy: u8 }
impl SnapshotTracker {
    // SnapshotTracker::open (proved in U-TRACKER); S5 (C07): a write transaction's snapshot must be taken inside the oracle mutex
    #[verifier::external_body]
    pub fn open(&self, Tracked(w): Tracked<&mut World>) -> (r: SnapshotNonce)
        requires old(w).oracle_locked, // [C07:S5-snapshot-taken-inside-the-oracle-critical-section]
        ensures *final(w) == (World { opened: old(w).opened + 1, ..*old(w) }), r.under_oracle_lock@,
    { unimplemented!() }
}
//@extract-type src/tx/optimistic/oracle.rs :: Oracle
//@extract src/tx/optimistic/oracle.rs :: Oracle :: write_serialize_lock world props=C07
//@contract
    requires !old(w).oracle_locked,
    ensures r is Ok ==> *final(w) == (World { oracle_locked: true, ..*old(w) }), // [C07:S4-oracle-lock-is-the-commit-mutex]
        r is Err ==> *final(w) == *old(w),
//@end

pub struct Supervisor { pub snapshot_tracker: SnapshotTracker }
pub struct DbConfig { pub manual_journal_persist: bool }
pub struct Database { pub supervisor: Supervisor, pub config: DbConfig }
impl Clone for Database { #[verifier::external_body] fn clone(&self) -> (r: Database) { unimplemented!() } }
pub struct Arc<T> { pub t: T }
impl<T> std::ops::Deref for Arc<T> { type Target = T; fn deref(&self) -> (r: &T) ensures *r == self.t { &self.t } }
impl<T> Clone for Arc<T> { #[verifier::external_body] fn clone(&self) -> (r: Arc<T>) ensures r == *self { unimplemented!() } }
#[derive(Clone, Copy, PartialEq, Eq)]
pub enum PersistMode { Buffer, SyncData, SyncAll }
pub struct TxMemtables { pub empty: bool }
impl TxMemtables { pub fn is_empty(&self) -> (r: bool) ensures r == self.empty { self.empty } }
pub struct BaseTransaction { pub nonce: SnapshotNonce, pub durability: Option<PersistMode>, pub memtables: TxMemtables }
impl BaseTransaction {
    // BaseTransaction::commit / rollback (U-TX); called from inside the oracle's closure, no ghost state of this unit involved
    #[verifier::external_body] pub fn commit(self) -> (r: FjResult<()>) { unimplemented!() }
    #[verifier::external_body] pub fn rollback(self) { unimplemented!() }
    #[verifier::external_body] pub fn new(db: Database, nonce: SnapshotNonce) -> (r: BaseTransaction) ensures r.nonce == nonce, r.durability is None { unimplemented!() }
    #[verifier::external_body] pub fn durability(self, mode: Option<PersistMode>) -> (r: BaseTransaction) ensures r.nonce == self.nonce, r.durability == mode { unimplemented!() }
}
pub struct OptimisticTxDatabase { pub inner: Database, pub oracle: Arc<Oracle> }
impl OptimisticTxDatabase { pub fn inner(&self) -> (r: &Database) ensures *r == self.inner { &self.inner } }
//@extract-type src/tx/optimistic/write_tx.rs :: WriteTransaction
//@extract src/tx/optimistic/write_tx.rs :: WriteTransaction :: new props=C07
//@contract
    ensures r.inner.nonce == nonce, r.inner.durability is None, r.oracle == oracle,
//@end
//@extract src/tx/optimistic/write_tx.rs :: WriteTransaction :: durability props=C07
//@contract
    ensures r.inner.nonce == self.inner.nonce, r.inner.durability == mode, r.oracle == self.oracle,
//@end

//@extract src/tx/optimistic/mod.rs :: OptimisticTxDatabase :: write_tx world props=C07
//@contract
    requires !old(w).oracle_locked,
    ensures
        !final(w).oracle_locked, // [C07:oracle-lock-released-before-the-transaction-is-handed-out]
        r is Ok ==> r->Ok_0.inner.nonce.under_oracle_lock@, // [C07:S5-snapshot-taken-inside-the-oracle-critical-section]
        r is Ok ==> r->Ok_0.oracle == self.oracle, // [C07:transaction-commits-through-this-database's-oracle]
        r is Ok ==> r->Ok_0.inner.durability == (if self.inner.config.manual_journal_persist { None } else { Some(PersistMode::Buffer) }),
//@end

// ---- committing an optimistic transaction (src/tx/optimistic/write_tx.rs WriteTransaction::commit)
//@extract-type src/tx/optimistic/oracle.rs :: CommitOutcome
pub struct Conflict;
impl Oracle {
    // contract of Oracle::with_commit (U-ORACLE: S3 validates `conflict_checker` against every commit after `instant`, S4 one
    // critical section, S7 `f` runs only if nothing conflicts), restated over this unit's log of validations
    #[verifier::external_body]
    pub fn with_commit<E, F: FnOnce() -> Result<(), E>>(&self, instant: SeqNo, conflict_checker: ConflictManager, f: F, Tracked(w): Tracked<&mut World>) -> (r: FjResult<CommitOutcome<E>>)
        requires !old(w).oracle_locked,
        ensures *final(w) == (World { validations: old(w).validations.push((instant, conflict_checker.id@)), ..*old(w) }),
    { unimplemented!() }
}
//@extract src/tx/optimistic/write_tx.rs :: WriteTransaction :: commit world props=C07
//@contract
    requires !old(w).oracle_locked,
    ensures
        // a transaction with writes reaches the database only through the oracle, validated as of ITS OWN start instant against ITS OWN
        // recorded reads and writes (S3); a transaction without writes changes nothing and needs no validation (it read one snapshot)
        !self.inner.memtables.empty ==> final(w).validations == old(w).validations.push((self.inner.nonce.instant, self.cm.id@)), // [C07:S3-commit-validated-at-its-own-start-instant-with-its-own-read-set]
        self.inner.memtables.empty ==> final(w).validations == old(w).validations && r matches Ok(Ok(_)), // [C07:read-only-transaction-commits-without-effect]
        !final(w).oracle_locked,
//@end
//@extract src/tx/optimistic/write_tx.rs :: WriteTransaction :: rollback props=C07+C08
//@contract
    ensures true,
//@end

//@canary
} // verus!
fn main() {}
