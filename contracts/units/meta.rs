// U-META — keyspace handle construction and deletion (src/keyspace/mod.rs from_database / create_new /
// apply_to_base_config, src/db.rs delete_keyspace): shared poison flag (C13), shared directory lock (C17),
// options and compaction filter forwarded to the tree (C16, C18), delete contract (C12)
#![allow(unused_imports, unused_variables, dead_code, unused_mut, unused_parens, unreachable_code, unused_assignments)]
use vstd::prelude::*;
use vstd::std_specs::iter::IteratorSpec;
verus! {
//@include prelude/core.rs
//@include prelude/fjall_types.rs
//@include prelude/paths.rs
//@path std::sync::atomic::Ordering => atomic_shim::Ordering
//@path flume::Sender => Sender
//@path lsm_tree::Config::new => LsmConfig::new
//@path lsm_tree::Config => LsmConfig
//@path std::fs::create_dir_all => fs_create_dir_all
//@type Arc<dynCompactionFilterFactory+'static> => FilterFactory
//@path std::fs::read_dir => fs_read_dir
//@path std::fs::remove_dir_all => fs_remove_dir_all
//@path std::fs::remove_file => fs_remove_file
//@path KeyspaceCreateOptions::from_kvs => CreateOptions::from_kvs
//@path KeyspaceCreateOptions => CreateOptions
//@world is_deleted.load fs_remove_file is_deleted.store meta_keyspace.resolve_id fs_remove_dir_all keyspaces_lock.insert CreateOptions::from_kvs keyspaces.get keyspaces.write .get keyspace_id_counter.next keyspace_id_counter.set meta_keyspace.create_keyspace

pub mod atomic_shim { pub use std::sync::atomic::Ordering; }
// ---- ghost world of this unit: deleted flags and the meta dictionary
pub struct World { pub deleted: Map<int, bool>, pub names: Set<Seq<u8>>, pub meta_removed: Seq<Seq<u8>>,
    pub removed_dirs: Seq<int>, pub meta_names: Map<u64, Seq<u8>>, pub registered: Map<Seq<u8>, RegG>, pub opts_in_meta: Map<u64, CreateOptions>,
    pub next_ks_id: u64,              // Database.keyspace_id_counter: next internal keyspace id to hand out
    pub journal_ids: Set<u64>,        // keyspace ids that occur in a record of a journal file that still exists
    pub absent_under_write_lock: Set<Seq<u8>>,
    pub fs_log: Seq<(bool, int)> }    // unlink events in order: (is_directory, path identity)   // names found absent from the dictionary inside the CURRENT write-lock critical section
pub struct AtomicBool { pub id: Ghost<int> }
impl AtomicBool {
    #[verifier::external_body]
    pub fn default() -> (r: AtomicBool) { unimplemented!() }   // fresh flag, initially false (std)
    #[verifier::external_body]
    pub fn store(&self, v: bool, o: atomic_shim::Ordering, Tracked(w): Tracked<&mut World>)
        ensures *final(w) == (World { deleted: old(w).deleted.insert(self.id@, v), ..*old(w) }),
    { unimplemented!() }
}
// identities of shared handles: clone() returns the SAME flag / lock / supervisor
pub struct PoisonSignal { pub id: Ghost<int> }
impl PoisonSignal { #[verifier::external_body] pub fn default() -> (r: PoisonSignal) { unimplemented!() } }   // a FRESH flag (derive(Default))
impl Clone for PoisonSignal { #[verifier::external_body] fn clone(&self) -> (r: PoisonSignal) ensures r.id == self.id { unimplemented!() } }
pub struct LockedFileGuard { pub id: Ghost<int> }        // Arc<LockedFileGuardInner>: the flock on <db>/lock lives as long as any clone
impl Clone for LockedFileGuard { #[verifier::external_body] fn clone(&self) -> (r: LockedFileGuard) ensures r.id == self.id { unimplemented!() } }
pub struct Supervisor { pub id: Ghost<int>, pub seqno: SequenceNumberCounter, pub snapshot_tracker: SnapshotTracker, pub keyspaces: KsLock }
impl Clone for Supervisor { #[verifier::external_body] fn clone(&self) -> (r: Supervisor) ensures r == *self { unimplemented!() } }
pub struct SequenceNumberCounter { pub id: Ghost<int> }
impl Clone for SequenceNumberCounter { #[verifier::external_body] fn clone(&self) -> (r: SequenceNumberCounter) ensures r.id == self.id { unimplemented!() } }
pub struct SnapshotTracker { pub visible: SequenceNumberCounter }
impl SnapshotTracker { #[verifier::external_body] pub fn get_ref(&self) -> (r: SequenceNumberCounter) ensures r.id == self.visible.id { unimplemented!() } }
pub struct Stats { pub dummy: u8 }
pub struct Arc<T> { pub t: T }
impl<T> Arc<T> { pub fn new(t: T) -> (r: Arc<T>) ensures r.t == t { Arc { t } } }
impl<T> Clone for Arc<T> { #[verifier::external_body] fn clone(&self) -> (r: Arc<T>) ensures r == *self { unimplemented!() } }
pub struct WorkerMessage { pub dummy: u8 }
pub struct Sender<T> { pub id: Ghost<int>, pub ph: core::marker::PhantomData<T> }
impl<T> Clone for Sender<T> { #[verifier::external_body] fn clone(&self) -> (r: Sender<T>) ensures r.id == self.id { unimplemented!() } }
pub struct WorkerPool { pub sender: Sender<WorkerMessage> }
pub struct KeyspaceKey { pub s: Ghost<Seq<u8>> }
pub struct AnyTree { pub id: Ghost<int>, pub cfg: Ghost<LsmConfigG> }
pub struct PathBuf { pub id: Ghost<int> }
pub uninterp spec fn joined<T>(dir: int, t: T) -> int;   // identity of <dir>/<t>
impl PathBuf { #[verifier::external_body] pub fn join<T>(&self, t: T) -> (r: PathBuf) ensures r.id@ == joined(self.id@, t) { unimplemented!() } }
#[verifier::external_body] pub fn fs_create_dir_all(p: &PathBuf) -> (r: Result<(), IoError>) { unimplemented!() }
pub const KEYSPACES_FOLDER: u8 = 0;
pub struct DbConfig { pub path: PathBuf, pub descriptor_table: DescriptorTable, pub cache: Cache, pub compaction_filter_factory_assigner: Option<Assigner> }
pub struct DescriptorTable { pub id: Ghost<int> }
impl Clone for DescriptorTable { #[verifier::external_body] fn clone(&self) -> (r: DescriptorTable) ensures r.id == self.id { unimplemented!() } }
pub struct Cache { pub id: Ghost<int> }
impl Clone for Cache { #[verifier::external_body] fn clone(&self) -> (r: Cache) ensures r.id == self.id { unimplemented!() } }
pub struct Database { pub supervisor: Supervisor, pub worker_pool: WorkerPool, pub is_poisoned: PoisonSignal, pub lock_file: LockedFileGuard, pub stats: Arc<Stats>, pub config: DbConfig, pub meta_keyspace: MetaKeyspace, pub keyspace_id_counter: IdCounter }

// ---- option values: opaque policies with ghost identity (their codecs are U-POLICY / K-POLICY)
pub struct Policy { pub v: Ghost<int> }
impl Clone for Policy { #[verifier::external_body] fn clone(&self) -> (r: Policy) ensures r.v == self.v { unimplemented!() } }
pub struct KvSepOpts { pub v: Ghost<int> }
impl Clone for KvSepOpts { #[verifier::external_body] fn clone(&self) -> (r: KvSepOpts) ensures r.v == self.v { unimplemented!() } }
pub struct FilterFactory { pub v: Ghost<int> }
impl Clone for FilterFactory { #[verifier::external_body] fn clone(&self) -> (r: FilterFactory) ensures r.v == self.v { unimplemented!() } }
pub struct CreateOptions {   // src/keyspace/options.rs (the fields apply_to_base_config reads)
    pub data_block_size_policy: Policy, pub data_block_compression_policy: Policy, pub index_block_compression_policy: Policy,
    pub data_block_restart_interval_policy: Policy, pub filter_block_pinning_policy: Policy, pub index_block_pinning_policy: Policy,
    pub data_block_hash_ratio_policy: Policy, pub expect_point_read_hits: bool, pub kv_separation_opts: Option<KvSepOpts>,
    pub index_block_partitioning_policy: Policy, pub filter_block_partitioning_policy: Policy, pub filter_policy: Policy,
    pub compaction_filter_factory: Option<FilterFactory>, pub manual_journal_persist: bool,
}
impl CreateOptions {
    // KeyspaceCreateOptions::default(): the built-in defaults -- whatever they are, they are not "the options stored for a keyspace"
    // (nothing relates the result to any stored row)
    #[verifier::external_body]
    pub fn default() -> (r: CreateOptions) ensures r.compaction_filter_factory is None { unimplemented!() }
}
pub open spec fn optv(o: Option<KvSepOpts>) -> Option<int> { match o { Some(x) => Some(x.v@), None => None } }
pub open spec fn facv(o: Option<FilterFactory>) -> Option<int> { match o { Some(x) => Some(x.v@), None => None } }
/// what lsm-tree is configured with (ghost record of lsm_tree::Config builder calls)
pub struct LsmConfigG {
    pub seqno: int, pub visible: int, pub descriptor_table: int, pub cache: int,
    pub data_block_size: int, pub data_block_compression: int, pub index_block_compression: int, pub restart_interval: int,
    pub filter_pinning: int, pub index_pinning: int, pub hash_ratio: int, pub expect_hits: bool, pub kv_sep: Option<int>,
    pub index_partitioning: int, pub filter_partitioning: int, pub filter_policy: int, pub filter_factory: Option<int>,
}
pub struct LsmConfig { pub g: Ghost<LsmConfigG> }
impl LsmConfig {
    #[verifier::external_body] pub fn new(p: PathBuf, seqno: SequenceNumberCounter, visible: SequenceNumberCounter) -> (r: LsmConfig)
        ensures r.g@.seqno == seqno.id@, r.g@.visible == visible.id@ { unimplemented!() }
    #[verifier::external_body] pub fn use_descriptor_table(self, d: DescriptorTable) -> (r: LsmConfig) ensures r.g@ == (LsmConfigG { descriptor_table: d.id@, ..self.g@ }) { unimplemented!() }
    #[verifier::external_body] pub fn use_cache(self, c: Cache) -> (r: LsmConfig) ensures r.g@ == (LsmConfigG { cache: c.id@, ..self.g@ }) { unimplemented!() }
    #[verifier::external_body] pub fn data_block_size_policy(self, p: Policy) -> (r: LsmConfig) ensures r.g@ == (LsmConfigG { data_block_size: p.v@, ..self.g@ }) { unimplemented!() }
    #[verifier::external_body] pub fn data_block_compression_policy(self, p: Policy) -> (r: LsmConfig) ensures r.g@ == (LsmConfigG { data_block_compression: p.v@, ..self.g@ }) { unimplemented!() }
    #[verifier::external_body] pub fn index_block_compression_policy(self, p: Policy) -> (r: LsmConfig) ensures r.g@ == (LsmConfigG { index_block_compression: p.v@, ..self.g@ }) { unimplemented!() }
    #[verifier::external_body] pub fn data_block_restart_interval_policy(self, p: Policy) -> (r: LsmConfig) ensures r.g@ == (LsmConfigG { restart_interval: p.v@, ..self.g@ }) { unimplemented!() }
    #[verifier::external_body] pub fn filter_block_pinning_policy(self, p: Policy) -> (r: LsmConfig) ensures r.g@ == (LsmConfigG { filter_pinning: p.v@, ..self.g@ }) { unimplemented!() }
    #[verifier::external_body] pub fn index_block_pinning_policy(self, p: Policy) -> (r: LsmConfig) ensures r.g@ == (LsmConfigG { index_pinning: p.v@, ..self.g@ }) { unimplemented!() }
    #[verifier::external_body] pub fn data_block_hash_ratio_policy(self, p: Policy) -> (r: LsmConfig) ensures r.g@ == (LsmConfigG { hash_ratio: p.v@, ..self.g@ }) { unimplemented!() }
    #[verifier::external_body] pub fn expect_point_read_hits(self, b: bool) -> (r: LsmConfig) ensures r.g@ == (LsmConfigG { expect_hits: b, ..self.g@ }) { unimplemented!() }
    #[verifier::external_body] pub fn with_kv_separation(self, o: Option<KvSepOpts>) -> (r: LsmConfig) ensures r.g@ == (LsmConfigG { kv_sep: optv(o), ..self.g@ }) { unimplemented!() }
    #[verifier::external_body] pub fn index_block_partitioning_policy(self, p: Policy) -> (r: LsmConfig) ensures r.g@ == (LsmConfigG { index_partitioning: p.v@, ..self.g@ }) { unimplemented!() }
    #[verifier::external_body] pub fn filter_block_partitioning_policy(self, p: Policy) -> (r: LsmConfig) ensures r.g@ == (LsmConfigG { filter_partitioning: p.v@, ..self.g@ }) { unimplemented!() }
    #[verifier::external_body] pub fn filter_policy(self, p: Policy) -> (r: LsmConfig) ensures r.g@ == (LsmConfigG { filter_policy: p.v@, ..self.g@ }) { unimplemented!() }
    #[verifier::external_body] pub fn with_compaction_filter_factory(self, f: Option<FilterFactory>) -> (r: LsmConfig) ensures r.g@ == (LsmConfigG { filter_factory: facv(f), ..self.g@ }) { unimplemented!() }
    #[verifier::external_body] pub fn open(self) -> (r: Result<AnyTree, lsm_tree::Error>) ensures r is Ok ==> r->Ok_0.cfg@ == self.g@ { unimplemented!() }
}
/// C16/C18: the tree is configured with exactly the keyspace's own options and filter factory
pub open spec fn cfg_matches(g: LsmConfigG, o: CreateOptions) -> bool {
    g.data_block_size == o.data_block_size_policy.v@ && g.data_block_compression == o.data_block_compression_policy.v@
    && g.index_block_compression == o.index_block_compression_policy.v@ && g.restart_interval == o.data_block_restart_interval_policy.v@
    && g.filter_pinning == o.filter_block_pinning_policy.v@ && g.index_pinning == o.index_block_pinning_policy.v@
    && g.hash_ratio == o.data_block_hash_ratio_policy.v@ && g.expect_hits == o.expect_point_read_hits && g.kv_sep == optv(o.kv_separation_opts)
    && g.index_partitioning == o.index_block_partitioning_policy.v@ && g.filter_partitioning == o.filter_block_partitioning_policy.v@
    && g.filter_policy == o.filter_policy.v@ && g.filter_factory == facv(o.compaction_filter_factory)
}
pub struct MetaKeyspace { pub dummy: u8 }
impl MetaKeyspace {
    // ASSUMED contract of MetaKeyspace::remove_keyspace (src/meta_keyspace.rs, not under contract: lsm-tree ingestion
    // and byte-level key construction): the name leaves the dictionary and its meta rows get tombstones
    // (contract of the real function: U-METAKS) the name leaves the dictionary and its meta rows get tombstones -- if the
    // keyspace registered under the name is the one with the given id; otherwise nothing changes
    #[verifier::external_body]
    pub fn remove_keyspace(&self, name: &KeyspaceKey, id: InternalKeyspaceId, Tracked(w): Tracked<&mut World>) -> (r: Result<(), Error>)
        ensures r is Ok && is_registered(*old(w), name.s@, id) ==> *final(w) == (World { names: old(w).names.remove(name.s@), meta_removed: old(w).meta_removed.push(name.s@), ..*old(w) }),
                r is Ok && !is_registered(*old(w), name.s@, id) ==> *final(w) == *old(w),
                r is Err ==> *final(w) == *old(w),
    { unimplemented!() }
}
/// the keyspace with this id is the one the dictionary holds under this name
pub open spec fn is_registered(w: World, name: Seq<u8>, id: u64) -> bool { w.registered.dom().contains(name) && w.registered[name].id == id }

// ---- recover_keyspaces (src/recovery.rs): directory scan shims and ghost state
pub struct DirEntry { pub id: Ghost<u64>, pub is_file: Ghost<bool>, pub path: Ghost<int> }   // a directory entry named <id>
pub struct FileType { pub f: bool }
impl FileType { pub fn is_file(&self) -> (r: bool) ensures r == self.f { self.f } }
pub struct OsString { pub id: Ghost<u64> }
pub struct NameStr { pub id: Ghost<u64> }
pub struct ParseResult { pub id: Ghost<u64> }
impl DirEntry {
    #[verifier::external_body] pub fn path(&self) -> (r: PathBuf) ensures r.id == self.path { unimplemented!() }
    #[verifier::external_body] pub fn file_type(&self) -> (r: Result<FileType, IoError>) ensures r is Ok ==> r->Ok_0.f == self.is_file@ { unimplemented!() }
    #[verifier::external_body] pub fn file_name(&self) -> (r: OsString) ensures r.id == self.id { unimplemented!() }
}
impl OsString { #[verifier::external_body] pub fn to_str(&self) -> (r: Option<NameStr>) ensures r is Some && r->Some_0.id == self.id { unimplemented!() } }
impl NameStr { #[verifier::external_body] pub fn parse<T>(&self) -> (r: ParseResult) ensures r.id == self.id { unimplemented!() } }
// ASSUMED: every entry of the keyspaces folder is named by a decimal keyspace id (the real code panics otherwise)
impl ParseResult { #[verifier::external_body] pub fn expect(self, m: &str) -> (r: u64) ensures r == self.id@ { unimplemented!() } }
impl PathBuf {
    #[verifier::external_body] pub fn try_exists(&self) -> (r: Result<bool, IoError>) { unimplemented!() }
}
/// what a directory listing yields (one read of the directory; recovery is single-threaded and holds the directory lock)
pub uninterp spec fn dir_entries(path: int) -> Seq<Result<DirEntry, IoError>>;
#[verifier::external_body] pub fn fs_read_dir(p: &PathBuf) -> (r: Result<Vec<Result<DirEntry, IoError>>, IoError>) ensures r is Ok ==> r->Ok_0@ == dir_entries(p.id@) { unimplemented!() }
/// what is in a log stays in it when the log grows (proved; used for the log of removed directories)
pub mod seqlem { use vstd::prelude::*;
pub broadcast proof fn lemma_push_contains(s: Seq<int>, x: int, y: int)
    ensures #[trigger] s.push(x).contains(y) == (x == y || s.contains(y)),
{
    if s.contains(y) { let i = choose|i: int| 0 <= i < s.len() && s[i] == y; assert(s.push(x)[i] == y); }
    if x == y { assert(s.push(x)[s.len() as int] == y); }
    if s.push(x).contains(y) { let i = choose|i: int| 0 <= i < s.push(x).len() && s.push(x)[i] == y; if i < s.len() { assert(s[i] == y); } }
}
}
broadcast use seqlem::lemma_push_contains;
/// what a handle registered by recovery must look like, one predicate per property
pub open spec fn reg_named(r: RegG, name: Seq<u8>, w0: World) -> bool {   // registered under the name the meta keyspace gives its id
    w0.meta_names.dom().contains(r.id) && w0.meta_names[r.id] == name && w0.opts_in_meta.dom().contains(r.id)
}
pub open spec fn reg_factory(r: RegG, name: Seq<u8>, db: &Database) -> bool {   // exactly the assigner's verdict for THIS name
    r.factory == (match db.config.compaction_filter_factory_assigner { Some(a) => (a.f@)(name), None => None })
}
pub open spec fn reg_cfg(r: RegG, w0: World) -> bool {   // the tree runs with the options stored in the meta keyspace (+ the installed factory)
    w0.opts_in_meta.dom().contains(r.id) && (cfg_matches(r.cfg, CreateOptions { compaction_filter_factory: None, ..w0.opts_in_meta[r.id] }) || cfg_matches_but_factory(r.cfg, w0.opts_in_meta[r.id], r.factory))
}
pub open spec fn reg_counters(r: RegG, db: &Database) -> bool {
    r.cfg.seqno == db.supervisor.seqno.id@ && r.cfg.visible == db.supervisor.snapshot_tracker.visible.id@
}
pub open spec fn reg_poison(r: RegG, db: &Database) -> bool { r.poison == db.is_poisoned.id@ }
pub open spec fn reg_lock(r: RegG, db: &Database) -> bool { r.lock == db.lock_file.id@ }
pub open spec fn is_new(n: Seq<u8>, w: World, w0: World) -> bool { w.registered.dom().contains(n) && !w0.registered.dom().contains(n) }
pub open spec fn cfg_matches_but_factory(g: LsmConfigG, o: CreateOptions, f: Option<int>) -> bool {
    g.data_block_size == o.data_block_size_policy.v@ && g.data_block_compression == o.data_block_compression_policy.v@
    && g.index_block_compression == o.index_block_compression_policy.v@ && g.restart_interval == o.data_block_restart_interval_policy.v@
    && g.filter_pinning == o.filter_block_pinning_policy.v@ && g.index_pinning == o.index_block_pinning_policy.v@
    && g.hash_ratio == o.data_block_hash_ratio_policy.v@ && g.expect_hits == o.expect_point_read_hits && g.kv_sep == optv(o.kv_separation_opts)
    && g.index_partitioning == o.index_block_partitioning_policy.v@ && g.filter_partitioning == o.filter_block_partitioning_policy.v@
    && g.filter_policy == o.filter_policy.v@ && g.filter_factory == f
}
pub struct RegG { pub id: u64, pub cfg: LsmConfigG, pub factory: Option<int>, pub poison: int, pub lock: int }
pub trait PathLike { spec fn pid(&self) -> int; }
impl PathLike for PathBuf { open spec fn pid(&self) -> int { self.id@ } }
impl<'a> PathLike for &'a PathBuf { open spec fn pid(&self) -> int { self.id@ } }
#[verifier::external_body] pub fn fs_remove_dir_all<P: PathLike>(p: P, Tracked(w): Tracked<&mut World>) -> (r: Result<(), IoError>)
    ensures r is Ok ==> *final(w) == (World { removed_dirs: old(w).removed_dirs.push(p.pid()), fs_log: old(w).fs_log.push((true, p.pid())), ..*old(w) }), r is Err ==> *final(w) == *old(w) { unimplemented!() }
#[verifier::external_body] pub fn fs_remove_file<P: PathLike>(p: P, Tracked(w): Tracked<&mut World>) -> (r: Result<(), IoError>)
    ensures r is Ok ==> *final(w) == (World { fs_log: old(w).fs_log.push((false, p.pid())), ..*old(w) }), r is Err ==> *final(w) == *old(w) { unimplemented!() }
pub struct TreeConfig { pub path: PathBuf }
impl AnyTree { #[verifier::external_body] pub fn tree_config(&self) -> (r: &TreeConfig) ensures r.path.id@ == tree_dir(self.id@) { unimplemented!() } }
pub uninterp spec fn tree_dir(tree: int) -> int;
impl AtomicBool {
    #[verifier::external_body]
    pub fn load(&self, o: atomic_shim::Ordering, Tracked(w): Tracked<&mut World>) -> (r: bool)
        ensures *final(w) == *old(w), old(w).deleted.dom().contains(self.id@) ==> r == old(w).deleted[self.id@] { unimplemented!() }
}
pub const LSM_CURRENT_VERSION_MARKER: u8 = 1;
impl MetaKeyspace {
    #[verifier::external_body]
    pub fn resolve_id(&self, id: InternalKeyspaceId, Tracked(w): Tracked<&mut World>) -> (r: Result<Option<KeyspaceKey>, Error>)
        ensures *final(w) == *old(w),
            r matches Ok(Some(n)) ==> old(w).meta_names.dom().contains(id) && n.s@ == old(w).meta_names[id],
            r matches Ok(None) ==> !old(w).meta_names.dom().contains(id),
    { unimplemented!() }
}
impl Clone for KeyspaceKey { #[verifier::external_body] fn clone(&self) -> (r: KeyspaceKey) ensures r.s == self.s { unimplemented!() } }
impl CreateOptions {
    // ASSUMED contract of CreateOptions::from_kvs (src/keyspace/options.rs, not under contract): the options stored in
    // the meta keyspace for this id, with no compaction filter factory
    #[verifier::external_body]
    pub fn from_kvs(id: InternalKeyspaceId, meta: &MetaKeyspace, Tracked(w): Tracked<&mut World>) -> (r: Result<CreateOptions, Error>)
        ensures *final(w) == *old(w), r is Ok ==> old(w).opts_in_meta.dom().contains(id) && r->Ok_0 == old(w).opts_in_meta[id] && r->Ok_0.compaction_filter_factory is None,
    { unimplemented!() }
}
pub struct Assigner { pub f: Ghost<spec_fn(Seq<u8>) -> Option<int>> }   // Arc<dyn Fn(&str) -> Option<Arc<dyn CompactionFilterFactory>>>
impl Assigner {
    #[verifier::external_body]
    pub fn call(&self, name: &KeyspaceKey) -> (r: Option<FilterFactory>) ensures facv(r) == (self.f@)(name.s@) { unimplemented!() }
}
pub struct KsWriteGuard { pub dummy: u8 }
impl KsWriteGuard {
    #[verifier::external_body]
    pub fn insert(&mut self, name: KeyspaceKey, k: Keyspace, Tracked(w): Tracked<&mut World>) -> (r: Option<Keyspace>)
        ensures *final(w) == (World { registered: old(w).registered.insert(name.s@, RegG { id: k.0.t.id, cfg: k.0.t.tree.cfg@, factory: facv(k.0.t.config.compaction_filter_factory), poison: k.0.t.is_poisoned.id@, lock: k.0.t.lock_file.id@ }), ..*old(w) }),
    { unimplemented!() }
}
impl Clone for Keyspace { #[verifier::external_body] fn clone(&self) -> (r: Keyspace) ensures r == *self { unimplemented!() } }

// ---- Database::keyspace (src/db.rs): dictionary lookup, id allocation, meta rows
pub uninterp spec fn str_bytes(s: &str) -> Seq<u8>;
pub uninterp spec fn valid_name(s: Seq<u8>) -> bool;
#[verifier::external_body] pub fn is_valid_keyspace_name(name: &str) -> (r: bool) ensures r == valid_name(str_bytes(name)) { unimplemented!() }
impl vstd::std_specs::convert::FromSpecImpl<&str> for KeyspaceKey {
    open spec fn obeys_from_spec() -> bool { true }
    open spec fn from_spec(s: &str) -> KeyspaceKey { KeyspaceKey { s: Ghost(str_bytes(s)) } }
}
impl From<&str> for KeyspaceKey { #[verifier::external_body] fn from(s: &str) -> (r: KeyspaceKey) { unimplemented!() } }
pub open spec fn reg_of(k: Keyspace) -> RegG {
    RegG { id: k.0.t.id, cfg: k.0.t.tree.cfg@, factory: facv(k.0.t.config.compaction_filter_factory), poison: k.0.t.is_poisoned.id@, lock: k.0.t.lock_file.id@ }
}
pub struct KsLock { pub dummy: u8 }
pub struct KsLockWriteResult { pub dummy: u8 }
impl KsLock {
    // RwLock::write: a new exclusive critical section begins (whatever was observed before it may have changed meanwhile)
    #[verifier::external_body] pub fn write(&self, Tracked(w): Tracked<&mut World>) -> (r: KsLockWriteResult)
        ensures *final(w) == (World { absent_under_write_lock: Set::empty(), ..*old(w) }) { unimplemented!() }
    #[verifier::external_body] pub fn read(&self) -> (r: KsLockReadResult) { unimplemented!() }
}
pub struct KsLockReadResult { pub dummy: u8 }
pub struct KsReadGuard { pub dummy: u8 }
impl KsLockReadResult { #[verifier::external_body] pub fn expect(self, m: &str) -> (r: KsReadGuard) { unimplemented!() } }
impl KsReadGuard {
    // a lookup under the SHARED lock: the answer is only a snapshot (nothing is recorded as established)
    #[verifier::external_body]
    pub fn get(&self, name: &str, Tracked(w): Tracked<&mut World>) -> (r: Option<&Keyspace>)
        ensures *final(w) == *old(w),
            r matches Some(k) ==> old(w).registered.dom().contains(str_bytes(name)) && reg_of(*k) == old(w).registered[str_bytes(name)],
    { unimplemented!() }
}
// a poisoned RwLock panics here in the real code (another thread panicked while holding it): not modelled
impl KsLockWriteResult { #[verifier::external_body] pub fn expect(self, m: &str) -> (r: KsWriteGuard) { unimplemented!() } }
impl KsWriteGuard {
    // HashMap<KeyspaceKey, Keyspace>::get through the write guard: the dictionary of registered handles
    #[verifier::external_body]
    pub fn get(&self, name: &str, Tracked(w): Tracked<&mut World>) -> (r: Option<&Keyspace>)
        ensures r is Some ==> *final(w) == *old(w),
            r matches Some(k) ==> old(w).registered.dom().contains(str_bytes(name)) && reg_of(*k) == old(w).registered[str_bytes(name)],
            r is None ==> !old(w).registered.dom().contains(str_bytes(name)) && *final(w) == (World { absent_under_write_lock: old(w).absent_under_write_lock.insert(str_bytes(name)), ..*old(w) }),
    { unimplemented!() }
}
/// P-ID (C12): every id that names a keyspace in the meta keyspace, and every id that still occurs in a journal record,
/// is below the id counter (established by recovery: recover_keyspaces + journal replay; kept by Database::keyspace)
pub open spec fn ids_below_counter(w: World) -> bool {
    (forall|i: u64| #[trigger] w.meta_names.dom().contains(i) ==> i < w.next_ks_id) && (forall|i: u64| #[trigger] w.journal_ids.contains(i) ==> i < w.next_ks_id)
}
pub struct IdCounter { pub dummy: u8 }
impl IdCounter {
    // SequenceNumberCounter::next = fetch_add(1): returns the current value
    #[verifier::external_body]
    pub fn next(&self, Tracked(w): Tracked<&mut World>) -> (r: u64)
        requires old(w).next_ks_id < u64::MAX,     // ASSUMED: fewer than 2^64 keyspaces are ever created
        ensures r == old(w).next_ks_id, *final(w) == (World { next_ks_id: (r + 1) as u64, ..*old(w) }),
    { unimplemented!() }
    #[verifier::external_body]
    pub fn set(&self, v: u64, Tracked(w): Tracked<&mut World>)
        ensures *final(w) == (World { next_ks_id: v, ..*old(w) }),
    { unimplemented!() }
}
impl MetaKeyspace {
    // ASSUMED contract of MetaKeyspace::create_keyspace (src/meta_keyspace.rs, not under contract: lsm-tree ingestion of the
    // name row and the option rows produced by CreateOptions::encode_kvs, then the dictionary insert, under the write guard).
    // P-ID (C12): the id must not name any keyspace and must not occur in any surviving journal record
    #[verifier::external_body]
    pub fn create_keyspace(&self, id: InternalKeyspaceId, name: &KeyspaceKey, handle: Keyspace, guard: KsWriteGuard, Tracked(w): Tracked<&mut World>) -> (r: Result<(), Error>)
        requires !old(w).meta_names.dom().contains(id) && !old(w).journal_ids.contains(id), // [C12:P-ID-new-keyspace-gets-a-never-used-id]
            // check-then-act: the name was found absent inside the same exclusive critical section that registers it
            old(w).absent_under_write_lock.contains(name.s@), // [C12:registered-only-after-an-absence-check-under-the-same-write-lock] [C16:registered-only-after-an-absence-check-under-the-same-write-lock]
            handle.0.t.id == id, handle.0.t.name.s@ == name.s@,
        ensures r is Ok ==> *final(w) == (World { registered: old(w).registered.insert(name.s@, reg_of(handle)), names: old(w).names.insert(name.s@),
                    meta_names: old(w).meta_names.insert(id, name.s@), opts_in_meta: old(w).opts_in_meta.insert(id, handle.0.t.config), ..*old(w) }),
                r is Err ==> *final(w) == *old(w),
    { unimplemented!() }
}
/// what the assigner says for a name (None when there is no assigner)
pub open spec fn assigned(db: &Database, name: Seq<u8>) -> Option<int> {
    match db.config.compaction_filter_factory_assigner { Some(a) => (a.f@)(name), None => None }
}

//@extract-type src/keyspace/mod.rs :: KeyspaceInner
//@extract-type src/keyspace/mod.rs :: Keyspace
impl std::ops::Deref for Keyspace { type Target = KeyspaceInner; fn deref(&self) -> (r: &KeyspaceInner) ensures *r == self.0.t { &self.0.t } }

//@extract src/keyspace/options.rs :: CreateOptions :: with_compaction_filter_factory props=C18+C16
//@contract
    ensures r == (CreateOptions { compaction_filter_factory: Some(factory), ..self }), // [C16:installing-a-filter-keeps-every-other-option] [C18:factory-installed]
//@end

//@extract src/keyspace/mod.rs :: apply_to_base_config props=C16+C18
//@contract
    ensures cfg_matches(r.g@, *our_config), // [C16:options-forwarded-to-tree] [C18:filter-factory-forwarded-to-tree]
        r.g@.seqno == config.g@.seqno && r.g@.visible == config.g@.visible && r.g@.descriptor_table == config.g@.descriptor_table && r.g@.cache == config.g@.cache,
//@end

//@extract src/keyspace/mod.rs :: Keyspace :: from_database props=C13+C17+C16+C18+C12
//@contract
    ensures
        r.0.t.is_poisoned.id == db.is_poisoned.id, // [C13:keyspace-shares-the-database-poison-flag]
        r.0.t.lock_file.id == db.lock_file.id, // [C17:keyspace-holds-the-directory-lock]
        r.0.t.supervisor == db.supervisor && r.0.t.worker_messager.id == db.worker_pool.sender.id,
        r.0.t.id == keyspace_id && r.0.t.tree == tree && r.0.t.config == config && r.0.t.name == name, // [C12:handle-is-for-the-requested-id] [C16:recovered-options-in-force]
//@end

//@extract src/keyspace/mod.rs :: Keyspace :: create_new props=C13+C17+C16+C18+C06
//@contract
    ensures
        r is Ok ==> r->Ok_0.0.t.is_poisoned.id == db.is_poisoned.id, // [C13:keyspace-shares-the-database-poison-flag]
        r is Ok ==> r->Ok_0.0.t.lock_file.id == db.lock_file.id, // [C17:keyspace-holds-the-directory-lock]
        r is Ok ==> r->Ok_0.0.t.supervisor == db.supervisor && r->Ok_0.0.t.id == keyspace_id && r->Ok_0.0.t.config == config && r->Ok_0.0.t.name == name,
        r is Ok ==> cfg_matches(r->Ok_0.0.t.tree.cfg@, config), // [C16:options-forwarded-to-tree] [C18:filter-factory-forwarded-to-tree]
        r is Ok ==> r->Ok_0.0.t.tree.cfg@.seqno == db.supervisor.seqno.id@ && r->Ok_0.0.t.tree.cfg@.visible == db.supervisor.snapshot_tracker.visible.id@, // [C06:trees-share-the-database-counters]
//@end

//@extract src/keyspace/mod.rs :: Drop for KeyspaceInner :: drop world inherent props=C12
//@contract
    requires old(w).deleted.dom().contains(old(self).is_deleted.id@),
    ensures
        // the files of a keyspace that was NOT deleted are never removed by dropping its last handle
        !old(w).deleted[old(self).is_deleted.id@] ==> *final(w) == *old(w), // [C12:dropping-a-live-keyspace-removes-nothing]
        // a deleted keyspace: the manifest goes first, the directory only after that succeeded (a half-removed keyspace must be
        // recognised as uninitialised by recover_keyspaces, never resurrected)
        old(w).deleted[old(self).is_deleted.id@] ==> ({ let d = tree_dir(old(self).tree.id@); let m = joined(d, LSM_CURRENT_VERSION_MARKER);
            final(w).fs_log == old(w).fs_log || final(w).fs_log == old(w).fs_log.push((false, m)) || final(w).fs_log == old(w).fs_log.push((false, m)).push((true, d)) }), // [C12:manifest-removed-before-the-directory]
//@end

//@extract src/db.rs :: Database :: delete_keyspace world props=C12+C10+C02
//@contract
    ensures
        // the handle's keyspace is the one registered under its name: afterwards the name no longer exists
        r is Ok && is_registered(*old(w), handle.0.t.name.s@, handle.0.t.id) ==> !final(w).names.contains(handle.0.t.name.s@), // [C12:name-no-longer-exists]
        r is Ok ==> final(w).deleted.dom().contains(handle.0.t.is_deleted.id@) && final(w).deleted[handle.0.t.is_deleted.id@], // [C12:old-handles-refuse]
        // a STALE handle (its keyspace was deleted before; the name may have been created again since) deletes nothing:
        // operations on one keyspace never change another, in particular not the keyspace that took over the name
        !is_registered(*old(w), handle.0.t.name.s@, handle.0.t.id) ==> final(w).names == old(w).names && final(w).registered == old(w).registered && final(w).meta_removed == old(w).meta_removed, // [C12:delete-through-a-stale-handle-leaves-the-keyspace-that-took-over-the-name]
        r is Err ==> *final(w) == *old(w), // [C12:failed-delete-changes-nothing] [C10:failed-delete-changes-nothing] [C02:failed-delete-changes-nothing] (a keyspace flagged deleted no longer holds journals back: U-JMGR)
//@end

//@extract src/db.rs :: Database :: keyspace world optmap props=C12+C16+C18+C13+C17
//@contract
    requires valid_name(str_bytes(name)), create_options.requires(()), ids_below_counter(*old(w)), old(w).next_ks_id < u64::MAX,
        // the public API cannot put a compaction filter factory into KeyspaceCreateOptions (the field and its setter are pub(crate))
        forall|o: CreateOptions| create_options.ensures((), o) ==> o.compaction_filter_factory is None,
    ensures
        ids_below_counter(*final(w)), // [C12:P-ID-kept-by-keyspace-creation]
        // an existing name: the registered handle is returned, the caller's options are ignored, nothing changes (C16, C12)
        old(w).registered.dom().contains(str_bytes(name)) ==> r is Ok && reg_of(r->Ok_0) == old(w).registered[str_bytes(name)] && *final(w) == (World { absent_under_write_lock: final(w).absent_under_write_lock, ..*old(w) }), // [C16:existing-name-returns-the-registered-handle-options-ignored] [C12:existing-name-returns-existing-keyspace]
        // a new name: fresh id, shared flag and lock, tree configured with the handle's own options, assigner's verdict installed
        !old(w).registered.dom().contains(str_bytes(name)) && r is Ok ==> r->Ok_0.0.t.id == old(w).next_ks_id, // [C12:P-ID-new-keyspace-gets-the-counter-value]
        !old(w).registered.dom().contains(str_bytes(name)) && r is Ok ==> final(w).registered.dom().contains(str_bytes(name)) && final(w).registered[str_bytes(name)] == reg_of(r->Ok_0), // [C12:new-keyspace-registered-under-its-name]
        !old(w).registered.dom().contains(str_bytes(name)) && r is Ok ==> facv(r->Ok_0.0.t.config.compaction_filter_factory) == assigned(self, str_bytes(name)), // [C18:assigned-filter-installed-on-create-and-only-then]
        !old(w).registered.dom().contains(str_bytes(name)) && r is Ok ==> cfg_matches(r->Ok_0.0.t.tree.cfg@, r->Ok_0.0.t.config), // [C16:options-forwarded-to-tree] [C18:filter-factory-forwarded-to-tree]
        !old(w).registered.dom().contains(str_bytes(name)) && r is Ok ==> r->Ok_0.0.t.is_poisoned.id == self.is_poisoned.id, // [C13:keyspace-shares-the-database-poison-flag]
        !old(w).registered.dom().contains(str_bytes(name)) && r is Ok ==> r->Ok_0.0.t.lock_file.id == self.lock_file.id, // [C17:keyspace-holds-the-directory-lock]
        !old(w).registered.dom().contains(str_bytes(name)) && r is Err ==> final(w).registered == old(w).registered && final(w).meta_names == old(w).meta_names, // [C12:failed-create-registers-nothing]
//@end

//@extract src/recovery.rs :: recover_keyspaces as=recover_keyspaces_scan world desugar_for=0 optmap props=C12+C06+C16+C18+C13+C17+C01+C11
//@anchor for dirent in
//@sig fn recover_keyspaces_scan(db: &Database, meta_keyspace: &MetaKeyspace, keyspaces_folder: PathBuf, keyspaces_lock: &mut KsWriteGuard, mut highest_id: u64) -> FjResult<()>
//@to-block-end
//@contract
    requires 1 <= highest_id < u64::MAX,
        // ASSUMED: no directory of the keyspaces folder is named 2^64-1 (names are ids drawn from the counter)
        forall|j: int| 0 <= j < dir_entries(keyspaces_folder.id@).len() && (#[trigger] dir_entries(keyspaces_folder.id@)[j]) is Ok ==> dir_entries(keyspaces_folder.id@)[j]->Ok_0.id@ < u64::MAX,
    ensures
        // P-ID (C12): after recover_keyspaces the id counter is above every directory id found (referenced or not) ...
        r is Ok ==> forall|j: int| 0 <= j < dir_entries(keyspaces_folder.id@).len() ==> ((#[trigger] dir_entries(keyspaces_folder.id@)[j]) is Ok && !dir_entries(keyspaces_folder.id@)[j]->Ok_0.is_file@ ==> final(w).next_ks_id > dir_entries(keyspaces_folder.id@)[j]->Ok_0.id@), // [C12:P-ID-counter-above-every-directory-id]
//@loop 0
            invariant
                1 <= highest_id < u64::MAX, ents == dir_entries(keyspaces_folder.id@),
                forall|j: int| 0 <= j < ents.len() && (#[trigger] ents[j]) is Ok ==> ents[j]->Ok_0.id@ < u64::MAX,
                // P-ID (C12): the id counter is seeded above EVERY directory id seen so far, referenced or not
                forall|j: int| 0 <= j < __fjx_n0 ==> (ents[j] is Ok && !ents[j]->Ok_0.is_file@ ==> highest_id >= ents[j]->Ok_0.id@), // [C12:P-ID-counter-above-every-directory-id]
                ents.len() == total, 0 <= __fjx_n0 <= total, __fjx_it0.remaining().len() == total - __fjx_n0,
                forall|j: int| 0 <= j < __fjx_it0.remaining().len() ==> (#[trigger] __fjx_it0.remaining()[j]) == ents[__fjx_n0 + j],
                // every keyspace registered so far: recovered options, counters of this database, shared flag and lock, assigner's factory
                forall|n: Seq<u8>| #![trigger w.registered[n]] is_new(n, *w, *old(w)) ==> reg_named(w.registered[n], n, *old(w)), // [C12:recovered-handle-registered-under-its-meta-name]
                forall|n: Seq<u8>| #![trigger w.registered[n]] is_new(n, *w, *old(w)) ==> reg_factory(w.registered[n], n, db), // [C18:assigned-filter-installed-on-recovery]
                forall|n: Seq<u8>| #![trigger w.registered[n]] is_new(n, *w, *old(w)) ==> reg_cfg(w.registered[n], *old(w)), // [C16:recovered-options-in-force]
                forall|n: Seq<u8>| #![trigger w.registered[n]] is_new(n, *w, *old(w)) ==> reg_counters(w.registered[n], db), // [C06:trees-share-the-database-counters] [C11:recovered-trees-advance-the-visible-seqno] [C05:recovered-trees-advance-the-visible-seqno] [C01:recovered-trees-advance-the-visible-seqno] [C18:filtering-compactions-on-recovered-trees-reach-new-snapshots]
                forall|n: Seq<u8>| #![trigger w.registered[n]] is_new(n, *w, *old(w)) ==> reg_poison(w.registered[n], db), // [C13:keyspace-shares-the-database-poison-flag]
                forall|n: Seq<u8>| #![trigger w.registered[n]] is_new(n, *w, *old(w)) ==> reg_lock(w.registered[n], db), // [C17:keyspace-holds-the-directory-lock]
                w.meta_names == old(w).meta_names && w.opts_in_meta == old(w).opts_in_meta,
                forall|n: Seq<u8>| old(w).registered.dom().contains(n) ==> w.registered.dom().contains(n),
                // the folder of a keyspace the meta keyspace no longer knows (deleted, or never completely created) is removed, whatever it still holds
                forall|j: int| 0 <= j < __fjx_n0 ==> (ents[j] is Ok && !ents[j]->Ok_0.is_file@ && ents[j]->Ok_0.id@ != 0 && !old(w).meta_names.dom().contains(ents[j]->Ok_0.id@) ==> w.removed_dirs.contains(ents[j]->Ok_0.path@)), // [C12:folder-of-a-keyspace-unknown-to-the-meta-keyspace-is-removed-at-recovery]
            ensures __fjx_n0 == total,
            decreases total - __fjx_n0,
//@proof before let mut __fjx_it0
        let ghost ents = __fjx_src0@;
        let ghost total = ents.len() as int;
//@proof before @loop-start 0
            proof { assert(dirent == ents[__fjx_n0 - 1]); }
//@end

//@canary
} // verus!
fn main() {}
