// U-SEALED — recovery of sealed journals (src/recovery.rs recover_sealed_memtables, statement slices): which rebuilt
// memtables are kept or thrown away, seqno restore, re-enqueue for eviction (C02, C04, C10, C11, C18)
#![allow(unused_imports, unused_variables, dead_code, unused_mut, unused_parens, unreachable_code, unused_assignments)]
use vstd::prelude::*;
use vstd::std_specs::iter::IteratorSpec;
verus! {
//@include prelude/core.rs
//@include prelude/fjall_types.rs
//@include prelude/replay.rs
//@include prelude/paths.rs
//@path Keyspace => KeyspaceH
//@extract-type src/journal/manager.rs :: EvictionWatermark
//@include prelude/sealed.rs
//@pure get
//@world tree.get_highest_persisted_seqno tree.clear_active_memtable tree.rotate_memtable tree.get_highest_seqno seqno.fetch_max seqno.get journal_manager_lock.enqueue

/// the outcome for one keyspace with records in the sealed journal: its rebuilt memtable is either gone again because the
/// tables already hold everything in it (persisted >= lsn), or it is kept as a sealed memtable and the seqno counter is above it
pub open spec fn decided(n: TreeG, o: TreeG, lsn: u64, seqno: u64) -> bool {
    n.mem_max is None && n.persisted == o.persisted && (
        (o.mem_max is None && n.sealed_max == o.sealed_max)
        || (o.mem_max is Some && o.persisted is Some && o.persisted->Some_0 >= lsn && n.sealed_max == o.sealed_max)
        || (o.mem_max is Some && (o.persisted is None || o.persisted->Some_0 < lsn) && n.sealed_max == omax(o.sealed_max, Some(lsn)) && seqno > lsn))
}
//@extract src/recovery.rs :: recover_sealed_memtables as=sealed_decide world optmap props=C02+C04+C10+C11+C18+C01
//@anchor for wm in watermarks.values()
//@to-block-end
//@sig fn sealed_decide(db: &Database, watermarks: HashMap<InternalKeyspaceId, EvictionWatermark>, journal_path: &PathBuf, journal_size: u64, journal_manager_lock: &mut JmGuard, mut recovered_count: i32) -> ()
//@contract
    requires old(w).recovering, !db.supervisor.seqno.is_visible@, recovered_count == 0,
        // what the replay of this journal (the statements before this slice) leaves behind: every watermark's handle is a
        // registered tree, distinct watermarks are distinct trees, and a non-empty rebuilt memtable tops out at the watermark
        forall|j: int| 0 <= j < watermarks.vals@.len() ==> wm_ok(#[trigger] watermarks.vals@[j]) && old(w).trees.dom().contains(watermarks.vals@[j].keyspace.id)
            && (old(w).trees[watermarks.vals@[j].keyspace.id].mem_max is Some ==> old(w).trees[watermarks.vals@[j].keyspace.id].mem_max == Some(watermarks.vals@[j].lsn)),
        forall|a: int, b: int| 0 <= a < watermarks.vals@.len() && 0 <= b < watermarks.vals@.len() && a != b ==> (#[trigger] watermarks.vals@[a]).keyspace.id != (#[trigger] watermarks.vals@[b]).keyspace.id,
        watermarks.vals@.len() < 0x7fff_ffff,   // ASSUMED: fewer than 2^31 keyspaces have records in one journal (`recovered_count` is an i32)
    ensures true,
//@loop 0
            invariant
                w.recovering, !db.supervisor.seqno.is_visible@, 0 <= it.index@ <= vals.len(), 0 <= recovered_count <= it.index@, vals.len() < 0x7fff_ffff, vals == watermarks.vals@,
                it.snapshot@.remaining().len() == vals.len(),
                forall|j: int| 0 <= j < vals.len() ==> *(#[trigger] it.snapshot@.remaining()[j]) == vals[j],
                forall|j: int| 0 <= j < vals.len() ==> wm_ok(#[trigger] vals[j]) && w.trees.dom().contains(vals[j].keyspace.id),
                forall|a: int, b: int| 0 <= a < vals.len() && 0 <= b < vals.len() && a != b ==> (#[trigger] vals[a]).keyspace.id != (#[trigger] vals[b]).keyspace.id,
                *w == (World { trees: w.trees, seqno: w.seqno, discarded: w.discarded, ..*old(w) }), w.seqno >= old(w).seqno,
                forall|k: u64| #[trigger] w.trees.dom().contains(k) <==> old(w).trees.dom().contains(k),
                // not yet decided: untouched since the replay
                forall|j: int| it.index@ <= j < vals.len() ==> w.trees[(#[trigger] vals[j]).keyspace.id] == old(w).trees[vals[j].keyspace.id]
                    && (w.trees[vals[j].keyspace.id].mem_max is Some ==> w.trees[vals[j].keyspace.id].mem_max == Some(vals[j].lsn)),
                // decided: either everything replayed was already in the tables and is gone again, or it is kept and the counter is above it
                forall|j: int| 0 <= j < it.index@ ==> decided(w.trees[(#[trigger] vals[j]).keyspace.id], old(w).trees[vals[j].keyspace.id], vals[j].lsn, w.seqno), // [C11:counter-above-every-kept-sealed-memtable] [C02:rebuilt-memtable-kept-or-already-persisted]
//@proof before for wm in
        let ghost vals = watermarks.vals@;
//@proof before shim_slice_end
    proof {
        assert(forall|j: int| 0 <= j < vals.len() ==> decided(w.trees[(#[trigger] vals[j]).keyspace.id], old(w).trees[vals[j].keyspace.id], vals[j].lsn, w.seqno)); // [C11:counter-above-every-kept-sealed-memtable] [C02:rebuilt-memtable-kept-or-already-persisted]
        // C10: the journal is handed back to the journal manager with exactly the watermarks collected from its records
        assert(w.queue == old(w).queue.push(QItemG { path: journal_path.id@, wms: wm_pairs(vals) })); // [C10:recovered-sealed-journal-requeued-with-its-watermarks] [C02:recovered-sealed-journal-requeued-with-its-watermarks]
    }
//@end

//@canary
} // verus!
fn main() {}
