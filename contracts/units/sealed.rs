// U-SEALED — recovery of sealed journals (src/recovery.rs recover_sealed_memtables, statement slices): which rebuilt
// memtables are kept or thrown away, seqno restore, re-enqueue for eviction (C02, C04, C10, C11, C18)
#![allow(unused_imports, unused_variables, dead_code, unused_mut, unused_parens, unreachable_code, unused_assignments)]
use vstd::prelude::*;
use vstd::std_specs::iter::IteratorSpec;
verus! {
//@include prelude/core.rs
//@include prelude/fjall_types.rs
//@include prelude/replay.rs
//@include prelude/paths.rs
//@extract-type src/journal/manager.rs :: EvictionWatermark
//@include prelude/sealed.rs
//@pure get
//@world meta_keyspace.resolve_id keyspaces_lock.get tree.insert tree.remove tree.remove_weak tree.clear keyspace_id_counter.fetch_max tree.get_highest_persisted_seqno tree.clear_active_memtable tree.rotate_memtable tree.get_highest_seqno seqno.fetch_max seqno.get journal_manager_lock.enqueue

/// journal batches carry non-decreasing seqnos (writers draw them under the journal lock and append in lock order: P-LOCK, U-WRITE)
pub open spec fn ascending(bs: Seq<BatchV>) -> bool { forall|a: int, b: int| 0 <= a <= b < bs.len() ==> (#[trigger] bs[a]).seqno <= (#[trigger] bs[b]).seqno }
/// recovery registers every keyspace under the id its meta row names (reg_named, U-META): a journaled id resolves to the handle with that id
pub open spec fn resolve_is_identity(w: World) -> bool { forall|id: u64| (#[trigger] resolve(w, id)) is Some ==> resolve(w, id) == Some(id) }
/// the watermark table while a sealed journal is replayed (`bound`: seqno of the batch being applied)
pub open spec fn wm_inv(wm: HashMap<InternalKeyspaceId, EvictionWatermark>, t: Map<u64, TreeG>, bound: u64) -> bool {
    &&& wm.keys@.len() == wm.vals@.len()
    &&& (forall|i: int, j: int| 0 <= i < wm.keys@.len() && 0 <= j < wm.keys@.len() && i != j ==> (#[trigger] wm.keys@[i]) != (#[trigger] wm.keys@[j]))
    &&& (forall|i: int| 0 <= i < wm.vals@.len() ==> wm_ok(#[trigger] wm.vals@[i]) && wm.vals@[i].keyspace.id == wm.keys@[i] && t.dom().contains(wm.keys@[i]) && wm.vals@[i].lsn <= bound)
    // every tree whose rebuilt memtable is not empty has a watermark, and the memtable tops out exactly at it
    &&& (forall|k: u64| #![trigger t[k]] t.dom().contains(k) && t[k].mem_max is Some ==> exists|i: int| 0 <= i < wm.keys@.len() && #[trigger] wm.keys@[i] == k && t[k].mem_max == Some(wm.vals@[i].lsn))
    &&& (forall|k: u64| #![trigger t[k]] t.dom().contains(k) && t[k].mem_max is Some ==> t[k].mem_max->Some_0 <= bound)
}
pub open spec fn has_key(wm: HashMap<InternalKeyspaceId, EvictionWatermark>, id: u64) -> bool { exists|i: int| 0 <= i < wm.keys@.len() && #[trigger] wm.keys@[i] == id }
pub open spec fn umax(a: u64, b: u64) -> u64 { if a > b { a } else { b } }
/// `entry(id).and_modify(|p| p.lsn = p.lsn.max(seqno)).or_insert_with(|| EvictionWatermark { keyspace: handle, lsn: seqno })`
pub open spec fn wm_updated(a: HashMap<InternalKeyspaceId, EvictionWatermark>, b: HashMap<InternalKeyspaceId, EvictionWatermark>, id: u64, seqno: u64, handle: Keyspace) -> bool {
    if has_key(a, id) {
        b.keys == a.keys && b.vals@.len() == a.vals@.len()
        && forall|j: int| 0 <= j < a.keys@.len() ==> #[trigger] b.vals@[j] == (if a.keys@[j] == id { EvictionWatermark { keyspace: a.vals@[j].keyspace, lsn: umax(a.vals@[j].lsn, seqno) } } else { a.vals@[j] })
    } else {
        b.keys@ == a.keys@.push(id) && b.vals@ == a.vals@.push(EvictionWatermark { keyspace: handle, lsn: seqno })
    }
}
pub proof fn lemma_wm_step(a: HashMap<InternalKeyspaceId, EvictionWatermark>, b: HashMap<InternalKeyspaceId, EvictionWatermark>, t0: Map<u64, TreeG>, t1: Map<u64, TreeG>,
        id: u64, seqno: u64, cleared: bool, handle: Keyspace)
    requires wm_inv(a, t0, seqno), handle.id == id, handle.tree.id@ == id, t0.dom().contains(id), wm_updated(a, b, id, seqno, handle),
        forall|k: u64| #[trigger] t1.dom().contains(k) <==> t0.dom().contains(k),
        forall|k: u64| k != id && t0.dom().contains(k) ==> #[trigger] t1[k] == t0[k],
        t1[id].mem_max == (if cleared { None::<u64> } else { Some(if t0[id].mem_max is Some && t0[id].mem_max->Some_0 > seqno { t0[id].mem_max->Some_0 } else { seqno }) }),
    ensures wm_inv(b, t1, seqno),
{
    if has_key(a, id) {
        let i0 = choose|i: int| 0 <= i < a.keys@.len() && #[trigger] a.keys@[i] == id;
        assert(b.vals@[i0].lsn == umax(a.vals@[i0].lsn, seqno));
        assert forall|k: u64| #![trigger t1[k]] t1.dom().contains(k) && t1[k].mem_max is Some implies exists|i: int| 0 <= i < b.keys@.len() && #[trigger] b.keys@[i] == k && t1[k].mem_max == Some(b.vals@[i].lsn) by {
            if k == id { assert(b.keys@[i0] == id); }
            else { let i = choose|i: int| 0 <= i < a.keys@.len() && #[trigger] a.keys@[i] == k && t0[k].mem_max == Some(a.vals@[i].lsn); assert(b.keys@[i] == k && b.vals@[i] == a.vals@[i]); }
        }
    } else {
        let n = a.keys@.len() as int;
        assert(b.keys@[n] == id && b.vals@[n].lsn == seqno);
        assert(t0[id].mem_max is None) by { if t0[id].mem_max is Some { let i = choose|i: int| 0 <= i < a.keys@.len() && #[trigger] a.keys@[i] == id && t0[id].mem_max == Some(a.vals@[i].lsn); } }
        assert forall|k: u64| #![trigger t1[k]] t1.dom().contains(k) && t1[k].mem_max is Some implies exists|i: int| 0 <= i < b.keys@.len() && #[trigger] b.keys@[i] == k && t1[k].mem_max == Some(b.vals@[i].lsn) by {
            if k == id { assert(b.keys@[n] == id); }
            else { let i = choose|i: int| 0 <= i < a.keys@.len() && #[trigger] a.keys@[i] == k && t0[k].mem_max == Some(a.vals@[i].lsn); assert(b.keys@[i] == k && b.vals@[i] == a.vals@[i]); }
        }
    }
}

//@extract src/recovery.rs :: recover_sealed_memtables as=sealed_replay world desugar_for_plain=0 desugar_for=1,2 props=C02+C03+C04+C10+C12+C11
//@anchor for batch in reader
//@sig fn sealed_replay(db: &Database, reader: JournalBatchReader, keyspaces_lock: &KsReadGuard, watermarks: &mut HashMap<InternalKeyspaceId, EvictionWatermark>) -> FjResult<()>
//@contract
    requires !db.supervisor.seqno.is_visible@,
        old(w).recovering, !old(w).active, reader.idx@ == 0, no_indirection(reader.emits@), ids_valid(reader.emits@), ascending(reader.emits@), resolve_is_identity(*old(w)),
        old(watermarks).keys@.len() == 0 && old(watermarks).vals@.len() == 0,
        // every rebuilt memtable of an earlier sealed journal has been sealed or thrown away (sealed_decide's postcondition)
        forall|k: u64| #![trigger old(w).trees[k]] old(w).trees.dom().contains(k) ==> old(w).trees[k].mem_max is None,
    ensures replay_frame(*old(w), *final(w)), // [C12:replay-touches-only-trees]
//@loop 0
                invariant
                    w.recovering, !db.supervisor.seqno.is_visible@, !w.active, replay_frame(*old(w), *w), no_indirection(reader.emits@), ascending(reader.emits@), resolve_is_identity(*old(w)),
                    __fjx_it0.emits == reader.emits, __fjx_it0.idx@ == __fjx_n0, 0 <= __fjx_n0 <= reader.emits@.len(),
                    w.trees == replay_batches(*old(w), old(w).trees, reader.emits@, __fjx_n0), // [C02:replay-is-the-fold-of-the-emitted-batches]
                    ids_valid(reader.emits@), all_ids_below(reader.emits@, __fjx_n0, w.next_ks_id), // [C12:P-ID-counter-above-every-journaled-id]
                    seqnos_below(reader.emits@, __fjx_n0, w.seqno), // [C11:counter-above-every-replayed-journal-record]
                    wm_inv(*watermarks, w.trees, if __fjx_n0 > 0 { reader.emits@[__fjx_n0 - 1].seqno } else { 0 }), // [C10:watermark-tops-every-rebuilt-memtable]
                ensures __fjx_n0 == reader.emits@.len(),
                decreases reader.emits@.len() - __fjx_n0,
//@proof after let batch = match (batch)
            let ghost bv = batch_view(batch);
            let ghost t0 = w.trees;
            proof { assert(bv == reader.emits@[__fjx_n0 - 1]); if __fjx_n0 > 1 { assert(reader.emits@[__fjx_n0 - 2].seqno <= reader.emits@[__fjx_n0 - 1].seqno); } }
//@loop 1
                    invariant
                        w.recovering, !db.supervisor.seqno.is_visible@, !w.active, replay_frame(*old(w), *w), bv == reader.emits@[__fjx_n0 - 1], 0 < __fjx_n0 <= reader.emits@.len(), no_indirection(reader.emits@), ascending(reader.emits@), resolve_is_identity(*old(w)),
                        batch.seqno == bv.seqno, batch.cleared_keyspaces@ == bv.cleared,
                        0 <= __fjx_n1 <= bv.items.len(), __fjx_it1.remaining().len() == bv.items.len() - __fjx_n1,
                        forall|j: int| 0 <= j < __fjx_it1.remaining().len() ==> item_view(#[trigger] __fjx_it1.remaining()[j]) == bv.items[__fjx_n1 + j],
                        w.trees == replay_items(*old(w), t0, bv.items, __fjx_n1, bv.seqno), // [C02:every-item-of-the-batch-applied] [C03:every-item-of-the-batch-applied] [C12:unknown-ids-skipped-not-aborting]
                        ids_valid(reader.emits@), all_ids_below(reader.emits@, __fjx_n0 - 1, w.next_ks_id), ids_below(bv, __fjx_n1, 0, w.next_ks_id), // [C12:P-ID-counter-above-every-journaled-id]
                        seqnos_below(reader.emits@, __fjx_n0, w.seqno), // [C11:counter-above-every-replayed-journal-record]
                        wm_inv(*watermarks, w.trees, bv.seqno), // [C10:watermark-tops-every-rebuilt-memtable]
                        __fjx_it0.emits == reader.emits, __fjx_it0.idx@ == __fjx_n0,
                        t0 == replay_batches(*old(w), old(w).trees, reader.emits@, __fjx_n0 - 1),
                    ensures __fjx_n1 == bv.items.len(),
                    decreases bv.items.len() - __fjx_n1,
//@proof before @loop-start 1
                    proof { assert(item_view(item) == bv.items[__fjx_n1 - 1]); }
//@proof before match (watermarks.hof_get(item.keyspace_id))
                    let ghost wm0 = *watermarks; let ghost tr0 = w.trees;
                    proof { assert(resolve(*old(w), item.keyspace_id) == Some(handle.id)); assert(handle.id == item.keyspace_id); }
//@proof after match item.value_type
                    proof { assert(wm_updated(wm0, *watermarks, item.keyspace_id, batch.seqno, *handle)); lemma_wm_step(wm0, *watermarks, tr0, w.trees, item.keyspace_id, batch.seqno, false, *handle); }
//@loop 2
                    invariant
                        w.recovering, !db.supervisor.seqno.is_visible@, !w.active, replay_frame(*old(w), *w), bv == reader.emits@[__fjx_n0 - 1], 0 < __fjx_n0 <= reader.emits@.len(), no_indirection(reader.emits@), ascending(reader.emits@), resolve_is_identity(*old(w)),
                        batch.seqno == bv.seqno, batch.cleared_keyspaces@ == bv.cleared,
                        0 <= __fjx_n2 <= bv.cleared.len(), __fjx_it2.remaining().len() == bv.cleared.len() - __fjx_n2,
                        forall|j: int| 0 <= j < __fjx_it2.remaining().len() ==> *(#[trigger] __fjx_it2.remaining()[j]) == bv.cleared[__fjx_n2 + j],
                        w.trees == replay_clears(*old(w), replay_items(*old(w), t0, bv.items, bv.items.len() as int, bv.seqno), bv.cleared, __fjx_n2, bv.seqno), // [C04:clear-re-executed-on-replay]
                        ids_valid(reader.emits@), all_ids_below(reader.emits@, __fjx_n0 - 1, w.next_ks_id), ids_below(bv, bv.items.len() as int, __fjx_n2, w.next_ks_id), // [C12:P-ID-counter-above-every-journaled-id]
                        seqnos_below(reader.emits@, __fjx_n0, w.seqno), // [C11:counter-above-every-replayed-journal-record]
                        wm_inv(*watermarks, w.trees, bv.seqno), // [C10:watermark-tops-every-rebuilt-memtable]
                        __fjx_it0.emits == reader.emits, __fjx_it0.idx@ == __fjx_n0,
                        t0 == replay_batches(*old(w), old(w).trees, reader.emits@, __fjx_n0 - 1),
                    ensures __fjx_n2 == bv.cleared.len(),
                    decreases bv.cleared.len() - __fjx_n2,
//@proof before @loop-start 2
                    proof { assert(*keyspace_id == bv.cleared[__fjx_n2 - 1]); }
//@proof before match (watermarks.hof_get(*keyspace_id))
                    let ghost wm0 = *watermarks; let ghost tr0 = w.trees;
                    proof { assert(resolve(*old(w), *keyspace_id) == Some(handle.id)); assert(handle.id == *keyspace_id); }
//@proof before @loop-end 2
                    proof { assert(wm_updated(wm0, *watermarks, *keyspace_id, batch.seqno, *handle)); lemma_wm_step(wm0, *watermarks, tr0, w.trees, *keyspace_id, batch.seqno, true, *handle); }
//@proof before shim_slice_end
    proof {
        assert(w.trees == replay_batches(*old(w), old(w).trees, reader.emits@, reader.emits@.len() as int)); // [C02:all-emitted-batches-replayed]
        assert(all_ids_below(reader.emits@, reader.emits@.len() as int, w.next_ks_id)); // [C12:P-ID-counter-above-every-journaled-id]
        assert(seqnos_below(reader.emits@, reader.emits@.len() as int, w.seqno)); // [C11:counter-above-every-replayed-journal-record]
        // what sealed_decide requires of the watermark table (its stated precondition, now a consequence of the replay)
        assert(forall|j: int| 0 <= j < watermarks.vals@.len() ==> wm_ok(#[trigger] watermarks.vals@[j]) && w.trees.dom().contains(watermarks.vals@[j].keyspace.id)
            && (w.trees[watermarks.vals@[j].keyspace.id].mem_max is Some ==> w.trees[watermarks.vals@[j].keyspace.id].mem_max == Some(watermarks.vals@[j].lsn))); // [C10:watermark-tops-every-rebuilt-memtable] [C04:decision-slice-precondition-established]
        assert(forall|a: int, b: int| 0 <= a < watermarks.vals@.len() && 0 <= b < watermarks.vals@.len() && a != b ==> (#[trigger] watermarks.vals@[a]).keyspace.id != (#[trigger] watermarks.vals@[b]).keyspace.id); // [C04:decision-slice-precondition-established]
    }
//@end

/// the outcome for one keyspace with records in the sealed journal: its rebuilt memtable is either gone again because the
/// tables already hold everything in it (persisted >= lsn), or it is kept as a sealed memtable and the seqno counter is above it
pub open spec fn decided(n: TreeG, o: TreeG, lsn: u64, seqno: u64) -> bool {
    n.mem_max is None && n.persisted == o.persisted && (
        (o.mem_max is None && n.sealed_max == o.sealed_max)
        || (o.mem_max is Some && o.persisted is Some && o.persisted->Some_0 >= lsn && n.sealed_max == o.sealed_max)
        || (o.mem_max is Some && (o.persisted is None || o.persisted->Some_0 < lsn) && n.sealed_max == omax(o.sealed_max, Some(lsn)) && seqno > lsn))
}
//@extract src/recovery.rs :: recover_sealed_memtables as=sealed_decide world optmap props=C02+C04+C10+C11+C18+C01
//@anchor for wm in watermarks.values()
//@to-block-end
//@sig fn sealed_decide(db: &Database, watermarks: HashMap<InternalKeyspaceId, EvictionWatermark>, journal_path: &PathBuf, journal_size: u64, journal_manager_lock: &mut JmGuard, mut recovered_count: i32) -> ()
//@contract
    requires old(w).recovering, !db.supervisor.seqno.is_visible@, recovered_count == 0,
        // what the replay of this journal (the statements before this slice) leaves behind: every watermark's handle is a
        // registered tree, distinct watermarks are distinct trees, and a non-empty rebuilt memtable tops out at the watermark
        forall|j: int| 0 <= j < watermarks.vals@.len() ==> wm_ok(#[trigger] watermarks.vals@[j]) && old(w).trees.dom().contains(watermarks.vals@[j].keyspace.id)
            && (old(w).trees[watermarks.vals@[j].keyspace.id].mem_max is Some ==> old(w).trees[watermarks.vals@[j].keyspace.id].mem_max == Some(watermarks.vals@[j].lsn)),
        forall|a: int, b: int| 0 <= a < watermarks.vals@.len() && 0 <= b < watermarks.vals@.len() && a != b ==> (#[trigger] watermarks.vals@[a]).keyspace.id != (#[trigger] watermarks.vals@[b]).keyspace.id,
        watermarks.vals@.len() < 0x7fff_ffff,   // ASSUMED: fewer than 2^31 keyspaces have records in one journal (`recovered_count` is an i32)
    ensures true,
//@loop 0
            invariant
                w.recovering, !db.supervisor.seqno.is_visible@, 0 <= it.index@ <= vals.len(), 0 <= recovered_count <= it.index@, vals.len() < 0x7fff_ffff, vals == watermarks.vals@,
                it.snapshot@.remaining().len() == vals.len(),
                forall|j: int| 0 <= j < vals.len() ==> *(#[trigger] it.snapshot@.remaining()[j]) == vals[j],
                forall|j: int| 0 <= j < vals.len() ==> wm_ok(#[trigger] vals[j]) && w.trees.dom().contains(vals[j].keyspace.id),
                forall|a: int, b: int| 0 <= a < vals.len() && 0 <= b < vals.len() && a != b ==> (#[trigger] vals[a]).keyspace.id != (#[trigger] vals[b]).keyspace.id,
                *w == (World { trees: w.trees, seqno: w.seqno, discarded: w.discarded, ..*old(w) }), w.seqno >= old(w).seqno,
                forall|k: u64| #[trigger] w.trees.dom().contains(k) <==> old(w).trees.dom().contains(k),
                // not yet decided: untouched since the replay
                forall|j: int| it.index@ <= j < vals.len() ==> w.trees[(#[trigger] vals[j]).keyspace.id] == old(w).trees[vals[j].keyspace.id]
                    && (w.trees[vals[j].keyspace.id].mem_max is Some ==> w.trees[vals[j].keyspace.id].mem_max == Some(vals[j].lsn)),
                // decided: either everything replayed was already in the tables and is gone again, or it is kept and the counter is above it
                forall|j: int| 0 <= j < it.index@ ==> decided(w.trees[(#[trigger] vals[j]).keyspace.id], old(w).trees[vals[j].keyspace.id], vals[j].lsn, w.seqno), // [C11:counter-above-every-kept-sealed-memtable] [C02:rebuilt-memtable-kept-or-already-persisted] [C03:rebuilt-memtable-kept-or-already-persisted] [C04:rebuilt-memtable-kept-or-already-persisted]
//@proof before for wm in
        let ghost vals = watermarks.vals@;
//@proof before shim_slice_end
    proof {
        assert(forall|j: int| 0 <= j < vals.len() ==> decided(w.trees[(#[trigger] vals[j]).keyspace.id], old(w).trees[vals[j].keyspace.id], vals[j].lsn, w.seqno)); // [C11:counter-above-every-kept-sealed-memtable] [C02:rebuilt-memtable-kept-or-already-persisted] [C03:rebuilt-memtable-kept-or-already-persisted] [C04:rebuilt-memtable-kept-or-already-persisted]
        // C10: the journal is handed back to the journal manager with exactly the watermarks collected from its records
        assert(w.queue == old(w).queue.push(QItemG { path: journal_path.id@, wms: wm_pairs(vals) })); // [C10:recovered-sealed-journal-requeued-with-its-watermarks] [C02:recovered-sealed-journal-requeued-with-its-watermarks]
    }
//@end

//@canary
} // verus!
fn main() {}
