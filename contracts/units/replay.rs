// U-REPLAY — journal replay and seqno restore on open (src/db.rs Database::recover, statement slices)
#![allow(unused_imports, unused_variables, dead_code, unused_mut, unused_parens, unreachable_code, unused_assignments)]
use vstd::prelude::*;
use vstd::std_specs::iter::IteratorSpec;
verus! {
//@include prelude/core.rs
//@include prelude/fjall_types.rs
//@include prelude/replay.rs
//@include prelude/replay_clear_active.rs
//@include prelude/paths.rs
//@pure get
//@world snapshot_tracker.set meta_keyspace.get_highest_seqno tree.insert tree.remove tree.remove_weak tree.clear keyspaces.get meta_keyspace.get_highest_seqno tree.get_highest_seqno seqno.fetch_max seqno.get keyspace_id_counter.fetch_max

//@extract src/db.rs :: Database :: recover as=replay_active world desugar_for_plain=0 desugar_for=1,2 props=C02+C03+C04+C12+C01+C11
//@anchor for batch in reader
//@sig fn replay_active(db: &Database, reader: JournalBatchReader, keyspaces: &KsReadGuard) -> FjResult<()>
//@contract
    requires !db.supervisor.seqno.is_visible@,
        old(w).recovering, old(w).active, reader.idx@ == 0, no_indirection(reader.emits@), ids_valid(reader.emits@),
        forall|k: u64| old(w).trees.dom().contains(k) ==> true,
    ensures replay_frame(*old(w), *final(w)), // [C12:replay-touches-only-trees]
//@loop 0
                invariant
                    w.recovering, !db.supervisor.seqno.is_visible@, replay_frame(*old(w), *w), no_indirection(reader.emits@),
                    __fjx_it0.emits == reader.emits, __fjx_it0.idx@ == __fjx_n0, 0 <= __fjx_n0 <= reader.emits@.len(),
                    w.trees == replay_batches(*old(w), old(w).trees, reader.emits@, __fjx_n0), // [C02:replay-is-the-fold-of-the-emitted-batches]
                    ids_valid(reader.emits@), all_ids_below(reader.emits@, __fjx_n0, w.next_ks_id), // [C12:P-ID-counter-above-every-journaled-id]
                    seqnos_below(reader.emits@, __fjx_n0, w.seqno), // [C11:counter-above-every-replayed-journal-record]
                ensures __fjx_n0 == reader.emits@.len(),
                decreases reader.emits@.len() - __fjx_n0,
//@proof after let batch = match (batch)
            let ghost bv = batch_view(batch);
            let ghost t0 = w.trees;
            proof { assert(bv == reader.emits@[__fjx_n0 - 1]); }
//@loop 1
                    invariant
                        w.recovering, !db.supervisor.seqno.is_visible@, replay_frame(*old(w), *w), bv == reader.emits@[__fjx_n0 - 1], 0 < __fjx_n0 <= reader.emits@.len(), no_indirection(reader.emits@),
                        batch.seqno == bv.seqno, batch.cleared_keyspaces@ == bv.cleared,
                        0 <= __fjx_n1 <= bv.items.len(), __fjx_it1.remaining().len() == bv.items.len() - __fjx_n1,
                        forall|j: int| 0 <= j < __fjx_it1.remaining().len() ==> item_view(#[trigger] __fjx_it1.remaining()[j]) == bv.items[__fjx_n1 + j],
                        w.trees == replay_items(*old(w), t0, bv.items, __fjx_n1, bv.seqno), // [C02:every-item-of-the-batch-applied] [C03:every-item-of-the-batch-applied] [C12:unknown-ids-skipped-not-aborting]
                        ids_valid(reader.emits@), all_ids_below(reader.emits@, __fjx_n0 - 1, w.next_ks_id), ids_below(bv, __fjx_n1, 0, w.next_ks_id), // [C12:P-ID-counter-above-every-journaled-id]
                        seqnos_below(reader.emits@, __fjx_n0, w.seqno), // [C11:counter-above-every-replayed-journal-record]
                        __fjx_it0.emits == reader.emits, __fjx_it0.idx@ == __fjx_n0,
                        t0 == replay_batches(*old(w), old(w).trees, reader.emits@, __fjx_n0 - 1),
                    ensures __fjx_n1 == bv.items.len(),
                    decreases bv.items.len() - __fjx_n1,
//@proof before @loop-start 1
                    proof { assert(item_view(item) == bv.items[__fjx_n1 - 1]); }
//@loop 2
                    invariant
                        w.recovering, !db.supervisor.seqno.is_visible@, replay_frame(*old(w), *w), bv == reader.emits@[__fjx_n0 - 1], 0 < __fjx_n0 <= reader.emits@.len(), no_indirection(reader.emits@),
                        batch.seqno == bv.seqno, batch.cleared_keyspaces@ == bv.cleared,
                        0 <= __fjx_n2 <= bv.cleared.len(), __fjx_it2.remaining().len() == bv.cleared.len() - __fjx_n2,
                        forall|j: int| 0 <= j < __fjx_it2.remaining().len() ==> *(#[trigger] __fjx_it2.remaining()[j]) == bv.cleared[__fjx_n2 + j],
                        w.trees == replay_clears(*old(w), replay_items(*old(w), t0, bv.items, bv.items.len() as int, bv.seqno), bv.cleared, __fjx_n2, bv.seqno), // [C04:clear-re-executed-on-replay]
                        ids_valid(reader.emits@), all_ids_below(reader.emits@, __fjx_n0 - 1, w.next_ks_id), ids_below(bv, bv.items.len() as int, __fjx_n2, w.next_ks_id), // [C12:P-ID-counter-above-every-journaled-id]
                        seqnos_below(reader.emits@, __fjx_n0, w.seqno), // [C11:counter-above-every-replayed-journal-record]
                        __fjx_it0.emits == reader.emits, __fjx_it0.idx@ == __fjx_n0,
                        t0 == replay_batches(*old(w), old(w).trees, reader.emits@, __fjx_n0 - 1),
                    ensures __fjx_n2 == bv.cleared.len(),
                    decreases bv.cleared.len() - __fjx_n2,
//@proof before @loop-start 2
                    proof { assert(*keyspace_id == bv.cleared[__fjx_n2 - 1]); }
//@proof at-call keyspace.tree.clear(
                    // P-CLEAR (C04): a replayed clear drops every layer of the tree, so nothing in its tables may be newer than the clear
                    proof { assert(level_ok(w.trees[keyspace.tree.id@], batch.seqno)); } // [C04:P-CLEAR]
//@proof before shim_slice_end
    proof { assert(w.trees == replay_batches(*old(w), old(w).trees, reader.emits@, reader.emits@.len() as int)); } // [C02:all-emitted-batches-replayed]
    proof { assert(all_ids_below(reader.emits@, reader.emits@.len() as int, w.next_ks_id)); } // [C12:P-ID-counter-above-every-journaled-id]
    proof { assert(seqnos_below(reader.emits@, reader.emits@.len() as int, w.seqno)); } // [C11:counter-above-every-replayed-journal-record]
//@end


//@extract src/db.rs :: Database :: recover as=restore_seqno world optmap props=C11+C02+C06
//@anchor write_buffer_size.allocate(size)
//@anchor-up 1
//@to-block-end
//@sig fn restore_seqno(db: &Database, keyspaces: &KsReadGuard) -> ()
//@contract
    requires old(w).recovering, !db.supervisor.seqno.is_visible@, old(w).trees.dom().contains(0), db.meta_keyspace.inner.id@ == 0,
        forall|i: int| 0 <= i < keyspaces.vals@.len() ==> (#[trigger] keyspaces.vals@[i]).tree.id@ == keyspaces.vals@[i].id && old(w).trees.dom().contains(keyspaces.vals@[i].id),
    ensures true,
//@loop 0
            invariant
                w.recovering, *w == (World { seqno: w.seqno, ..*old(w) }), w.seqno >= old(w).seqno, !db.supervisor.seqno.is_visible@,
                it.snapshot@.remaining().len() == keyspaces.vals@.len(),
                forall|j: int| 0 <= j < keyspaces.vals@.len() ==> *(#[trigger] it.snapshot@.remaining()[j]) == keyspaces.vals@[j],
                0 <= it.index@ <= keyspaces.vals@.len(),
                forall|i: int| 0 <= i < keyspaces.vals@.len() ==> (#[trigger] keyspaces.vals@[i]).tree.id@ == keyspaces.vals@[i].id && old(w).trees.dom().contains(keyspaces.vals@[i].id),
                forall|i: int| 0 <= i < it.index@ ==> (highest(old(w).trees[(#[trigger] keyspaces.vals@[i]).id]) is Some ==> w.seqno > highest(old(w).trees[keyspaces.vals@[i].id])->Some_0), // [C11:counter-above-every-recovered-seqno] [C06:new-snapshots-cover-everything-recovered]
//@proof before shim_slice_end
    proof {
        // C11: at the end of the restore block the seqno counter dominates every seqno of every registered keyspace ...
        assert(*w == (World { seqno: w.seqno, ..*old(w) }));
        assert(forall|i: int| 0 <= i < keyspaces.vals@.len() ==> (highest(old(w).trees[(#[trigger] keyspaces.vals@[i]).id]) is Some ==> w.seqno > highest(old(w).trees[keyspaces.vals@[i].id])->Some_0)); // [C11:counter-above-every-recovered-seqno] [C06:new-snapshots-cover-everything-recovered]
        // ... and of the meta keyspace (tree 0), whose tables are written at fresh seqnos by keyspace creation/deletion
        assert(highest(old(w).trees[0]) is Some ==> w.seqno > highest(old(w).trees[0])->Some_0); // [C11:counter-above-the-meta-tree]
    }
//@end

//@extract src/db.rs :: Database :: recover as=publish_recovered world props=C11+C06
//@anchor .snapshot_tracker.set(
//@sig fn publish_recovered(db: &Database) -> ()
//@contract
    requires old(w).recovering, !db.supervisor.seqno.is_visible@,
    ensures true,
//@proof before shim_slice_end
    // C11 / C06: before any handle is given out, new snapshots are taken at (or above) the restored counter, so they see
    // everything recovered (the counter is above every recovered seqno: restore_seqno)
    proof { assert(w.visible >= w.seqno && w.seqno == old(w).seqno); } // [C11:new-snapshots-see-everything-recovered] [C06:new-snapshots-see-everything-recovered]
//@end

//@canary
} // verus!
fn main() {}
