// U-MAINT — background maintenance plumbing (src/flush/worker.rs, src/compaction/worker.rs, Keyspace::major_compact,
// rotation): P-GC (every threshold handed to lsm-tree is the tracker's watermark), P-VIS at version changes
#![allow(unused_imports, unused_variables, dead_code, unused_mut, unused_parens, unreachable_code, unused_assignments)]
use vstd::prelude::*;
verus! {
//@include prelude/core.rs
//@include prelude/fjall_types.rs
//@include spec/ops.rs
pub struct BatchItem { pub keyspace: Keyspace, pub key: UserKey, pub value: UserValue, pub value_type: ValueType }
pub open spec fn items_within_limits(items: Seq<BatchItem>) -> bool { true }
pub open spec fn ops_of(items: Seq<BatchItem>) -> Seq<OpV> { Seq::empty() }
//@include prelude/world.rs
//@extract-type src/journal/mod.rs :: Journal
//@include prelude/handles.rs
//@include prelude/paths.rs
pub open spec fn tracker_wf(t: &SnapshotTracker) -> bool { true }
pub open spec fn only_tracker(o: World, n: World) -> bool {
    n == (World { tracker: n.tracker, visible: n.visible, ..o }) && n.visible >= o.visible && (o.journal.locked ==> n.visible == o.visible)
}
//@path std::sync::atomic::Ordering::Relaxed => atomic_shim::Ordering::Relaxed
//@path std::sync::atomic::Ordering => atomic_shim::Ordering
//@path std::thread::sleep => shim_sleep
//@path std::time::Duration::from_millis => shim_millis
//@guards .get_writer( param:journal_writer
//@world is_deleted.load drop writer.lock tree.flush tree.compact tree.major_compact tree.rotate_memtable inner.finish snapshot_tracker.get

pub struct Task { pub keyspace: Keyspace }                     // src/flush/task.rs (fields)
pub struct Stats { pub active_compaction_count: StatCounter, pub time_compacting: StatCounter, pub compactions_completed: StatCounter }
pub struct StatCounter { pub dummy: u8 }                       // AtomicUsize/AtomicU64 statistics: no modelled state
impl StatCounter {
    #[verifier::external_body] pub fn fetch_add<T>(&self, v: T, o: atomic_shim::Ordering) -> (r: u64) { unimplemented!() }
    #[verifier::external_body] pub fn fetch_sub<T>(&self, v: T, o: atomic_shim::Ordering) -> (r: u64) { unimplemented!() }
}
pub struct Instant { pub dummy: u8 }
pub struct Elapsed { pub dummy: u8 }
impl Instant {
    #[verifier::external_body] pub fn now() -> (r: Instant) { unimplemented!() }
    #[verifier::external_body] pub fn elapsed(&self) -> (r: Elapsed) { unimplemented!() }
}
impl Elapsed { #[verifier::external_body] pub fn as_micros(&self) -> (r: u128) { unimplemented!() } }
pub struct DurationShim { pub dummy: u8 }
#[verifier::external_body] pub fn shim_millis(ms: u64) -> (r: DurationShim) { unimplemented!() }
#[verifier::external_body] pub fn shim_sleep(d: DurationShim) { unimplemented!() }
impl WriteBufferManager {
    #[verifier::external_body] pub fn free(&self, n: u64) -> (r: u64) { unimplemented!() }
}

//@extract src/snapshot_tracker.rs :: SnapshotTracker :: get_seqno_safe_to_gc world spec_only
//@contract-file fn/tracker_get_safe.c
//@end

//@extract src/snapshot_tracker.rs :: SnapshotTracker :: get world spec_only
//@contract-file fn/tracker_get.c
//@end

//@extract src/flush/worker.rs :: run as=flush_run world props=C01+C05+C06
//@contract-file fn/flush_run.c
//@end

//@extract src/compaction/worker.rs :: run as=compaction_run world props=C01+C05+C06+C18
//@contract-file fn/compaction_run.c
//@end

//@extract src/snapshot_tracker.rs :: SnapshotTracker :: pullup world spec_only
//@contract-file fn/tracker_pullup.c
//@end
//@extract src/snapshot_tracker.rs :: SnapshotTracker :: gc world spec_only
//@contract-file fn/tracker_gc.c
//@end
//@extract src/journal/mod.rs :: Journal :: get_writer world spec_only
//@contract-file fn/journal_get_writer.c
//@end

//@extract src/keyspace/mod.rs :: Keyspace :: inner_rotate_memtable world props=C01+C05+C06+C10+C12+C04+C18
//@contract-file fn/ks_inner_rotate.c
//@proof after snapshot_tracker.gc
            let ghost w2 = *w;
//@loop 0
                invariant *w == w2,
//@end

//@extract src/keyspace/mod.rs :: Keyspace :: rotate_memtable world props=C01+C06
//@contract-file fn/ks_rotate_memtable.c
//@end

pub struct Ingestion<'a> { pub keyspace: &'a Keyspace, pub inner: AnyIngestion }   // src/ingestion.rs (fields; AnyIngestion<'a> lifetime dropped)
//@extract src/ingestion.rs :: Ingestion<'a> :: finish world props=C01+C04+C06+C10+C02
//@contract-file fn/ingest_finish.c
//@end

//@extract src/keyspace/mod.rs :: Keyspace :: major_compact world props=C01+C05+C06+C18
//@contract-file fn/ks_major_compact.c
//@end

//@canary
} // verus!
fn main() {}
