// U-METASEQ — MetaKeyspace::get_highest_seqno (src/meta_keyspace.rs): the meta keyspace's high-water mark covers its tables and
// memtables (C11). A unit of its own so that the other recovery units do not depend on this function's presence.
#![allow(unused_imports, unused_variables, dead_code, unused_mut, unused_parens, unreachable_code, unused_assignments)]
use vstd::prelude::*;
verus! {
//@include prelude/core.rs
//@include prelude/fjall_types.rs
//@include prelude/paths.rs
//@world inner.get_highest_seqno
pub struct TreeG { pub persisted: Option<u64>, pub mem_max: Option<u64>, pub sealed_max: Option<u64> }
pub struct World { pub trees: Map<u64, TreeG> }
pub open spec fn omax(a: Option<u64>, b: Option<u64>) -> Option<u64> {
    match (a, b) { (Some(x), Some(y)) => Some(if x > y { x } else { y }), (Some(x), None) => Some(x), (None, Some(y)) => Some(y), (None, None) => None }
}
pub open spec fn highest(t: TreeG) -> Option<u64> { omax(omax(t.persisted, t.mem_max), t.sealed_max) }
pub struct AnyTree { pub id: Ghost<u64> }
impl AnyTree {
    // lsm-tree AbstractTree::get_highest_seqno = max(get_highest_memtable_seqno(), get_highest_persisted_seqno())
    #[verifier::external_body]
    pub fn get_highest_seqno(&self, Tracked(w): Tracked<&mut World>) -> (r: Option<u64>)
        requires old(w).trees.dom().contains(self.id@),
        ensures *final(w) == *old(w), r == highest(old(w).trees[self.id@]), r is Some ==> r->Some_0 < u64::MAX,
    { unimplemented!() }
    #[verifier::external_body]
    pub fn get_highest_memtable_seqno(&self, Tracked(w): Tracked<&mut World>) -> (r: Option<u64>)
        requires old(w).trees.dom().contains(self.id@),
        ensures *final(w) == *old(w), r == omax(old(w).trees[self.id@].mem_max, old(w).trees[self.id@].sealed_max),
    { unimplemented!() }
    #[verifier::external_body]
    pub fn get_highest_persisted_seqno(&self, Tracked(w): Tracked<&mut World>) -> (r: Option<u64>)
        requires old(w).trees.dom().contains(self.id@),
        ensures *final(w) == *old(w), r == old(w).trees[self.id@].persisted,
    { unimplemented!() }
}
pub struct MetaKeyspace { pub inner: AnyTree }
//@extract src/meta_keyspace.rs :: MetaKeyspace :: get_highest_seqno world props=C11+C16
//@contract
    requires self.inner.id@ == 0, old(w).trees.dom().contains(0),
    ensures *final(w) == *old(w), r == highest(old(w).trees[0]), // [C11:meta-high-water-mark-covers-tables-and-memtables] [C16:meta-high-water-mark-covers-tables-and-memtables] (option rows written after a reopen must not sort below the rows already stored)
        r is Some ==> r->Some_0 < u64::MAX,
//@end

//@canary
} // verus!
fn main() {}
