// U-JOURNALS — which journal file is the active one and in which order the sealed ones are replayed
// (src/journal/recovery.rs recover_journals, slice from the sort to the end) (C02, C10)
#![allow(unused_imports, unused_variables, dead_code, unused_mut, unused_parens, unreachable_code, unused_assignments)]
use vstd::prelude::*;
verus! {
//@include prelude/core.rs
//@include prelude/fjall_types.rs
//@include prelude/paths.rs

pub type JournalId = u64;
pub struct PathBuf { pub id: Ghost<int> }
pub struct Path { pub id: Ghost<int> }
// `id.to_string()`: the decimal rendering of the id (std); `dec` reads it back
pub uninterp spec fn dec(s: String) -> u64;
pub uninterp spec fn journal_path(dir: int, id: u64) -> int;
impl Path { #[verifier::external_body] pub fn join(&self, s: String) -> (r: PathBuf) ensures r.id@ == journal_path(self.id@, dec(s)) { unimplemented!() } }
// ---- ghost order used by the sort rule (R-HOF sort_by_key / sort_by): u64 by value, paths by an UNINTERPRETED total order
// (std compares paths component-wise as strings: "10.jnl" < "9.jnl"; nothing relates that order to the journal ids)
pub trait KeyOrd: Sized { spec fn le(a: Self, b: Self) -> bool; }
impl KeyOrd for u64 { open spec fn le(a: u64, b: u64) -> bool { a <= b } }
pub uninterp spec fn path_le(a: int, b: int) -> bool;
impl KeyOrd for PathBuf { open spec fn le(a: PathBuf, b: PathBuf) -> bool { path_le(a.id@, b.id@) } }
pub uninterp spec fn sort_perm<T>(before: Seq<T>, after: Seq<T>) -> Seq<int>;
pub trait HofSort<T> {
    spec fn sv(&self) -> Seq<T>;
    // slice::sort_by_key / sort_by: afterwards the same elements, ordered by the key
    fn hof_sort_by_key<K: KeyOrd>(&mut self, key: Ghost<spec_fn(T) -> K>)
        ensures final(self).sv().len() == old(self).sv().len(),
            forall|x: T| old(self).sv().contains(x) <==> #[trigger] final(self).sv().contains(x),
            // ... a permutation: position i of the result holds the element that was at position sort_perm(..)[i], one-to-one
            sort_perm(old(self).sv(), final(self).sv()).len() == old(self).sv().len(),
            forall|i: int| 0 <= i < old(self).sv().len() ==> 0 <= #[trigger] sort_perm(old(self).sv(), final(self).sv())[i] < old(self).sv().len() && final(self).sv()[i] == old(self).sv()[sort_perm(old(self).sv(), final(self).sv())[i]],
            forall|i: int, j: int| 0 <= i < old(self).sv().len() && 0 <= j < old(self).sv().len() && i != j ==> #[trigger] sort_perm(old(self).sv(), final(self).sv())[i] != #[trigger] sort_perm(old(self).sv(), final(self).sv())[j],
            forall|i: int, j: int| 0 <= i < j < final(self).sv().len() ==> K::le((key@)(#[trigger] final(self).sv()[i]), (key@)(#[trigger] final(self).sv()[j]));
}
impl<T> HofSort<T> for Vec<T> { open spec fn sv(&self) -> Seq<T> { self@ } #[verifier::external_body] fn hof_sort_by_key<K: KeyOrd>(&mut self, key: Ghost<spec_fn(T) -> K>) { unimplemented!() } }
pub struct CompressionCfg { pub dummy: u8 }
pub struct Journal { pub path: Ghost<int>, pub created: Ghost<bool> }
impl Journal {
    // opens an existing journal file for appending / creates a new one (src/journal/mod.rs; U-WRITER owns the writer)
    #[verifier::external_body] pub fn from_file(p: PathBuf) -> (r: FjResult<Journal>) ensures r is Ok ==> r->Ok_0.path@ == p.id@ && !r->Ok_0.created@ { unimplemented!() }
    #[verifier::external_body] pub fn create_new(p: PathBuf) -> (r: FjResult<Journal>) ensures r is Ok ==> r->Ok_0.path@ == p.id@ && r->Ok_0.created@ { unimplemented!() }
    #[verifier::external_body] pub fn with_compression(self, c: CompressionCfg, t: usize) -> (r: Journal) ensures r.path == self.path, r.created == self.created { unimplemented!() }
}
//@extract-type src/journal/recovery.rs :: RecoveryResult

/// the journal files found in the directory: one file per id
pub open spec fn ids_distinct(f: Seq<(JournalId, PathBuf)>) -> bool { forall|i: int, j: int| 0 <= i < f.len() && 0 <= j < f.len() && i != j ==> (#[trigger] f[i]).0 != (#[trigger] f[j]).0 }

//@extract src/journal/recovery.rs :: recover_journals as=pick_active_and_order props=C02+C10
//@anchor journal_fragments.sort_by
//@to-block-end
//@sig fn pick_active_and_order(mut journal_fragments: Vec<(JournalId, PathBuf)>, max_journal_id: JournalId, path: &Path, compression: CompressionCfg, compression_threshold: usize) -> FjResult<RecoveryResult>
//@contract
    requires ids_distinct(journal_fragments@), max_journal_id < u64::MAX,
    ensures
        // the ACTIVE journal (where writes continue and which is replayed last) is the file with the highest id
        r is Ok && journal_fragments@.len() > 0 ==> !r->Ok_0.was_active_created && (exists|i: int| 0 <= i < journal_fragments@.len() && (#[trigger] journal_fragments@[i]).1.id@ == r->Ok_0.active.path@
            && (forall|j: int| 0 <= j < journal_fragments@.len() ==> (#[trigger] journal_fragments@[j]).0 <= journal_fragments@[i].0)), // [C02:newest-journal-is-the-active-one] [C10:newest-journal-is-the-active-one]
        // the SEALED journals are all the others, oldest first (this is the order in which recovery replays and re-queues them)
        r is Ok && journal_fragments@.len() > 0 ==> r->Ok_0.sealed@.len() == journal_fragments@.len() - 1
            && (forall|a: int, b: int| 0 <= a < b < r->Ok_0.sealed@.len() ==> (#[trigger] r->Ok_0.sealed@[a]).0 < (#[trigger] r->Ok_0.sealed@[b]).0) // [C02:sealed-journals-oldest-first] [C10:sealed-journals-oldest-first]
            && (forall|a: int| 0 <= a < r->Ok_0.sealed@.len() ==> journal_fragments@.contains(#[trigger] r->Ok_0.sealed@[a])),
        r is Ok && journal_fragments@.len() == 0 ==> r->Ok_0.was_active_created && r->Ok_0.sealed@.len() == 0 && r->Ok_0.active.created@, // [C02:no-journal-found-creates-a-fresh-one]
//@proof after journal_fragments.hof_sort_by_key
        let ghost sorted = journal_fragments@;
        let ghost p = sort_perm(f0, sorted);
        proof {
            assert forall|i: int, j: int| 0 <= i < sorted.len() && 0 <= j < sorted.len() && i != j implies (#[trigger] sorted[i]).0 != (#[trigger] sorted[j]).0 by {
                assert(sorted[i] == f0[p[i]] && sorted[j] == f0[p[j]] && p[i] != p[j]);
            }
            assert forall|i: int, j: int| 0 <= i < j < sorted.len() implies (#[trigger] sorted[i]).0 < (#[trigger] sorted[j]).0 by {
                assert(<u64 as KeyOrd>::le(sorted[i].0, sorted[j].0));
            }
            // every file found is somewhere in the sorted vector
            assert forall|k: int| 0 <= k < f0.len() implies sorted.contains(#[trigger] f0[k]) by { assert(f0.contains(f0[k])); }
        }
//@proof before journal_fragments.hof_sort_by_key
        let ghost f0 = journal_fragments@;
//@proof before Ok(match journal_fragments.pop()
        proof {
            if sorted.len() > 0 {
                let last = sorted[sorted.len() - 1];
                assert(sorted.contains(last));
                let li = choose|li: int| 0 <= li < f0.len() && f0[li] == last;
                assert forall|k: int| 0 <= k < f0.len() implies (#[trigger] f0[k]).0 <= f0[li].0 by {
                    assert(sorted.contains(f0[k]));
                    let m = choose|m: int| 0 <= m < sorted.len() && sorted[m] == f0[k];
                    if m < sorted.len() - 1 { assert(sorted[m].0 < sorted[sorted.len() - 1].0); }
                }
                assert forall|a: int| 0 <= a < sorted.len() - 1 implies f0.contains(#[trigger] sorted[a]) by { assert(sorted.contains(sorted[a])); }
            }
        }
//@end

//@canary
} // verus!
fn main() {}
