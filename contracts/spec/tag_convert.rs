// spec side of the two Tag conversions implemented in src/journal/entry.rs
impl vstd::std_specs::convert::FromSpecImpl<Tag> for u8 {
    open spec fn obeys_from_spec() -> bool { true }
    open spec fn from_spec(v: Tag) -> u8 { tag_byte(v) }
}
impl vstd::std_specs::convert::TryFromSpecImpl<u8> for Tag {
    open spec fn obeys_try_from_spec() -> bool { true }
    open spec fn try_from_spec(value: u8) -> Result<Tag, Error> { tag_of_byte(value) }
}
