// ===== spec/batch_spec.rs — ghost vocabulary for WriteBatch =====
impl WriteBatch {
    /// what the constructors and builder methods must establish (C02: in automatic persist mode a batch is flushed
    /// to the OS before it is acknowledged; C01: only plain values and tombstones are batched)
    pub open spec fn wf(&self, w: World) -> bool {
        &&& self.db.is_poisoned.id@ == w.db_poison && sup_wf(&self.db.supervisor)
        &&& (self.durability is None ==> w.db_manual_persist)
        &&& self.data@.len() <= 0x7fff_ffff       // stated bound: at most 2^31 items per batch
        &&& items_within_limits(self.data@)
        &&& (forall|i: int| 0 <= i < self.data@.len() ==> ks_wf(&(#[trigger] self.data@[i]).keyspace, w) && self.data@[i].value_type != ValueType::Indirection)
    }
}
