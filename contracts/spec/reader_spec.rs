// ===== spec/reader_spec.rs — ghost vocabulary for JournalReader / JournalBatchReader =====
impl JournalReader {
    pub open spec fn all(&self) -> Seq<u8> { self.reader.inner.all@ }
    pub open spec fn pos(&self) -> int { self.reader.inner.pos@ }
    pub open spec fn faulty(&self) -> bool { self.reader.inner.may_fail@ }
    pub open spec fn wf(&self) -> bool {
        0 <= self.pos() <= self.all().len() && self.all().len() <= u64::MAX
        && self.last_valid_pos <= self.pos() && self.reader.inner.path@ == self.path.id@
    }
    /// same file, same bytes; only the cursor (and last_valid_pos) may move
    pub open spec fn same_file(&self, o: &JournalReader) -> bool {
        self.all() == o.all() && self.faulty() == o.faulty() && self.path == o.path && self.reader.inner.path == o.reader.inner.path
    }
}
pub open spec fn trunc_ev(r: &JournalReader, len: u64) -> TruncEvent { TruncEvent { path: r.path.id@, len } }
