// ===== spec/byte_lemmas.rs — PROVED facts about the little-endian codecs (not assumptions) =====
pub mod byte_lemmas {
    use vstd::prelude::*;
    use super::*;
    pub broadcast proof fn lemma_le16_len(x: u16) ensures #[trigger] le16(x).len() == 2 { reveal(le16); }
    pub broadcast proof fn lemma_le32_len(x: u32) ensures #[trigger] le32(x).len() == 4 { reveal(le32); lemma_le16_len((x & 0xffff) as u16); lemma_le16_len(((x >> 16) & 0xffff) as u16); }
    pub broadcast proof fn lemma_le64_len(x: u64) ensures #[trigger] le64(x).len() == 8 { reveal(le64); lemma_le32_len((x & 0xffff_ffff) as u32); lemma_le32_len(((x >> 32) & 0xffff_ffff) as u32); }
    pub broadcast proof fn lemma_de16_le16(x: u16) ensures de16(#[trigger] le16(x)) == x {
        reveal(le16); reveal(de16);
        let a = (x & 0xff) as u8; let b = ((x >> 8) & 0xff) as u8;
        assert(le16(x)[0] == a && le16(x)[1] == b);
        assert(((a as u16) | ((b as u16) << 8)) == x) by (bit_vector) requires a == (x & 0xff) as u8, b == ((x >> 8) & 0xff) as u8;
    }
    pub broadcast proof fn lemma_de32_le32(x: u32) ensures de32(#[trigger] le32(x)) == x {
        reveal(le32); reveal(de32);
        let lo = (x & 0xffff) as u16; let hi = ((x >> 16) & 0xffff) as u16;
        lemma_le16_len(lo); lemma_le16_len(hi);
        assert(le32(x).subrange(0, 2) =~= le16(lo));
        assert(le32(x).subrange(2, 4) =~= le16(hi));
        lemma_de16_le16(lo); lemma_de16_le16(hi);
        assert(((lo as u32) | ((hi as u32) << 16)) == x) by (bit_vector) requires lo == (x & 0xffff) as u16, hi == ((x >> 16) & 0xffff) as u16;
    }
    pub broadcast proof fn lemma_de64_le64(x: u64) ensures de64(#[trigger] le64(x)) == x {
        reveal(le64); reveal(de64);
        let lo = (x & 0xffff_ffff) as u32; let hi = ((x >> 32) & 0xffff_ffff) as u32;
        lemma_le32_len(lo); lemma_le32_len(hi);
        assert(le64(x).subrange(0, 4) =~= le32(lo));
        assert(le64(x).subrange(4, 8) =~= le32(hi));
        lemma_de32_le32(lo); lemma_de32_le32(hi);
        assert(((lo as u64) | ((hi as u64) << 32)) == x) by (bit_vector) requires lo == (x & 0xffff_ffff) as u32, hi == ((x >> 32) & 0xffff_ffff) as u32;
    }
    pub broadcast group group_le_len { lemma_le16_len, lemma_le32_len, lemma_le64_len }
    pub broadcast group group_le_inverse { lemma_de16_le16, lemma_de32_le32, lemma_de64_le64 }
}
