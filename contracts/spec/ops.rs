// ===== spec/ops.rs — journaled operations as mathematical values =====
/// one journaled operation, as a mathematical value
pub enum OpV {
    Item { keyspace_id: u64, key: Seq<u8>, value: Seq<u8>, value_type: ValueType },
    Clear { keyspace_id: u64 },
}
pub open spec fn within_limits(key: Seq<u8>, value: Seq<u8>) -> bool { key.len() <= 0xffff && value.len() <= 0xffff_ffff }
