// ===== spec/roundtrip.rs — L-RT (C15): the reader's parse functions invert the writer's format functions =====
// The real encoder is proved equal to enc_* (U-CODEC, U-WRITER), the real decoder / batch reader equal to parse_at / br_run
// (U-CODEC, U-READER). These lemmas close the loop at the level of the format functions: what is written is what is read.
pub open spec fn entry_ok(e: EntryV) -> bool {
    match e {
        EntryV::Item { keyspace_id, key, value, value_type, compression } =>
            key.len() <= 0xffff && value.len() <= 0xffff_ffff && stored_value(value, compression).len() <= 0xffff_ffff,
        _ => true,
    }
}
pub proof fn lemma_vt_byte_inverse(v: ValueType) ensures vt_of_byte(vt_byte(v)) == Some(v) {}
pub proof fn lemma_comp_byte_inverse(c: CompressionType) ensures comp_bytes(c).len() == 1, comp_of_byte(comp_bytes(c)[0]) == Some(c) {}

/// L-RT-ENTRY: an encoded entry, wherever it stands in a stream, is parsed back as the same entry and ends where its bytes end
pub proof fn lemma_parse_enc(e: EntryV, pre: Seq<u8>, post: Seq<u8>)
    requires entry_ok(e),
    ensures parse_at(pre + enc_entryv(e) + post, pre.len() as int) == Some((e, (pre.len() + enc_entryv(e).len()) as int)), // [C15:L-RT-every-entry-is-read-back-as-written]
{
    broadcast use byte_lemmas::group_le_len, byte_lemmas::group_le_inverse, lz4_inverse;
    let a = pre + enc_entryv(e) + post;
    let p = pre.len() as int;
    let b = enc_entryv(e);
    assert(forall|i: int| 0 <= i < b.len() ==> a[p + i] == b[i]);
    match e {
        EntryV::Start { item_count, seqno } => {
            assert(b.len() == 13);
            assert(a.subrange(p + 1, p + 5) =~= le32(item_count));
            assert(a.subrange(p + 5, p + 13) =~= le64(seqno));
        }
        EntryV::End(c) => {
            assert(b.len() == 13);
            assert(a.subrange(p + 1, p + 9) =~= le64(c));
            assert(a.subrange(p + 9, p + 13) =~= trailer());
        }
        EntryV::Clear { keyspace_id } => {
            assert(b.len() == 9);
            assert(a.subrange(p + 1, p + 9) =~= le64(keyspace_id));
        }
        EntryV::Item { keyspace_id, key, value, value_type, compression } => {
            let st = stored_value(value, compression);
            lemma_vt_byte_inverse(value_type);
            lemma_comp_byte_inverse(compression);
            let h = seq![2u8, vt_byte(value_type)] + comp_bytes(compression) + le64(keyspace_id) + le16(key.len() as u16) + le32(value.len() as u32) + le32(st.len() as u32);
            assert(h.len() == 21);
            assert(b =~= h + key + st);
            assert(b.len() == 21 + key.len() + st.len());
            assert(a[p] == 2u8);
            assert(a[p + 1] == vt_byte(value_type));
            assert(a[p + 2] == comp_bytes(compression)[0]);
            assert(a.subrange(p + 3, p + 11) =~= le64(keyspace_id));
            assert(a.subrange(p + 11, p + 13) =~= le16(key.len() as u16));
            assert(a.subrange(p + 13, p + 17) =~= le32(value.len() as u32));
            assert(a.subrange(p + 17, p + 21) =~= le32(st.len() as u32));
            assert(key.len() as u16 as int == key.len());
            assert(value.len() as u32 as int == value.len());
            assert(st.len() as u32 as int == st.len());
            assert(a.subrange(p + 21, p + 21 + key.len()) =~= key);
            assert(a.subrange(p + 21 + key.len(), p + 21 + key.len() + st.len()) =~= st);
        }
    }
}

// ---- L-RT-BATCH: a batch written by the writer is emitted by the batch reader as the same operations, in order
pub open spec fn op_entry(op: OpV, comp: CompressionType, thr: usize) -> EntryV {
    match op {
        OpV::Item { keyspace_id, key, value, value_type } => EntryV::Item { keyspace_id, key, value, value_type, compression: pick(comp, thr, value.len()) },
        OpV::Clear { keyspace_id } => EntryV::Clear { keyspace_id },
    }
}
pub open spec fn ops_ok(ops: Seq<OpV>, comp: CompressionType, thr: usize) -> bool {
    ops.len() <= 0xffff_ffff && forall|i: int| 0 <= i < ops.len() ==> entry_ok(#[trigger] op_entry(ops[i], comp, thr))
}
/// the items / the cleared keyspace ids among the first n operations, in order
pub open spec fn items_of(ops: Seq<OpV>, n: int) -> Seq<ItemV> decreases n {
    if n <= 0 { Seq::empty() } else { match ops[n - 1] {
        OpV::Item { keyspace_id, key, value, value_type } => items_of(ops, n - 1).push(ItemV { keyspace_id, key, value, value_type }),
        OpV::Clear { .. } => items_of(ops, n - 1) } }
}
pub open spec fn cleared_of(ops: Seq<OpV>, n: int) -> Seq<u64> decreases n {
    if n <= 0 { Seq::empty() } else { match ops[n - 1] {
        OpV::Clear { keyspace_id } => cleared_of(ops, n - 1).push(keyspace_id),
        OpV::Item { .. } => cleared_of(ops, n - 1) } }
}
pub open spec fn mid_state(seqno: u64, ops: Seq<OpV>, k: int, comp: CompressionType, thr: usize, lvp: u64) -> BRState {
    BRState { in_batch: true, counter: (ops.len() - k) as u32, seqno, items: items_of(ops, k), cleared: cleared_of(ops, k),
              acc: payload(ops, k, comp, thr), last_valid_pos: lvp }
}
pub open spec fn batch_of(seqno: u64, ops: Seq<OpV>) -> BatchV { BatchV { seqno, items: items_of(ops, ops.len() as int), cleared: cleared_of(ops, ops.len() as int) } }
pub open spec fn clean_state(seqno: u64, lvp: u64) -> BRState {
    BRState { in_batch: false, counter: 0, seqno, items: Seq::empty(), cleared: Seq::empty(), acc: Seq::empty(), last_valid_pos: lvp }
}
pub proof fn lemma_enc_batch_len(seqno: u64, ops: Seq<OpV>, comp: CompressionType, thr: usize)
    ensures enc_batch(seqno, ops, comp, thr).len() == 26 + payload(ops, ops.len() as int, comp, thr).len(),
{ broadcast use byte_lemmas::group_le_len; }

/// where operation k of a written batch stands in the stream, and that it is parsed back there
pub open spec fn op_pos(ops: Seq<OpV>, k: int, comp: CompressionType, thr: usize, pre: Seq<u8>) -> int { (pre.len() + 13 + payload(ops, k, comp, thr).len()) as int }
pub proof fn lemma_parse_op(seqno: u64, ops: Seq<OpV>, k: int, comp: CompressionType, thr: usize, pre: Seq<u8>, post: Seq<u8>)
    requires ops_ok(ops, comp, thr), 0 <= k < ops.len(),
    ensures parse_at(pre + enc_batch(seqno, ops, comp, thr) + post, op_pos(ops, k, comp, thr, pre)) == Some((op_entry(ops[k], comp, thr), op_pos(ops, k + 1, comp, thr, pre))),
{
    broadcast use byte_lemmas::group_le_len;
    let n = ops.len() as int;
    let eb = enc_batch(seqno, ops, comp, thr);
    let a = pre + eb + post;
    let start = enc_start(ops.len() as u32, seqno);
    let pn = payload(ops, n, comp, thr);
    let pk = payload(ops, k, comp, thr);
    let p = op_pos(ops, k, comp, thr, pre);
    lemma_enc_batch_len(seqno, ops, comp, thr);
    assert(start.len() == 13);
    let e = op_entry(ops[k], comp, thr);
    assert(enc_entryv(e) == enc_op(ops[k], comp, thr));
    let pk1 = payload(ops, k + 1, comp, thr);
    assert(pk1 == pk + enc_entryv(e));
    lemma_payload_mono(ops, k + 1, n, comp, thr);
    // the stream cut right behind operation k parses alike (parsing is local)
    let pre2 = pre + start + pk;
    let ak = pre2 + enc_entryv(e) + Seq::<u8>::empty();
    lemma_parse_enc(e, pre2, Seq::<u8>::empty());
    let m = ak.len() as int;
    assert(m == pre.len() + 13 + pk1.len());
    assert(m <= a.len());
    assert forall|i: int| 0 <= i < m implies ak[i] == a[i] by {
        if i >= pre.len() + 13 {
            let j = i - pre.len() - 13;
            assert(ak[i] == pk1[j]);
            assert(pn[j] == pk1[j]);
            assert(eb[13 + j] == pn[j]);
        } else if i >= pre.len() {
            assert(ak[i] == start[i - pre.len()]);
            assert(eb[i - pre.len()] == start[i - pre.len()]);
        }
    }
    lemma_parse_is_local(ak, a, p, m);
}
pub proof fn lemma_parse_end(seqno: u64, ops: Seq<OpV>, comp: CompressionType, thr: usize, pre: Seq<u8>, post: Seq<u8>)
    ensures parse_at(pre + enc_batch(seqno, ops, comp, thr) + post, op_pos(ops, ops.len() as int, comp, thr, pre))
        == Some((EntryV::End(xxh3(payload(ops, ops.len() as int, comp, thr))), (pre.len() + enc_batch(seqno, ops, comp, thr).len()) as int)),
{
    broadcast use byte_lemmas::group_le_len;
    let pn = payload(ops, ops.len() as int, comp, thr);
    let e = EntryV::End(xxh3(pn));
    let pre2 = pre + enc_start(ops.len() as u32, seqno) + pn;
    assert(pre + enc_batch(seqno, ops, comp, thr) + post =~= pre2 + enc_entryv(e) + post);
    lemma_parse_enc(e, pre2, post);
    lemma_enc_batch_len(seqno, ops, comp, thr);
    assert(enc_entryv(e).len() == 13);
}
pub proof fn lemma_mid_step(seqno: u64, ops: Seq<OpV>, k: int, comp: CompressionType, thr: usize, lvp: u64, x: int)
    requires ops.len() <= 0xffff_ffff, 0 <= k < ops.len(),
    ensures br_step(mid_state(seqno, ops, k, comp, thr, lvp), op_entry(ops[k], comp, thr), x) == Step::Continue(mid_state(seqno, ops, k + 1, comp, thr, lvp)),
{
    let n = ops.len() as int;
    let s = mid_state(seqno, ops, k, comp, thr, lvp);
    assert(s.counter == (n - k) as u32 && n - k > 0);
    match ops[k] {
        OpV::Item { keyspace_id, key, value, value_type } => {
            assert(items_of(ops, k + 1) == items_of(ops, k).push(ItemV { keyspace_id, key, value, value_type }));
            assert(cleared_of(ops, k + 1) == cleared_of(ops, k));
        }
        OpV::Clear { keyspace_id } => {
            assert(cleared_of(ops, k + 1) == cleared_of(ops, k).push(keyspace_id));
            assert(items_of(ops, k + 1) == items_of(ops, k));
        }
    }
}
/// inside the batch: from the state after k operations, standing right behind them, the reader emits the whole batch
pub proof fn lemma_run_ops(seqno: u64, ops: Seq<OpV>, k: int, comp: CompressionType, thr: usize, lvp: u64, pre: Seq<u8>, post: Seq<u8>)
    requires ops_ok(ops, comp, thr), 0 <= k <= ops.len(),
        (pre.len() + enc_batch(seqno, ops, comp, thr).len()) <= u64::MAX,
    ensures ({
        let a = pre + enc_batch(seqno, ops, comp, thr) + post;
        let end = (pre.len() + enc_batch(seqno, ops, comp, thr).len()) as int;
        br_run(mid_state(seqno, ops, k, comp, thr, lvp), a, op_pos(ops, k, comp, thr, pre))
            == Outcome::Batch(batch_of(seqno, ops), clean_state(seqno, end as u64), end) }),
    decreases ops.len() - k,
{
    let n = ops.len() as int;
    let a = pre + enc_batch(seqno, ops, comp, thr) + post;
    let p = op_pos(ops, k, comp, thr, pre);
    let s = mid_state(seqno, ops, k, comp, thr, lvp);
    lemma_enc_batch_len(seqno, ops, comp, thr);
    lemma_payload_mono(ops, k, n, comp, thr);
    if k == n {
        lemma_parse_end(seqno, ops, comp, thr, pre, post);
        assert(s.counter == 0);
    } else {
        lemma_parse_op(seqno, ops, k, comp, thr, pre, post);
        lemma_mid_step(seqno, ops, k, comp, thr, lvp, op_pos(ops, k + 1, comp, thr, pre));
        lemma_payload_mono(ops, k + 1, n, comp, thr);
        lemma_run_ops(seqno, ops, k + 1, comp, thr, lvp, pre, post);
        assert(p < op_pos(ops, k + 1, comp, thr, pre) <= a.len()) by { lemma_parse_advances(a, p); }
    }
}
/// L-RT-BATCH: from a clean state, standing at the first byte of a written batch, the reader emits exactly that batch and
/// stands behind it in a clean state whose last valid position is the end of the batch
pub proof fn lemma_read_batch(seqno: u64, ops: Seq<OpV>, comp: CompressionType, thr: usize, s0: u64, lvp: u64, pre: Seq<u8>, post: Seq<u8>)
    requires ops_ok(ops, comp, thr), (pre.len() + enc_batch(seqno, ops, comp, thr).len()) <= u64::MAX,
    ensures ({
        let a = pre + enc_batch(seqno, ops, comp, thr) + post;
        let end = (pre.len() + enc_batch(seqno, ops, comp, thr).len()) as int;
        br_run(clean_state(s0, lvp), a, pre.len() as int) == Outcome::Batch(batch_of(seqno, ops), clean_state(seqno, end as u64), end) }), // [C15:L-RT-a-written-batch-is-read-back-as-the-same-operations] [C03:L-RT-a-complete-batch-is-emitted-whole]
{
    broadcast use byte_lemmas::group_le_len;
    let eb = enc_batch(seqno, ops, comp, thr);
    let a = pre + eb + post;
    let e = EntryV::Start { item_count: ops.len() as u32, seqno };
    let pn = payload(ops, ops.len() as int, comp, thr);
    let post2 = pn + enc_end(xxh3(pn)) + post;
    assert(a =~= pre + enc_entryv(e) + post2);
    lemma_parse_enc(e, pre, post2);
    lemma_run_ops(seqno, ops, 0, comp, thr, lvp, pre, post);
    assert(payload(ops, 0, comp, thr).len() == 0);
    assert(br_step(clean_state(s0, lvp), e, (pre.len() + 13) as int) == Step::Continue(mid_state(seqno, ops, 0, comp, thr, lvp)));
    assert(op_pos(ops, 0, comp, thr, pre) == pre.len() + 13);
}

// ---- a whole journal file: the batches the writer appended, in order (each under the compression setting of its session)
pub struct BatchW { pub seqno: u64, pub ops: Seq<OpV>, pub comp: CompressionType, pub thr: usize }
pub open spec fn enc_w(b: BatchW) -> Seq<u8> { enc_batch(b.seqno, b.ops, b.comp, b.thr) }
pub open spec fn journal_bytes(bs: Seq<BatchW>, n: int) -> Seq<u8> decreases n {
    if n <= 0 { Seq::empty() } else { journal_bytes(bs, n - 1) + enc_w(bs[n - 1]) }
}
pub open spec fn journal_ok(bs: Seq<BatchW>) -> bool {
    (forall|i: int| 0 <= i < bs.len() ==> ops_ok((#[trigger] bs[i]).ops, bs[i].comp, bs[i].thr)) && journal_bytes(bs, bs.len() as int).len() <= u64::MAX
}
pub open spec fn views_from(bs: Seq<BatchW>, k: int, n: int) -> Seq<BatchV> decreases n - k {
    if k >= n { Seq::empty() } else { seq![batch_of(bs[k].seqno, bs[k].ops)] + views_from(bs, k + 1, n) }
}
/// everything `JournalBatchReader` yields when iterated to the end: the emitted batches and how the stream ended
pub open spec fn read_all(s: BRState, a: Seq<u8>, pos: int) -> (Seq<BatchV>, Outcome) decreases a.len() - pos {
    match br_run(s, a, pos) {
        Outcome::Batch(b, s2, p2) => if pos < p2 <= a.len() { let r = read_all(s2, a, p2); (seq![b] + r.0, r.1) } else { (Seq::empty(), Outcome::End { truncate_to: None }) },
        o => (Seq::empty(), o),
    }
}
pub proof fn lemma_journal_mono(bs: Seq<BatchW>, i: int, j: int)
    requires 0 <= i <= j,
    ensures journal_bytes(bs, i).is_prefix_of(journal_bytes(bs, j)), journal_bytes(bs, i).len() <= journal_bytes(bs, j).len(),
    decreases j - i,
{ if i < j { lemma_journal_mono(bs, i, j - 1); assert(journal_bytes(bs, j - 1).is_prefix_of(journal_bytes(bs, j))); } }
pub proof fn lemma_journal_split(bs: Seq<BatchW>, k: int, n: int) -> (rest: Seq<u8>)
    requires 0 <= k < n,
    ensures journal_bytes(bs, n) == journal_bytes(bs, k) + enc_w(bs[k]) + rest, journal_bytes(bs, k + 1) == journal_bytes(bs, k) + enc_w(bs[k]),
    decreases n - k,
{
    if k + 1 == n { let r = Seq::<u8>::empty(); assert(journal_bytes(bs, n) =~= journal_bytes(bs, k) + enc_w(bs[k]) + r); r }
    else { let r0 = lemma_journal_split(bs, k, n - 1); let r = r0 + enc_w(bs[n - 1]);
           assert(journal_bytes(bs, n) =~= journal_bytes(bs, k) + enc_w(bs[k]) + r); r }
}
/// nothing can be parsed at or behind the cut: the bytes there are zero (preallocation / padding) or the file has ended
pub proof fn lemma_nothing_parses_in_the_zero_padding(a: Seq<u8>, c: int, p: int)
    requires 0 <= c <= p, zero_from(a, c),
    ensures parse_at(a, p) is None,
{ if p < a.len() { assert(a[p] == 0u8); } }

/// L-RT-JOURNAL (C15, C02, C04): a journal file consisting of the written batches, followed by nothing or by zero bytes, is read
/// back as exactly those batches in order, and the stream ends without an error and without a truncation
pub proof fn lemma_read_journal(bs: Seq<BatchW>, k: int, tail: Seq<u8>, s0: u64, lvp: u64)
    requires journal_ok(bs), 0 <= k <= bs.len(), zero_from(tail, 0), journal_bytes(bs, bs.len() as int).len() + tail.len() <= u64::MAX,
    ensures read_all(clean_state(s0, lvp), journal_bytes(bs, bs.len() as int) + tail, journal_bytes(bs, k).len() as int)
        == (views_from(bs, k, bs.len() as int), Outcome::End { truncate_to: None }), // [C15:L-RT-a-journal-is-read-back-as-the-batches-written-in-order] [C02:L-RT-a-journal-is-read-back-as-the-batches-written-in-order]
    decreases bs.len() - k,
{
    let n = bs.len() as int;
    let jn = journal_bytes(bs, n);
    let a = jn + tail;
    let pos = journal_bytes(bs, k).len() as int;
    let s = clean_state(s0, lvp);
    if k == n {
        assert(zero_from(a, pos)) by { assert forall|i: int| pos <= i < a.len() implies #[trigger] a[i] == 0u8 by { assert(a[i] == tail[i - pos]); } }
        lemma_nothing_parses_in_the_zero_padding(a, pos, pos);
    } else {
        let rest = lemma_journal_split(bs, k, n);
        let pre = journal_bytes(bs, k);
        let b = bs[k];
        lemma_journal_mono(bs, k + 1, n);
        assert(a =~= pre + enc_w(b) + (rest + tail));
        lemma_read_batch(b.seqno, b.ops, b.comp, b.thr, s0, lvp, pre, rest + tail);
        let end = (pre.len() + enc_w(b).len()) as int;
        lemma_enc_batch_len(b.seqno, b.ops, b.comp, b.thr);
        assert(end == journal_bytes(bs, k + 1).len());
        lemma_read_journal(bs, k + 1, tail, b.seqno, end as u64);
    }
}

// ---- L-TORN, the whole statement (C03): a journal cut at ANY byte c (followed by nothing or by zero bytes) is read back as
// exactly the batches that were complete before the cut; the incomplete one is never half-emitted and never turns the
// stream into an error: it ends, asking at most for a truncation to the end of the last complete batch
pub open spec fn tag_of(e: EntryV) -> u8 { match e { EntryV::Start { .. } => 1u8, EntryV::Item { .. } => 2u8, EntryV::End(_) => 3u8, EntryV::Clear { .. } => 4u8 } }
pub proof fn lemma_parse_tag(a: Seq<u8>, p: int)
    requires 0 <= p, parse_at(a, p) is Some,
    ensures p < a.len(), a[p] == tag_of(parse_at(a, p)->Some_0.0),
{}
/// whether a step fails depends only on the reader's state and on the KIND of entry (except for the End marker's checksum)
pub proof fn lemma_step_by_kind(s: BRState, e1: EntryV, e2: EntryV, x1: int, x2: int)
    requires tag_of(e1) == tag_of(e2), !(e1 is End), br_step(s, e1, x1) is Continue,
    ensures br_step(s, e2, x2) is Continue, br_step(s, e2, x2)->Continue_0.last_valid_pos == s.last_valid_pos,
{}
pub open spec fn ends_quietly(o: Outcome, lvp: u64) -> bool { o matches Outcome::End { truncate_to } && (truncate_to is None || truncate_to == Some(lvp)) }

/// the torn batch: where the complete file goes on to emit a batch that ends behind the cut, the torn copy just ends
pub proof fn lemma_torn_batch_is_discarded(s: BRState, full: Seq<u8>, torn: Seq<u8>, pos: int, c: int)
    requires 0 <= pos, 0 <= c <= full.len(), c <= torn.len(), forall|i: int| 0 <= i < c ==> full[i] == torn[i], zero_from(torn, c),
        br_run(s, full, pos) is Batch, br_run(s, full, pos)->Batch_2 > c,
    ensures ends_quietly(br_run(s, torn, pos), s.last_valid_pos), // [C03:L-TORN-the-incomplete-batch-is-discarded-as-a-whole-without-an-error]
    decreases full.len() - pos,
{
    match parse_at(torn, pos) {
        None => {}
        Some((e2, q2)) => {
            lemma_parse_advances(torn, pos);
            // the complete file parses something here too (its run emits a batch)
            let pf = parse_at(full, pos);
            assert(pf is Some);
            let e1 = pf->Some_0.0; let p1 = pf->Some_0.1;
            lemma_parse_advances(full, pos);
            if q2 <= c {
                // the entry lies before the cut: both files parse it alike, and the complete file's run goes on
                lemma_parse_is_local(torn, full, pos, c);
                assert(e1 == e2 && p1 == q2);
                match br_step(s, e1, p1) {
                    Step::Continue(s2) => {
                        assert(s2.last_valid_pos == s.last_valid_pos);
                        assert(br_run(s, full, pos) == br_run(s2, full, p1));
                        assert(br_run(s, torn, pos) == br_run(s2, torn, p1));
                        lemma_torn_batch_is_discarded(s2, full, torn, p1, c);
                    }
                    Step::Emit(b, s2) => { assert(br_run(s, full, pos)->Batch_2 == p1); }
                    _ => {}
                }
            } else {
                // the entry reaches over the cut: it is not an End marker, it has the kind of the complete file's entry, so the
                // step does not fail; behind it there are only zero bytes
                if pos >= c { lemma_nothing_parses_in_the_zero_padding(torn, c, pos); }
                lemma_parse_tag(torn, pos); lemma_parse_tag(full, pos);
                assert(torn[pos] == full[pos]);
                if e2 is End { lemma_end_marker_lies_before_the_cut(torn, c, pos); }
                assert(!(e1 is End));
                assert(br_step(s, e1, p1) is Continue);
                lemma_step_by_kind(s, e1, e2, p1, q2);
                let s2 = br_step(s, e2, q2)->Continue_0;
                lemma_nothing_parses_in_the_zero_padding(torn, c, q2);
                assert(br_run(s, torn, pos) == br_run(s2, torn, q2));
                assert(br_run(s2, torn, q2) is End);
            }
        }
    }
}
pub open spec fn views_upto(bs: Seq<BatchW>, i: int, k: int) -> Seq<BatchV> { views_from(bs, i, k) }

/// L-TORN (C03): bs are the batches written; the file is cut at c, inside batch k (or exactly at its start), and continues
/// with zero bytes or nothing. Reading it yields the batches 0..k exactly and then ends quietly: no error, truncation at most
/// to the end of batch k-1 (the last complete one)
pub proof fn lemma_read_torn_journal(bs: Seq<BatchW>, i: int, k: int, c: int, torn: Seq<u8>, s0: u64, lvp: u64)
    requires journal_ok(bs), 0 <= i <= k < bs.len(),
        journal_bytes(bs, k).len() <= c < journal_bytes(bs, k + 1).len(),
        c <= torn.len() <= u64::MAX, zero_from(torn, c),
        forall|j: int| 0 <= j < c ==> torn[j] == journal_bytes(bs, bs.len() as int)[j],
    ensures ({
        let r = read_all(clean_state(s0, lvp), torn, journal_bytes(bs, i).len() as int);
        &&& r.0 == views_from(bs, i, k) // [C03:L-TORN-exactly-the-complete-batches-are-recovered]
        &&& ends_quietly(r.1, if i == k { lvp } else { journal_bytes(bs, k).len() as u64 }) // [C03:L-TORN-the-incomplete-batch-is-discarded-as-a-whole-without-an-error]
    }),
    decreases k - i,
{
    let n = bs.len() as int;
    let full = journal_bytes(bs, n);
    let pre = journal_bytes(bs, i);
    let pos = pre.len() as int;
    let s = clean_state(s0, lvp);
    let b = bs[i];
    let rest = lemma_journal_split(bs, i, n);
    lemma_journal_mono(bs, i + 1, n);
    lemma_journal_mono(bs, i, k); lemma_journal_mono(bs, k + 1, n); lemma_journal_mono(bs, i + 1, k + 1);
    assert(full =~= pre + enc_w(b) + rest);
    lemma_read_batch(b.seqno, b.ops, b.comp, b.thr, s0, lvp, pre, rest);
    let end = (pre.len() + enc_w(b).len()) as int;
    assert(end == journal_bytes(bs, i + 1).len());
    if i == k {
        // the complete file would emit batch k, ending behind the cut
        lemma_torn_batch_is_discarded(s, full, torn, pos, c);
    } else {
        // batch i is complete before the cut: read alike from both files
        assert(end <= journal_bytes(bs, k).len()) by { lemma_journal_mono(bs, i + 1, k); }
        lemma_batches_before_the_cut_are_recovered(s, full, torn, pos, c);
        lemma_read_torn_journal(bs, i + 1, k, c, torn, b.seqno, end as u64);
    }
}

/// ... and later appends to the repaired journal are recoverable again (C03): after the truncation to the end of batch k-1 the
/// file is the journal of the first k batches; what the writer appends to it makes it the journal of those batches plus
/// the new one, to which L-RT-JOURNAL applies
pub proof fn lemma_take_journal(bs: Seq<BatchW>, k: int, j: int)
    requires 0 <= j <= k <= bs.len(),
    ensures journal_bytes(bs.take(k), j) == journal_bytes(bs, j),
    decreases j,
{ if j > 0 { lemma_take_journal(bs, k, j - 1); assert(bs.take(k)[j - 1] == bs[j - 1]); } }
pub proof fn lemma_append_after_repair(bs: Seq<BatchW>, k: int, b: BatchW)
    requires 0 <= k <= bs.len(),
    ensures journal_bytes(bs.take(k).push(b), k + 1) == journal_bytes(bs, k) + enc_w(b), // [C03:L-TORN-appends-after-the-repair-form-a-journal-again]
{
    let bs2 = bs.take(k).push(b);
    lemma_take_journal(bs, k, k);
    assert(bs2.take(k) =~= bs.take(k));
    lemma_take_journal(bs2, k, k);
    assert(journal_bytes(bs2, k) == journal_bytes(bs2.take(k), k));
}

// ---- L-COVER for the operations (C15): the checksum input determines the operations. The batch reader recomputes the
// checksum over the re-encoded entries it has parsed (br_step: acc + enc_item / enc_clear) and emits only if it equals the
// stored one; so, as far as xxh3 separates byte strings (ASSUMED: collision freedom is not a theorem about a 64-bit hash),
// an emitted batch carries exactly the operations that were written -- altered keys or values are never emitted
pub open spec fn is_op_entry(e: EntryV) -> bool { (e is Item || e is Clear) && entry_ok(e) }
pub open spec fn concat_entries(es: Seq<EntryV>) -> Seq<u8> decreases es.len() {
    if es.len() == 0 { Seq::empty() } else { enc_entryv(es[0]) + concat_entries(es.skip(1)) }
}
pub proof fn lemma_entry_nonempty(e: EntryV) ensures enc_entryv(e).len() >= 9 { broadcast use byte_lemmas::group_le_len; }
/// a concatenation of encoded entries can be split in only one way (each entry announces its own length)
pub proof fn lemma_concat_entries_injective(es1: Seq<EntryV>, es2: Seq<EntryV>)
    requires forall|i: int| 0 <= i < es1.len() ==> is_op_entry(#[trigger] es1[i]), forall|i: int| 0 <= i < es2.len() ==> is_op_entry(#[trigger] es2[i]),
        concat_entries(es1) == concat_entries(es2),
    ensures es1 == es2, // [C15:L-COVER-the-checksum-input-determines-the-operations]
    decreases es1.len(),
{
    if es1.len() == 0 {
        if es2.len() > 0 { lemma_entry_nonempty(es2[0]); }
        assert(es1 =~= es2);
    } else if es2.len() == 0 {
        lemma_entry_nonempty(es1[0]);
    } else {
        let a = concat_entries(es1);
        let e1 = es1[0]; let e2 = es2[0];
        let r1 = concat_entries(es1.skip(1)); let r2 = concat_entries(es2.skip(1));
        assert(a =~= Seq::<u8>::empty() + enc_entryv(e1) + r1);
        assert(a =~= Seq::<u8>::empty() + enc_entryv(e2) + r2);
        lemma_parse_enc(e1, Seq::<u8>::empty(), r1);
        lemma_parse_enc(e2, Seq::<u8>::empty(), r2);
        assert(e1 == e2);
        assert(r1 =~= a.subrange(enc_entryv(e1).len() as int, a.len() as int));
        assert(r2 =~= a.subrange(enc_entryv(e2).len() as int, a.len() as int));
        assert forall|i: int| 0 <= i < es1.skip(1).len() implies is_op_entry(#[trigger] es1.skip(1)[i]) by { assert(es1.skip(1)[i] == es1[i + 1]); }
        assert forall|i: int| 0 <= i < es2.skip(1).len() implies is_op_entry(#[trigger] es2.skip(1)[i]) by { assert(es2.skip(1)[i] == es2[i + 1]); }
        lemma_concat_entries_injective(es1.skip(1), es2.skip(1));
        assert(es1 =~= seq![e1] + es1.skip(1));
        assert(es2 =~= seq![e2] + es2.skip(1));
    }
}
/// the writer's payload is such a concatenation (of the entries of its operations, in order)
pub open spec fn op_entries(ops: Seq<OpV>, n: int, comp: CompressionType, thr: usize) -> Seq<EntryV> { Seq::new(n as nat, |i: int| op_entry(ops[i], comp, thr)) }
pub proof fn lemma_concat_push(es: Seq<EntryV>, e: EntryV)
    ensures concat_entries(es.push(e)) == concat_entries(es) + enc_entryv(e),
    decreases es.len(),
{
    if es.len() == 0 {
        assert(es.push(e).skip(1) =~= Seq::<EntryV>::empty());
        assert(concat_entries(es.push(e)) =~= enc_entryv(e) + concat_entries(Seq::<EntryV>::empty()));
    } else {
        assert(es.push(e).skip(1) =~= es.skip(1).push(e));
        lemma_concat_push(es.skip(1), e);
        assert(concat_entries(es.push(e)) =~= concat_entries(es) + enc_entryv(e));
    }
}
pub proof fn lemma_payload_is_concat(ops: Seq<OpV>, n: int, comp: CompressionType, thr: usize)
    requires 0 <= n <= ops.len(),
    ensures payload(ops, n, comp, thr) == concat_entries(op_entries(ops, n, comp, thr)),
    decreases n,
{
    if n > 0 {
        lemma_payload_is_concat(ops, n - 1, comp, thr);
        assert(op_entries(ops, n, comp, thr) =~= op_entries(ops, n - 1, comp, thr).push(op_entry(ops[n - 1], comp, thr)));
        lemma_concat_push(op_entries(ops, n - 1, comp, thr), op_entry(ops[n - 1], comp, thr));
        assert(enc_entryv(op_entry(ops[n - 1], comp, thr)) == enc_op(ops[n - 1], comp, thr));
    } else {
        assert(op_entries(ops, 0, comp, thr) =~= Seq::<EntryV>::empty());
    }
}
/// L-COVER(ops): two written batches with the same checksum input carry the same operations
pub proof fn lemma_cover_ops(ops1: Seq<OpV>, ops2: Seq<OpV>, c1: CompressionType, t1: usize, c2: CompressionType, t2: usize)
    requires ops_ok(ops1, c1, t1), ops_ok(ops2, c2, t2),
        payload(ops1, ops1.len() as int, c1, t1) == payload(ops2, ops2.len() as int, c2, t2),
    ensures ops1 == ops2, // [C15:L-COVER-the-checksum-input-determines-the-operations]
{
    lemma_payload_is_concat(ops1, ops1.len() as int, c1, t1);
    lemma_payload_is_concat(ops2, ops2.len() as int, c2, t2);
    let es1 = op_entries(ops1, ops1.len() as int, c1, t1); let es2 = op_entries(ops2, ops2.len() as int, c2, t2);
    lemma_concat_entries_injective(es1, es2);
    assert(ops1.len() == ops2.len());
    assert forall|i: int| 0 <= i < ops1.len() implies ops1[i] == ops2[i] by {
        assert(es1[i] == es2[i]);
        assert(op_entry(ops1[i], c1, t1) == op_entry(ops2[i], c2, t2));
    }
    assert(ops1 =~= ops2);
}
