// ===== spec/batch_reader_spec.rs — the batch reader as a state machine over decoded entries =====
// Written from the C03/C15 statements: a batch is emitted only on an End marker that closes an open batch with
// the announced number of operations and a matching checksum over the re-encoded operations; anything else
// either stops the stream (truncating the file to the end of the last complete batch) or is a hard error.
pub struct ItemV { pub keyspace_id: u64, pub key: Seq<u8>, pub value: Seq<u8>, pub value_type: ValueType }
pub struct BatchV { pub seqno: u64, pub items: Seq<ItemV>, pub cleared: Seq<u64> }
pub struct BRState {
    pub in_batch: bool, pub counter: u32, pub seqno: u64,
    pub items: Seq<ItemV>, pub cleared: Seq<u64>, pub acc: Seq<u8>, pub last_valid_pos: u64,
}
pub enum Step { Continue(BRState), Emit(BatchV, BRState), Trunc, Fail(JournalRecoveryError) }

pub open spec fn br_step(s: BRState, e: EntryV, end: int) -> Step {
    match e {
        EntryV::Start { item_count, seqno } =>
            if s.in_batch { Step::Trunc }
            else { Step::Continue(BRState { in_batch: true, counter: item_count, seqno, ..s }) },
        EntryV::End(c) =>
            if s.counter > 0 { Step::Fail(JournalRecoveryError::InsufficientLength) }
            else if !s.in_batch { Step::Trunc }
            else if xxh3(s.acc) != c { Step::Fail(JournalRecoveryError::ChecksumMismatch) }
            else { Step::Emit(BatchV { seqno: s.seqno, items: s.items, cleared: s.cleared },
                              BRState { in_batch: false, counter: 0, seqno: s.seqno, items: Seq::empty(), cleared: Seq::empty(),
                                        acc: Seq::empty(), last_valid_pos: end as u64 }) },
        EntryV::Item { keyspace_id, key, value, value_type, compression } =>
            if !s.in_batch { Step::Trunc }
            else if s.counter == 0 { Step::Fail(JournalRecoveryError::TooManyItems) }
            else { Step::Continue(BRState { counter: (s.counter - 1) as u32,
                       items: s.items.push(ItemV { keyspace_id, key, value, value_type }),
                       acc: s.acc + enc_item(keyspace_id, key, value, value_type, compression), ..s }) },
        EntryV::Clear { keyspace_id } =>
            if !s.in_batch { Step::Trunc }
            else if s.counter == 0 { Step::Fail(JournalRecoveryError::TooManyItems) }
            else { Step::Continue(BRState { counter: (s.counter - 1) as u32,
                       cleared: s.cleared.push(keyspace_id), acc: s.acc + enc_clear(keyspace_id), ..s }) },
    }
}
pub enum Outcome { Batch(BatchV, BRState, int), End { truncate_to: Option<u64> }, Err(JournalRecoveryError) }

pub proof fn lemma_parse_advances(a: Seq<u8>, p: int)
    requires 0 <= p, parse_at(a, p) is Some,
    ensures p < parse_at(a, p)->Some_0.1 <= a.len(),
{}

/// what `JournalBatchReader::next` must return when reading `all` from `pos` in state `s` (no I/O faults)
pub open spec fn br_run(s: BRState, all: Seq<u8>, pos: int) -> Outcome
    decreases all.len() - pos
{
    if pos < 0 { Outcome::End { truncate_to: None } } else {
    match parse_at(all, pos) {
        None => Outcome::End { truncate_to: if s.in_batch { Some(s.last_valid_pos) } else { None } },
        Some((e, p2)) => {
            if p2 <= pos || p2 > all.len() { Outcome::End { truncate_to: None } } // impossible (lemma_parse_advances)
            else { match br_step(s, e, p2) {
                Step::Continue(s2) => br_run(s2, all, p2),
                Step::Emit(b, s2) => Outcome::Batch(b, s2, p2),
                Step::Trunc => Outcome::End { truncate_to: Some(s.last_valid_pos) },
                Step::Fail(err) => Outcome::Err(err),
            } }
        }
    } }
}

pub open spec fn item_view(i: ReadBatchItem) -> ItemV { ItemV { keyspace_id: i.keyspace_id, key: i.key@, value: i.value@, value_type: i.value_type } }
pub open spec fn items_view(v: Seq<ReadBatchItem>) -> Seq<ItemV> { Seq::new(v.len(), |i: int| item_view(v[i])) }
pub open spec fn batch_view(b: Batch) -> BatchV { BatchV { seqno: b.seqno, items: items_view(b.items@), cleared: b.cleared_keyspaces@ } }

impl JournalBatchReader {
    pub open spec fn state(&self) -> BRState {
        BRState { in_batch: self.is_in_batch, counter: self.batch_counter, seqno: self.batch_seqno,
                  items: items_view(self.items@), cleared: self.cleared_keyspaces@, acc: self.checksum_builder.acc@,
                  last_valid_pos: self.last_valid_pos }
    }
    pub open spec fn wf(&self) -> bool {
        self.reader.wf() && self.last_valid_pos <= self.reader.last_valid_pos
        && self.reader.last_valid_pos == self.reader.pos()
        && (!self.is_in_batch ==> self.batch_counter == 0 && self.items@.len() == 0 && self.cleared_keyspaces@.len() == 0 && self.checksum_builder.acc@.len() == 0)
    }
}
