// ===== spec/batch_reader_spec.rs — the batch reader as a state machine over decoded entries =====
// Written from the C03/C15 statements: a batch is emitted only on an End marker that closes an open batch with
// the announced number of operations and a matching checksum over the re-encoded operations; anything else
// either stops the stream (truncating the file to the end of the last complete batch) or is a hard error.
pub struct ItemV { pub keyspace_id: u64, pub key: Seq<u8>, pub value: Seq<u8>, pub value_type: ValueType }
pub struct BatchV { pub seqno: u64, pub items: Seq<ItemV>, pub cleared: Seq<u64> }
pub struct BRState {
    pub in_batch: bool, pub counter: u32, pub seqno: u64,
    pub items: Seq<ItemV>, pub cleared: Seq<u64>, pub acc: Seq<u8>, pub last_valid_pos: u64,
}
pub enum Step { Continue(BRState), Emit(BatchV, BRState), Trunc, Fail(JournalRecoveryError) }

pub open spec fn br_step(s: BRState, e: EntryV, end: int) -> Step {
    match e {
        EntryV::Start { item_count, seqno } =>
            if s.in_batch { Step::Trunc }
            else { Step::Continue(BRState { in_batch: true, counter: item_count, seqno, ..s }) },
        EntryV::End(c) =>
            if s.counter > 0 { Step::Fail(JournalRecoveryError::InsufficientLength) }
            else if !s.in_batch { Step::Trunc }
            else if xxh3(s.acc) != c { Step::Fail(JournalRecoveryError::ChecksumMismatch) }
            else { Step::Emit(BatchV { seqno: s.seqno, items: s.items, cleared: s.cleared },
                              BRState { in_batch: false, counter: 0, seqno: s.seqno, items: Seq::empty(), cleared: Seq::empty(),
                                        acc: Seq::empty(), last_valid_pos: end as u64 }) },
        EntryV::Item { keyspace_id, key, value, value_type, compression } =>
            if !s.in_batch { Step::Trunc }
            else if s.counter == 0 { Step::Fail(JournalRecoveryError::TooManyItems) }
            else { Step::Continue(BRState { counter: (s.counter - 1) as u32,
                       items: s.items.push(ItemV { keyspace_id, key, value, value_type }),
                       acc: s.acc + enc_item(keyspace_id, key, value, value_type, compression), ..s }) },
        EntryV::Clear { keyspace_id } =>
            if !s.in_batch { Step::Trunc }
            else if s.counter == 0 { Step::Fail(JournalRecoveryError::TooManyItems) }
            else { Step::Continue(BRState { counter: (s.counter - 1) as u32,
                       cleared: s.cleared.push(keyspace_id), acc: s.acc + enc_clear(keyspace_id), ..s }) },
    }
}
pub enum Outcome { Batch(BatchV, BRState, int), End { truncate_to: Option<u64> }, Err(JournalRecoveryError) }

pub proof fn lemma_parse_advances(a: Seq<u8>, p: int)
    requires 0 <= p, parse_at(a, p) is Some,
    ensures p < parse_at(a, p)->Some_0.1 <= a.len(),
{}

/// what `JournalBatchReader::next` must return when reading `all` from `pos` in state `s` (no I/O faults)
pub open spec fn br_run(s: BRState, all: Seq<u8>, pos: int) -> Outcome
    decreases all.len() - pos
{
    if pos < 0 { Outcome::End { truncate_to: None } } else {
    match parse_at(all, pos) {
        None => Outcome::End { truncate_to: if s.in_batch { Some(s.last_valid_pos) } else { None } },
        Some((e, p2)) => {
            if p2 <= pos || p2 > all.len() { Outcome::End { truncate_to: None } } // impossible (lemma_parse_advances)
            else { match br_step(s, e, p2) {
                Step::Continue(s2) => br_run(s2, all, p2),
                Step::Emit(b, s2) => Outcome::Batch(b, s2, p2),
                Step::Trunc => Outcome::End { truncate_to: Some(s.last_valid_pos) },
                Step::Fail(err) => Outcome::Err(err),
            } }
        }
    } }
}

pub open spec fn item_view(i: ReadBatchItem) -> ItemV { ItemV { keyspace_id: i.keyspace_id, key: i.key@, value: i.value@, value_type: i.value_type } }
pub open spec fn items_view(v: Seq<ReadBatchItem>) -> Seq<ItemV> { Seq::new(v.len(), |i: int| item_view(v[i])) }
pub open spec fn batch_view(b: Batch) -> BatchV { BatchV { seqno: b.seqno, items: items_view(b.items@), cleared: b.cleared_keyspaces@ } }

impl JournalBatchReader {
    pub open spec fn state(&self) -> BRState {
        BRState { in_batch: self.is_in_batch, counter: self.batch_counter, seqno: self.batch_seqno,
                  items: items_view(self.items@), cleared: self.cleared_keyspaces@, acc: self.checksum_builder.acc@,
                  last_valid_pos: self.last_valid_pos }
    }
    pub open spec fn wf(&self) -> bool {
        self.reader.wf() && self.last_valid_pos <= self.reader.last_valid_pos
        && self.reader.last_valid_pos == self.reader.pos()
        && (!self.is_in_batch ==> self.batch_counter == 0 && self.items@.len() == 0 && self.cleared_keyspaces@.len() == 0 && self.checksum_builder.acc@.len() == 0)
    }
}

// ---- L-TORN, mechanised part (C03): bytes at or after the cut are zero (preallocation / zero padding), and nothing
// made of zero bytes can complete a batch, because the End marker carries the non-zero trailer "FJL\x03"
pub open spec fn zero_from(a: Seq<u8>, c: int) -> bool { forall|i: int| c <= i < a.len() ==> #[trigger] a[i] == 0u8 }
pub proof fn lemma_end_marker_lies_before_the_cut(a: Seq<u8>, c: int, p: int)
    requires 0 <= p, 0 <= c, zero_from(a, c), parse_at(a, p) matches Some((EntryV::End(_), _)),
    ensures parse_at(a, p)->Some_0.1 == p + 13, p + 13 <= c, // [C03:L-TORN-an-End-marker-cannot-reach-into-the-zero-padding]
{
    // the last trailer byte (0x03) sits at p + 12; it is non-zero, hence before the cut
    assert(a[p] == 3u8);
    assert(a.subrange(p + 9, p + 13) == trailer());
    assert(a.subrange(p + 9, p + 13)[3] == a[p + 12]);
    assert(trailer()[3] == 3u8);
    if p + 12 >= c { assert(a[p + 12] == 0u8); }
}
/// whatever state the reader is in and wherever it stands: if it emits a batch, that batch ended before the cut.
/// (So a torn tail -- with or without zero padding -- can only ever be DISCARDED as a whole, never half-applied.)
pub proof fn lemma_no_batch_completes_in_the_zero_padding(s: BRState, a: Seq<u8>, pos: int, c: int)
    requires 0 <= c, zero_from(a, c), br_run(s, a, pos) is Batch,
    ensures br_run(s, a, pos)->Batch_2 <= c, // [C03:L-TORN-no-batch-completes-at-or-after-the-cut]
    decreases a.len() - pos,
{
    if pos >= 0 {
        match parse_at(a, pos) {
            None => {}
            Some((e, p2)) => {
                if !(p2 <= pos || p2 > a.len()) {
                    match br_step(s, e, p2) {
                        Step::Continue(s2) => { lemma_no_batch_completes_in_the_zero_padding(s2, a, p2, c); }
                        Step::Emit(b, s2) => { assert(e is End); lemma_end_marker_lies_before_the_cut(a, c, pos); }
                        _ => {}
                    }
                }
            }
        }
    }
}
/// parsing an entry looks only at the entry's own bytes: two files that agree up to `m` parse alike wherever the entry ends by `m`
pub proof fn lemma_parse_is_local(a: Seq<u8>, b: Seq<u8>, p: int, m: int)
    requires 0 <= p, parse_at(a, p) is Some, parse_at(a, p)->Some_0.1 <= m, m <= a.len(), m <= b.len(), forall|i: int| 0 <= i < m ==> a[i] == b[i],
    ensures parse_at(b, p) == parse_at(a, p), // [C03:L-TORN-entries-before-the-cut-parse-as-in-the-complete-file]
{
    let p2 = parse_at(a, p)->Some_0.1;
    assert(p + 1 <= a.len());
    assert forall|x: int, y: int| 0 <= x <= y <= m implies #[trigger] a.subrange(x, y) =~= b.subrange(x, y) by {}
    if a[p] == 1 { assert(a.subrange(p + 1, p + 5) == b.subrange(p + 1, p + 5)); assert(a.subrange(p + 5, p + 13) == b.subrange(p + 5, p + 13)); }
    else if a[p] == 3 { assert(a.subrange(p + 9, p + 13) == b.subrange(p + 9, p + 13)); assert(a.subrange(p + 1, p + 9) == b.subrange(p + 1, p + 9)); }
    else if a[p] == 4 { assert(a.subrange(p + 1, p + 9) == b.subrange(p + 1, p + 9)); }
    else if a[p] == 2 {
        assert(a.subrange(p + 11, p + 13) == b.subrange(p + 11, p + 13));
        assert(a.subrange(p + 13, p + 17) == b.subrange(p + 13, p + 17));
        assert(a.subrange(p + 17, p + 21) == b.subrange(p + 17, p + 21));
        assert(a.subrange(p + 3, p + 11) == b.subrange(p + 3, p + 11));
        let kl = de16(a.subrange(p + 11, p + 13)) as int; let dl = de32(a.subrange(p + 17, p + 21)) as int;
        assert(a.subrange(p + 21, p + 21 + kl) == b.subrange(p + 21, p + 21 + kl));
        assert(a.subrange(p + 21 + kl, p + 21 + kl + dl) == b.subrange(p + 21 + kl, p + 21 + kl + dl));
    }
}
/// L-TORN for the emitted batches: reading a torn copy (the complete file cut at `c`, then any bytes that are zero) from a
/// position both share, in the same state, a batch emitted from the COMPLETE file that ends by the cut is emitted identically from
/// the torn copy, at the same end position and in the same follow-up state
pub proof fn lemma_batches_before_the_cut_are_recovered(s: BRState, full: Seq<u8>, torn: Seq<u8>, pos: int, c: int)
    requires 0 <= pos, 0 <= c <= full.len(), c <= torn.len(), forall|i: int| 0 <= i < c ==> full[i] == torn[i],
        br_run(s, full, pos) is Batch, br_run(s, full, pos)->Batch_2 <= c,
    ensures br_run(s, torn, pos) == br_run(s, full, pos), // [C03:L-TORN-every-complete-batch-before-the-cut-is-recovered]
    decreases full.len() - pos,
{
    match parse_at(full, pos) {
        None => {}
        Some((e, p2)) => {
            if !(p2 <= pos || p2 > full.len()) {
                match br_step(s, e, p2) {
                    Step::Continue(s2) => {
                        // the batch ends by c and p2 is before that end
                        lemma_run_end_after(s2, full, p2);
                        lemma_parse_is_local(full, torn, pos, c);
                        lemma_batches_before_the_cut_are_recovered(s2, full, torn, p2, c);
                    }
                    Step::Emit(b, s2) => { lemma_parse_is_local(full, torn, pos, c); }
                    _ => {}
                }
            }
        }
    }
}
/// an emitted batch ends after the position the run started from
pub proof fn lemma_run_end_after(s: BRState, a: Seq<u8>, pos: int)
    requires 0 <= pos, br_run(s, a, pos) is Batch,
    ensures br_run(s, a, pos)->Batch_2 > pos,
    decreases a.len() - pos,
{
    match parse_at(a, pos) {
        None => {}
        Some((e, p2)) => {
            if !(p2 <= pos || p2 > a.len()) {
                match br_step(s, e, p2) { Step::Continue(s2) => { lemma_run_end_after(s2, a, p2); } _ => {} }
            }
        }
    }
}
