// ===== spec/writer_spec.rs — ghost vocabulary for journal::Writer =====
impl Writer {
    /// representation invariant (C09): pending user-space bytes imply the dirty flag
    pub open spec fn wf(&self) -> bool { self.is_buffer_dirty || self.file.buffered@.len() == 0 }
    pub open spec fn logical(&self) -> Seq<u8> { self.file.logical() }
    /// nothing but an append happened to the file; configuration untouched
    pub open spec fn appended(&self, o: &Writer) -> bool {
        file_write_frame(o.file, self.file) && o.file.logical().is_prefix_of(self.file.logical())
        && self.compression == o.compression && self.compression_threshold == o.compression_threshold
    }
}
