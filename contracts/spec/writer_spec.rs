// ===== spec/writer_spec.rs — ghost vocabulary for journal::Writer =====
impl Writer {
    /// representation invariant (C09): pending user-space bytes imply the dirty flag
    pub open spec fn wf(&self) -> bool { self.is_buffer_dirty || self.file.buffered@.len() == 0 }
    pub open spec fn logical(&self) -> Seq<u8> { self.file.logical() }
    /// nothing but an append happened to the file; configuration untouched
    pub open spec fn appended(&self, o: &Writer) -> bool {
        file_write_frame(o.file, self.file) && o.file.logical().is_prefix_of(self.file.logical())
        && self.compression == o.compression && self.compression_threshold == o.compression_threshold
    }
}
pub open spec fn item_op(it: Item) -> OpV {
    OpV::Item { keyspace_id: it.keyspace.id, key: it.key@, value: it.value@, value_type: it.value_type }
}
pub open spec fn ops_of(items: Seq<Item>) -> Seq<OpV> { Seq::new(items.len(), |i: int| item_op(items[i])) }
pub open spec fn within_limits(key: Seq<u8>, value: Seq<u8>) -> bool { key.len() <= 0xffff && value.len() <= 0xffff_ffff }
pub open spec fn items_within_limits(items: Seq<Item>) -> bool {
    forall|i: int| 0 <= i < items.len() ==> within_limits(#[trigger] items[i].key@, items[i].value@)
}
