// ===== spec/journal_format.rs — the journal format as mathematical functions (DESIGN.md section 4) =====
// Written from the property statements / format description, NOT from the encoder: the encoder and the
// decoder are both checked against these.
pub open spec fn tag_byte(t: Tag) -> u8 { match t { Tag::Start => 1, Tag::Item => 2, Tag::End => 3, Tag::Clear => 4 } }
pub open spec fn tag_of_byte(b: u8) -> Result<Tag, Error> {
    match b { 1u8 => Ok(Tag::Start), 2u8 => Ok(Tag::Item), 3u8 => Ok(Tag::End), 4u8 => Ok(Tag::Clear),
              _ => Err(Error::InvalidTag(("JournalMarkerTag", b))) }
}
pub open spec fn trailer() -> Seq<u8> { seq![70u8, 74u8, 76u8, 3u8] }   // "FJL\x03"
pub open spec fn enc_start(n: u32, s: u64) -> Seq<u8> { seq![1u8] + le32(n) + le64(s) }
pub open spec fn enc_end(c: u64) -> Seq<u8> { seq![3u8] + le64(c) + trailer() }
pub open spec fn enc_clear(id: u64) -> Seq<u8> { seq![4u8] + le64(id) }
pub open spec fn stored_value(value: Seq<u8>, c: CompressionType) -> Seq<u8> {
    match c { CompressionType::None => value, CompressionType::Lz4 => lz4_compress_spec(value) }
}
pub open spec fn enc_item(keyspace_id: u64, key: Seq<u8>, value: Seq<u8>, vt: ValueType, c: CompressionType) -> Seq<u8> {
    seq![2u8, vt_byte(vt)] + comp_bytes(c) + le64(keyspace_id) + le16(key.len() as u16) + le32(value.len() as u32)
      + le32(stored_value(value, c).len() as u32) + key + stored_value(value, c)
}
pub open spec fn enc_entry(e: Entry) -> Seq<u8> {
    match e {
        Entry::Start { item_count, seqno } => enc_start(item_count, seqno),
        Entry::Item { keyspace_id, key, value, value_type, compression } => enc_item(keyspace_id, key@, value@, value_type, compression),
        Entry::End(c) => enc_end(c),
        Entry::Clear { keyspace_id } => enc_clear(keyspace_id),
    }
}

// ---- decoding side: a total parse function on byte strings ----
pub enum EntryV {
    Start { item_count: u32, seqno: u64 },
    Item { keyspace_id: u64, key: Seq<u8>, value: Seq<u8>, value_type: ValueType, compression: CompressionType },
    End(u64),
    Clear { keyspace_id: u64 },
}
pub open spec fn entry_view(e: Entry) -> EntryV {
    match e {
        Entry::Start { item_count, seqno } => EntryV::Start { item_count, seqno },
        Entry::Item { keyspace_id, key, value, value_type, compression } =>
            EntryV::Item { keyspace_id, key: key@, value: value@, value_type, compression },
        Entry::End(c) => EntryV::End(c),
        Entry::Clear { keyspace_id } => EntryV::Clear { keyspace_id },
    }
}
pub open spec fn enc_entryv(e: EntryV) -> Seq<u8> {
    match e {
        EntryV::Start { item_count, seqno } => enc_start(item_count, seqno),
        EntryV::Item { keyspace_id, key, value, value_type, compression } => enc_item(keyspace_id, key, value, value_type, compression),
        EntryV::End(c) => enc_end(c),
        EntryV::Clear { keyspace_id } => enc_clear(keyspace_id),
    }
}
pub open spec fn vt_of_byte(b: u8) -> Option<ValueType> {
    match b { 0u8 => Some(ValueType::Value), 1u8 => Some(ValueType::Tombstone), 2u8 => Some(ValueType::WeakTombstone), 3u8 => Some(ValueType::Indirection), _ => None }
}
/// parse one entry of stream `a` at position `p`: Some((entry, position after it)) or None (undecodable here)
pub open spec fn parse_at(a: Seq<u8>, p: int) -> Option<(EntryV, int)> {
    if p + 1 > a.len() { None }
    else if a[p] == 1 {
        if p + 13 <= a.len() { Some((EntryV::Start { item_count: de32(a.subrange(p + 1, p + 5)), seqno: de64(a.subrange(p + 5, p + 13)) }, p + 13)) } else { None }
    } else if a[p] == 3 {
        if p + 13 <= a.len() && a.subrange(p + 9, p + 13) == trailer() { Some((EntryV::End(de64(a.subrange(p + 1, p + 9))), p + 13)) } else { None }
    } else if a[p] == 4 {
        if p + 9 <= a.len() { Some((EntryV::Clear { keyspace_id: de64(a.subrange(p + 1, p + 9)) }, p + 9)) } else { None }
    } else if a[p] == 2 {
        if p + 21 > a.len() { None }
        else if vt_of_byte(a[p + 1]) is None || comp_of_byte(a[p + 2]) is None { None }
        else {
            let kl = de16(a.subrange(p + 11, p + 13)) as int;
            let vl = de32(a.subrange(p + 13, p + 17)) as int;
            let dl = de32(a.subrange(p + 17, p + 21)) as int;
            if p + 21 + kl + dl > a.len() { None }
            else {
                let key = a.subrange(p + 21, p + 21 + kl);
                let stored = a.subrange(p + 21 + kl, p + 21 + kl + dl);
                let comp = comp_of_byte(a[p + 2])->Some_0;
                let value: Option<Seq<u8>> = match comp {
                    CompressionType::None => Some(stored),
                    CompressionType::Lz4 => match lz4_decompress_spec(stored) {
                        Some(d) => if d.len() == vl { Some(d) } else { None },
                        None => None,
                    },
                };
                match value {
                    Some(v) => Some((EntryV::Item { keyspace_id: de64(a.subrange(p + 3, p + 11)), key, value: v, value_type: vt_of_byte(a[p + 1])->Some_0, compression: comp }, p + 21 + kl + dl)),
                    None => None,
                }
            }
        }
    } else { None }
}
