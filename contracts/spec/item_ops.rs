// ===== spec/item_ops.rs — batch items as operations =====
pub open spec fn item_op(it: Item) -> OpV {
    OpV::Item { keyspace_id: it.keyspace.id, key: it.key@, value: it.value@, value_type: it.value_type }
}
pub open spec fn ops_of(items: Seq<Item>) -> Seq<OpV> { Seq::new(items.len(), |i: int| item_op(items[i])) }
pub open spec fn items_within_limits(items: Seq<Item>) -> bool {
    forall|i: int| 0 <= i < items.len() ==> within_limits(#[trigger] items[i].key@, items[i].value@)
}
