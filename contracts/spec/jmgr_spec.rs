// ===== spec/jmgr_spec.rs — ghost vocabulary for JournalManager =====
pub open spec fn wm_view(e: EvictionWatermark) -> WmG { WmG { ks: e.keyspace.id, lsn: e.lsn } }
pub open spec fn wms_view(v: Seq<EvictionWatermark>) -> Seq<WmG> { Seq::new(v.len(), |i: int| wm_view(v[i])) }
pub open spec fn item_view(it: Item) -> SealedG { SealedG { path: it.path.id@, wms: wms_view(it.watermarks@) } }
pub open spec fn items_view(v: Seq<Item>) -> Seq<SealedG> { Seq::new(v.len(), |i: int| item_view(v[i])) }
impl JournalManager {
    /// the manager's queue IS the registry of sealed journals (same files, same order, same watermarks), and every
    /// watermark's keyspace handle is well-formed
    pub open spec fn wf(&self, w: World) -> bool {
        &&& items_view(self.items@) == w.sealed
        &&& (forall|i: int| 0 <= i < w.sealed.len() ==> (#[trigger] w.sealed[i]).path != w.journal.path)   // the active journal is never in the queue
        &&& (forall|i: int, j: int| 0 <= i < self.items@.len() && 0 <= j < self.items@[i].watermarks@.len() ==>
                ks_wf(&(#[trigger] self.items@[i].watermarks@[j]).keyspace, w))
    }
}
pub open spec fn has_wm(s: Seq<EvictionWatermark>, ks: u64, lsn: u64) -> bool { exists|q: int| 0 <= q < s.len() && #[trigger] s[q].keyspace.id == ks && s[q].lsn == lsn }
pub open spec fn all_ks_wf(s: Seq<EvictionWatermark>, w: World) -> bool { forall|q: int| 0 <= q < s.len() ==> ks_wf(&(#[trigger] s[q]).keyspace, w) }
/// C10 linking invariant at sealing time: every keyspace that still exists and has data in a memtable (i.e. records in the journal
/// being sealed that are not yet in tables) has a watermark at its highest memtable seqno
pub open spec fn covers_all_memtables(s: Seq<EvictionWatermark>, w: World) -> bool {
    forall|k: u64| #![trigger w.trees[k]] w.trees.dom().contains(k) && w.deleted.dom().contains(k as int) && !w.deleted[k as int] && w.trees[k].mem_max is Some
        ==> has_wm(s, k, w.trees[k].mem_max->Some_0)
}
