// ===== spec/batch_format.rs — a batch on disk (DESIGN.md section 4) =====
pub open spec fn pick(comp: CompressionType, thr: usize, vlen: nat) -> CompressionType {
    if thr > 0 && vlen >= thr { comp } else { CompressionType::None }
}
pub open spec fn enc_op(op: OpV, comp: CompressionType, thr: usize) -> Seq<u8> {
    match op {
        OpV::Item { keyspace_id, key, value, value_type } => enc_item(keyspace_id, key, value, value_type, pick(comp, thr, value.len())),
        OpV::Clear { keyspace_id } => enc_clear(keyspace_id),
    }
}
pub open spec fn payload(ops: Seq<OpV>, n: int, comp: CompressionType, thr: usize) -> Seq<u8>
    decreases n
{
    if n <= 0 { Seq::empty() } else { payload(ops, n - 1, comp, thr) + enc_op(ops[n - 1], comp, thr) }
}
pub open spec fn enc_batch(seqno: u64, ops: Seq<OpV>, comp: CompressionType, thr: usize) -> Seq<u8> {
    enc_start(ops.len() as u32, seqno) + payload(ops, ops.len() as int, comp, thr)
      + enc_end(xxh3(payload(ops, ops.len() as int, comp, thr)))
}
pub proof fn lemma_payload_mono(ops: Seq<OpV>, i: int, j: int, comp: CompressionType, thr: usize)
    requires 0 <= i <= j,
    ensures payload(ops, i, comp, thr).len() <= payload(ops, j, comp, thr).len(),
            payload(ops, i, comp, thr).is_prefix_of(payload(ops, j, comp, thr)),
    decreases j - i
{
    if i < j {
        lemma_payload_mono(ops, i, j - 1, comp, thr);
        assert(payload(ops, j - 1, comp, thr).is_prefix_of(payload(ops, j, comp, thr)));
    }
}
