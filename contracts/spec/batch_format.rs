// ===== spec/batch_format.rs — a batch on disk (DESIGN.md section 4) =====
pub open spec fn pick(comp: CompressionType, thr: usize, vlen: nat) -> CompressionType {
    if thr > 0 && vlen >= thr { comp } else { CompressionType::None }
}
pub open spec fn enc_op(op: OpV, comp: CompressionType, thr: usize) -> Seq<u8> {
    match op {
        OpV::Item { keyspace_id, key, value, value_type } => enc_item(keyspace_id, key, value, value_type, pick(comp, thr, value.len())),
        OpV::Clear { keyspace_id } => enc_clear(keyspace_id),
    }
}
pub open spec fn payload(ops: Seq<OpV>, n: int, comp: CompressionType, thr: usize) -> Seq<u8>
    decreases n
{
    if n <= 0 { Seq::empty() } else { payload(ops, n - 1, comp, thr) + enc_op(ops[n - 1], comp, thr) }
}
pub open spec fn enc_batch(seqno: u64, ops: Seq<OpV>, comp: CompressionType, thr: usize) -> Seq<u8> {
    enc_start(ops.len() as u32, seqno) + payload(ops, ops.len() as int, comp, thr)
      + enc_end(xxh3(payload(ops, ops.len() as int, comp, thr)))
}
pub proof fn lemma_payload_mono(ops: Seq<OpV>, i: int, j: int, comp: CompressionType, thr: usize)
    requires 0 <= i <= j,
    ensures payload(ops, i, comp, thr).len() <= payload(ops, j, comp, thr).len(),
            payload(ops, i, comp, thr).is_prefix_of(payload(ops, j, comp, thr)),
    decreases j - i
{
    if i < j {
        lemma_payload_mono(ops, i, j - 1, comp, thr);
        assert(payload(ops, j - 1, comp, thr).is_prefix_of(payload(ops, j, comp, thr)));
    }
}
/// what the End marker's checksum of a batch is computed over: Writer::write_batch / write_raw / write_clear feed the hasher
/// exactly payload(ops) (their loop invariant `hasher.acc@ == payload(..)`, proved in U-WRITER), never the Start marker
pub open spec fn checksum_input(seqno: u64, ops: Seq<OpV>, comp: CompressionType, thr: usize) -> Seq<u8> { payload(ops, ops.len() as int, comp, thr) }
/// L-COVER (C15), per field: a field of a batch is protected against alteration only if the checksum input determines it.
/// For the batch's seqno this does NOT hold (finding D6): two batches that differ only in the seqno of the Start marker
/// carry the same checksum, so an altered seqno is read back as different data
pub proof fn lemma_cover_seqno(s1: u64, s2: u64, ops: Seq<OpV>, comp: CompressionType, thr: usize)
    requires s1 != s2,
    ensures checksum_input(s1, ops, comp, thr) != checksum_input(s2, ops, comp, thr), // [C15:L-COVER-seqno-covered-by-the-batch-checksum]
{}
