// ===== spec/policy_spec.rs — stored form of a policy: one count byte, then the entries; parser; PROVED round trip =====
pub enum ER<T> { Ok(T, int), Short, Bad }        // one entry parsed at a position: value and next position
pub enum PR<T> { Ok(Seq<T>), Short, Bad }        // whole policy
pub open spec fn enc_n<T>(ee: spec_fn(T) -> Seq<u8>, s: Seq<T>, n: int) -> Seq<u8> decreases n {
    if n <= 0 { Seq::empty() } else { enc_n(ee, s, n - 1) + ee(s[n - 1]) }
}
pub open spec fn enc_policy<T>(ee: spec_fn(T) -> Seq<u8>, s: Seq<T>) -> Seq<u8> { seq![s.len() as u8] + enc_n(ee, s, s.len() as int) }
pub open spec fn parse_n<T>(pe: spec_fn(Seq<u8>, int) -> ER<T>, b: Seq<u8>, pos: int, n: nat, acc: Seq<T>) -> PR<T> decreases n {
    if n == 0 { PR::Ok(acc) } else {
        match pe(b, pos) { ER::Ok(t, p) => parse_n(pe, b, p, (n - 1) as nat, acc.push(t)), ER::Short => PR::Short, ER::Bad => PR::Bad }
    }
}
pub open spec fn parse_policy<T>(pe: spec_fn(Seq<u8>, int) -> ER<T>, b: Seq<u8>) -> PR<T> {
    if b.len() < 1 { PR::Short } else { parse_n(pe, b, 1, b[0] as nat, Seq::empty()) }
}
/// one unfolding of the parser (n > 0)
pub proof fn lemma_parse_n_step<T>(pe: spec_fn(Seq<u8>, int) -> ER<T>, b: Seq<u8>, pos: int, n: nat, acc: Seq<T>)
    requires n > 0,
    ensures parse_n(pe, b, pos, n, acc) == (match pe(b, pos) { ER::Ok(t, p) => parse_n(pe, b, p, (n - 1) as nat, acc.push(t)), ER::Short => PR::<T>::Short, ER::Bad => PR::<T>::Bad }),
{}
/// lsm-tree's `Policy::new` panics on an empty vector: the count byte of a stored policy is never 0
pub open spec fn count_nonzero(b: Seq<u8>) -> bool { b.len() >= 1 ==> b[0] != 0 }
/// the result of a decode function against the parser: Ok exactly when the parser accepts, with the parsed entries
pub open spec fn decoded<T>(r: FjResult<PolicyVec<T>>, p: PR<T>) -> bool {
    (r is Ok <==> p is Ok) && (r is Ok ==> r->Ok_0@ == p->Ok_0)
}
/// the bytes are the stored form of SOME policy of 1..=255 entries (what the meta keyspace holds for a policy key)
pub open spec fn is_stored_policy<T>(ee: spec_fn(T) -> Seq<u8>, b: Seq<u8>) -> bool { exists|s: Seq<T>| stored_as(ee, s, b) }
pub open spec fn stored_as<T>(ee: spec_fn(T) -> Seq<u8>, s: Seq<T>, b: Seq<u8>) -> bool { 1 <= s.len() <= 255 && #[trigger] enc_policy(ee, s) == b }
/// C16 round trip, as the decode postcondition: whatever policy the bytes are the stored form of, decode returns it
pub open spec fn decodes_to_what_was_stored<T>(ee: spec_fn(T) -> Seq<u8>, b: Seq<u8>, r: FjResult<PolicyVec<T>>) -> bool {
    forall|s: Seq<T>| stored_as(ee, s, b) ==> r is Ok && r->Ok_0@ == s
}
// ---- entry codecs
pub open spec fn avail(b: Seq<u8>, p: int, n: int) -> bool { 0 <= p && p + n <= b.len() }
pub open spec fn ee_u32() -> spec_fn(u32) -> Seq<u8> { |x: u32| le32(x) }
pub open spec fn pe_u32() -> spec_fn(Seq<u8>, int) -> ER<u32> { |b: Seq<u8>, p: int| if avail(b, p, 4) { ER::Ok(de32(b.subrange(p, p + 4)), p + 4) } else { ER::Short } }
pub open spec fn ee_f32() -> spec_fn(f32) -> Seq<u8> { |x: f32| le32(f32_bits(x)) }
pub open spec fn pe_f32() -> spec_fn(Seq<u8>, int) -> ER<f32> { |b: Seq<u8>, p: int| if avail(b, p, 4) { ER::Ok(f32_of_bits(de32(b.subrange(p, p + 4))), p + 4) } else { ER::Short } }
pub open spec fn ee_u8() -> spec_fn(u8) -> Seq<u8> { |x: u8| seq![x] }
pub open spec fn pe_u8() -> spec_fn(Seq<u8>, int) -> ER<u8> { |b: Seq<u8>, p: int| if avail(b, p, 1) { ER::Ok(b[p], p + 1) } else { ER::Short } }
pub open spec fn ee_bool() -> spec_fn(bool) -> Seq<u8> { |x: bool| seq![if x { 1u8 } else { 0u8 }] }
pub open spec fn pe_bool() -> spec_fn(Seq<u8>, int) -> ER<bool> { |b: Seq<u8>, p: int| if avail(b, p, 1) { ER::Ok(b[p] == 1u8, p + 1) } else { ER::Short } }
pub open spec fn ee_comp() -> spec_fn(CompressionType) -> Seq<u8> { |x: CompressionType| comp_bytes(x) }
pub open spec fn pe_comp() -> spec_fn(Seq<u8>, int) -> ER<CompressionType> {
    |b: Seq<u8>, p: int| if !avail(b, p, 1) { ER::Short } else { match comp_of_byte(b[p]) { Some(c) => ER::Ok(c, p + 1), None => ER::Bad } }
}
pub open spec fn enc_filter_entry(e: FilterPolicyEntry) -> Seq<u8> {
    match e {
        FilterPolicyEntry::None => seq![0u8],
        FilterPolicyEntry::Bloom(BloomConstructionPolicy::BitsPerKey(x)) => seq![1u8, 0u8] + le32(f32_bits(x)),
        FilterPolicyEntry::Bloom(BloomConstructionPolicy::FalsePositiveRate(x)) => seq![1u8, 1u8] + le32(f32_bits(x)),
    }
}
pub open spec fn ee_filter() -> spec_fn(FilterPolicyEntry) -> Seq<u8> { |e: FilterPolicyEntry| enc_filter_entry(e) }
pub open spec fn parse_filter_entry(b: Seq<u8>, p: int) -> ER<FilterPolicyEntry> {
    if !avail(b, p, 1) { ER::Short }
    else if b[p] == 0u8 { ER::Ok(FilterPolicyEntry::None, p + 1) }
    else if b[p] == 1u8 {
        if !avail(b, p, 2) { ER::Short }
        else if b[p + 1] == 0u8 { if avail(b, p, 6) { ER::Ok(FilterPolicyEntry::Bloom(BloomConstructionPolicy::BitsPerKey(f32_of_bits(de32(b.subrange(p + 2, p + 6))))), p + 6) } else { ER::Short } }
        else if b[p + 1] == 1u8 { if avail(b, p, 6) { ER::Ok(FilterPolicyEntry::Bloom(BloomConstructionPolicy::FalsePositiveRate(f32_of_bits(de32(b.subrange(p + 2, p + 6))))), p + 6) } else { ER::Short } }
        else { ER::Bad }
    } else { ER::Bad }
}
pub open spec fn pe_filter() -> spec_fn(Seq<u8>, int) -> ER<FilterPolicyEntry> { |b: Seq<u8>, p: int| parse_filter_entry(b, p) }

// ---- round trip, generic in the entry codec: if parsing one entry undoes encoding one entry wherever it sits,
//      parsing a stored policy of 1..=255 entries yields exactly the entries
pub open spec fn entry_inverse<T>(ee: spec_fn(T) -> Seq<u8>, pe: spec_fn(Seq<u8>, int) -> ER<T>) -> bool {
    forall|t: T, b: Seq<u8>, p: int| 0 <= p && p + ee(t).len() <= b.len() && #[trigger] b.subrange(p, p + ee(t).len()) == ee(t) ==> pe(b, p) == ER::Ok(t, p + ee(t).len())
}
pub proof fn lemma_parse_enc_n<T>(ee: spec_fn(T) -> Seq<u8>, pe: spec_fn(Seq<u8>, int) -> ER<T>, s: Seq<T>, k: int, b: Seq<u8>)
    requires entry_inverse(ee, pe), 0 <= k <= s.len(), b == seq![s.len() as u8] + enc_n(ee, s, s.len() as int),
    ensures parse_n(pe, b, 1 + enc_n(ee, s, k).len() as int, (s.len() - k) as nat, s.subrange(0, k)) == PR::Ok(s),
    decreases s.len() - k,
{
    if k == s.len() {
        assert(s.subrange(0, k) =~= s);
    } else {
        let ek = enc_n(ee, s, k); let ek1 = enc_n(ee, s, k + 1); let x = ee(s[k]);
        let p: int = 1 + ek.len() as int;
        lemma_enc_n_prefix(ee, s, k + 1, s.len() as int);
        assert(ek1 == ek + x);
        let e = enc_n(ee, s, s.len() as int);
        assert(ek1.is_prefix_of(e));
        assert(ek1 =~= e.subrange(0, ek1.len() as int));
        assert forall|i: int| 0 <= i < x.len() implies b.subrange(p, p + x.len())[i] == x[i] by {
            assert(b[p + i] == e[ek.len() + i]);
            assert(e.subrange(0, ek1.len() as int)[ek.len() + i] == ek1[ek.len() + i]);
        }
        assert(b.subrange(p, p + x.len()) =~= x);
        assert(pe(b, p) == ER::Ok(s[k], p + x.len()));
        assert(p + x.len() == 1 + ek1.len());
        lemma_parse_enc_n(ee, pe, s, k + 1, b);
        assert(s.subrange(0, k).push(s[k]) =~= s.subrange(0, k + 1));
    }
}
pub proof fn lemma_enc_n_prefix<T>(ee: spec_fn(T) -> Seq<u8>, s: Seq<T>, k: int, n: int)
    requires 0 <= k <= n <= s.len(),
    ensures enc_n(ee, s, k).is_prefix_of(enc_n(ee, s, n)), enc_n(ee, s, k).len() <= enc_n(ee, s, n).len(),
    decreases n - k,
{
    if k < n { lemma_enc_n_prefix(ee, s, k, n - 1); }
}
/// where entry i sits in the stored form
pub proof fn lemma_enc_at<T>(ee: spec_fn(T) -> Seq<u8>, s: Seq<T>, i: int)
    requires 0 <= i < s.len(),
    ensures ({ let b = enc_policy(ee, s); let p = 1 + enc_n(ee, s, i).len() as int; let x = ee(s[i]);
        &&& b.len() >= 1 && b[0] == s.len() as u8
        &&& p + x.len() <= b.len() && b.subrange(p, p + x.len()) == x
        &&& enc_n(ee, s, i + 1).len() == enc_n(ee, s, i).len() + x.len()
        &&& forall|j: int| 0 <= j < x.len() ==> b[p + j] == x[j]
        &&& x.len() >= 1 ==> b[p] == x[0] }),
{
    let b = enc_policy(ee, s);
    let ek = enc_n(ee, s, i); let ek1 = enc_n(ee, s, i + 1); let x = ee(s[i]);
    let p: int = 1 + ek.len() as int;
    lemma_enc_n_prefix(ee, s, i + 1, s.len() as int);
    assert(ek1 == ek + x);
    let e = enc_n(ee, s, s.len() as int);
    assert(ek1 =~= e.subrange(0, ek1.len() as int));
    assert forall|j: int| 0 <= j < x.len() implies b[p + j] == x[j] by {
        assert(b[p + j] == e[ek.len() + j]);
        assert(e.subrange(0, ek1.len() as int)[ek.len() + j] == ek1[ek.len() + j]);
    }
    assert(b.subrange(p, p + x.len()) =~= x);
    if x.len() >= 1 { assert(b[p + 0] == x[0]); }
}
/// the stored form determines the policy (via the parser round trip)
pub proof fn lemma_stored_form_injective<T>(ee: spec_fn(T) -> Seq<u8>, pe: spec_fn(Seq<u8>, int) -> ER<T>, s1: Seq<T>, s2: Seq<T>)
    requires entry_inverse(ee, pe), 1 <= s1.len() <= 255, 1 <= s2.len() <= 255, enc_policy(ee, s1) == enc_policy(ee, s2),
    ensures s1 == s2,
{
    lemma_policy_roundtrip(ee, pe, s1); lemma_policy_roundtrip(ee, pe, s2);
}
/// C16: decode(encode(p)) == p for every policy of 1..=255 entries
pub proof fn lemma_policy_roundtrip<T>(ee: spec_fn(T) -> Seq<u8>, pe: spec_fn(Seq<u8>, int) -> ER<T>, s: Seq<T>)
    requires entry_inverse(ee, pe), 1 <= s.len() <= 255,
    ensures parse_policy(pe, enc_policy(ee, s)) == PR::Ok(s), count_nonzero(enc_policy(ee, s)), // [C16:policy-round-trip]
{
    let b = enc_policy(ee, s);
    lemma_parse_enc_n(ee, pe, s, 0, b);
    assert(s.subrange(0, 0) =~= Seq::<T>::empty());
    assert(b[0] == s.len() as u8);
}
pub proof fn lemma_sub_index(b: Seq<u8>, p: int, n: int, i: int)
    requires 0 <= p, p + n <= b.len(), 0 <= i < n,
    ensures b.subrange(p, p + n)[i] == b[p + i],
{}
pub proof fn lemma_filter_entry_inverse(t: FilterPolicyEntry, b: Seq<u8>, p: int)
    requires 0 <= p, p + enc_filter_entry(t).len() <= b.len(), b.subrange(p, p + enc_filter_entry(t).len()) == enc_filter_entry(t),
    ensures parse_filter_entry(b, p) == ER::Ok(t, p + enc_filter_entry(t).len()),
{
    broadcast use byte_lemmas::group_le_len, byte_lemmas::group_le_inverse, f32_axioms::f32_bits_inverse;
    let e = enc_filter_entry(t);
    match t {
        FilterPolicyEntry::None => { assert(e.len() == 1); lemma_sub_index(b, p, 1, 0); assert(e[0] == 0u8); assert(avail(b, p, 1)); }
        FilterPolicyEntry::Bloom(BloomConstructionPolicy::BitsPerKey(x)) => {
            let w = le32(f32_bits(x));
            byte_lemmas::lemma_le32_len(f32_bits(x)); byte_lemmas::lemma_de32_le32(f32_bits(x));
            assert(w.len() == 4);
            assert(e =~= seq![1u8, 0u8] + w);
            assert(e.len() == 6);
            lemma_sub_index(b, p, 6, 0); lemma_sub_index(b, p, 6, 1);
            assert(e[0] == 1u8 && e[1] == 0u8);
            assert(b[p] == 1u8 && b[p + 1] == 0u8);
            assert forall|i: int| 0 <= i < 4 implies b.subrange(p + 2, p + 6)[i] == w[i] by { lemma_sub_index(b, p, 6, i + 2); assert(e[i + 2] == w[i]); }
            assert(b.subrange(p + 2, p + 6) =~= w);
            assert(de32(w) == f32_bits(x));
            f32_axioms::f32_bits_inverse(x);
            assert(f32_of_bits(f32_bits(x)) == x);
            assert(avail(b, p, 1) && avail(b, p, 2) && avail(b, p, 6));
        }
        FilterPolicyEntry::Bloom(BloomConstructionPolicy::FalsePositiveRate(x)) => {
            let w = le32(f32_bits(x));
            byte_lemmas::lemma_le32_len(f32_bits(x)); byte_lemmas::lemma_de32_le32(f32_bits(x));
            assert(w.len() == 4);
            assert(e =~= seq![1u8, 1u8] + w);
            assert(e.len() == 6);
            lemma_sub_index(b, p, 6, 0); lemma_sub_index(b, p, 6, 1);
            assert(e[0] == 1u8 && e[1] == 1u8);
            assert(b[p] == 1u8 && b[p + 1] == 1u8);
            assert forall|i: int| 0 <= i < 4 implies b.subrange(p + 2, p + 6)[i] == w[i] by { lemma_sub_index(b, p, 6, i + 2); assert(e[i + 2] == w[i]); }
            assert(b.subrange(p + 2, p + 6) =~= w);
            assert(de32(w) == f32_bits(x));
            f32_axioms::f32_bits_inverse(x);
            assert(f32_of_bits(f32_bits(x)) == x);
            assert(avail(b, p, 1) && avail(b, p, 2) && avail(b, p, 6));
        }
    }
}
pub proof fn lemma_entry_inverses()
    ensures entry_inverse(ee_u32(), pe_u32()), entry_inverse(ee_f32(), pe_f32()), entry_inverse(ee_u8(), pe_u8()), // [C16:entry-codecs-inverse]
        entry_inverse(ee_bool(), pe_bool()), entry_inverse(ee_comp(), pe_comp()), entry_inverse(ee_filter(), pe_filter()),
{
    broadcast use byte_lemmas::group_le_len, byte_lemmas::group_le_inverse, f32_axioms::f32_bits_inverse;
    assert forall|t: FilterPolicyEntry, b: Seq<u8>, p: int| 0 <= p && p + ee_filter()(t).len() <= b.len() && #[trigger] b.subrange(p, p + ee_filter()(t).len()) == ee_filter()(t)
        implies pe_filter()(b, p) == ER::Ok(t, p + ee_filter()(t).len()) by { lemma_filter_entry_inverse(t, b, p); }
    assert forall|t: CompressionType, b: Seq<u8>, p: int| 0 <= p && p + ee_comp()(t).len() <= b.len() && #[trigger] b.subrange(p, p + ee_comp()(t).len()) == ee_comp()(t)
        implies pe_comp()(b, p) == ER::Ok(t, p + ee_comp()(t).len()) by { lemma_sub_index(b, p, 1, 0); }
    assert forall|t: bool, b: Seq<u8>, p: int| 0 <= p && p + ee_bool()(t).len() <= b.len() && #[trigger] b.subrange(p, p + ee_bool()(t).len()) == ee_bool()(t)
        implies pe_bool()(b, p) == ER::Ok(t, p + ee_bool()(t).len()) by { lemma_sub_index(b, p, 1, 0); }
    assert forall|t: u8, b: Seq<u8>, p: int| 0 <= p && p + ee_u8()(t).len() <= b.len() && #[trigger] b.subrange(p, p + ee_u8()(t).len()) == ee_u8()(t)
        implies pe_u8()(b, p) == ER::Ok(t, p + ee_u8()(t).len()) by { lemma_sub_index(b, p, 1, 0); }
}
/// C16, composed: for every policy value p (1..=255 entries) of each of the six policy types, the bytes produced by
/// `encode` (== enc_policy by its contract) satisfy `decode`'s no-panic preconditions and `decode` returns exactly p
pub proof fn lemma_c16_policy_roundtrips(a: Seq<u32>, c: Seq<CompressionType>, f: Seq<FilterPolicyEntry>, h: Seq<f32>, p: Seq<bool>, r: Seq<u8>)
    ensures
        1 <= a.len() <= 255 ==> parse_policy(pe_u32(), enc_policy(ee_u32(), a)) == PR::Ok(a) && count_nonzero(enc_policy(ee_u32(), a)), // [C16:block-size-round-trip]
        1 <= c.len() <= 255 ==> parse_policy(pe_comp(), enc_policy(ee_comp(), c)) == PR::Ok(c) && count_nonzero(enc_policy(ee_comp(), c)), // [C16:compression-round-trip]
        1 <= f.len() <= 255 ==> parse_policy(pe_filter(), enc_policy(ee_filter(), f)) == PR::Ok(f) && count_nonzero(enc_policy(ee_filter(), f)), // [C16:filter-round-trip]
        1 <= h.len() <= 255 ==> parse_policy(pe_f32(), enc_policy(ee_f32(), h)) == PR::Ok(h) && count_nonzero(enc_policy(ee_f32(), h)), // [C16:hash-ratio-round-trip]
        1 <= p.len() <= 255 ==> parse_policy(pe_bool(), enc_policy(ee_bool(), p)) == PR::Ok(p) && count_nonzero(enc_policy(ee_bool(), p)), // [C16:pinning-and-partitioning-round-trip]
        1 <= r.len() <= 255 ==> parse_policy(pe_u8(), enc_policy(ee_u8(), r)) == PR::Ok(r) && count_nonzero(enc_policy(ee_u8(), r)), // [C16:restart-interval-round-trip]
{
    lemma_entry_inverses();
    if 1 <= a.len() <= 255 { lemma_policy_roundtrip(ee_u32(), pe_u32(), a); }
    if 1 <= c.len() <= 255 { lemma_policy_roundtrip(ee_comp(), pe_comp(), c); }
    if 1 <= f.len() <= 255 { lemma_policy_roundtrip(ee_filter(), pe_filter(), f); }
    if 1 <= h.len() <= 255 { lemma_policy_roundtrip(ee_f32(), pe_f32(), h); }
    if 1 <= p.len() <= 255 { lemma_policy_roundtrip(ee_bool(), pe_bool(), p); }
    if 1 <= r.len() <= 255 { lemma_policy_roundtrip(ee_u8(), pe_u8(), r); }
}
/// what the bytes at `p` look like when they are the stored form of filter entry t
pub proof fn lemma_filter_entry_at(b: Seq<u8>, p: int, t: FilterPolicyEntry)
    requires 0 <= p, p + enc_filter_entry(t).len() <= b.len(), b.subrange(p, p + enc_filter_entry(t).len()) == enc_filter_entry(t),
    ensures parse_filter_entry(b, p) == ER::Ok(t, p + enc_filter_entry(t).len()),
        t is None ==> b[p] == 0u8 && enc_filter_entry(t).len() == 1,
        t is Bloom ==> b[p] == 1u8 && enc_filter_entry(t).len() == 6,
        t matches FilterPolicyEntry::Bloom(BloomConstructionPolicy::BitsPerKey(x)) ==> b[p + 1] == 0u8 && f32_of_bits(de32(b.subrange(p + 2, p + 6))) == x,
        t matches FilterPolicyEntry::Bloom(BloomConstructionPolicy::FalsePositiveRate(x)) ==> b[p + 1] == 1u8 && f32_of_bits(de32(b.subrange(p + 2, p + 6))) == x,
{
    lemma_filter_entry_inverse(t, b, p);
    let e = enc_filter_entry(t);
    match t {
        FilterPolicyEntry::None => { lemma_sub_index(b, p, 1, 0); }
        FilterPolicyEntry::Bloom(BloomConstructionPolicy::BitsPerKey(x)) => {
            byte_lemmas::lemma_le32_len(f32_bits(x));
            assert(e =~= seq![1u8, 0u8] + le32(f32_bits(x)));
            lemma_sub_index(b, p, 6, 0); lemma_sub_index(b, p, 6, 1);
        }
        FilterPolicyEntry::Bloom(BloomConstructionPolicy::FalsePositiveRate(x)) => {
            byte_lemmas::lemma_le32_len(f32_bits(x));
            assert(e =~= seq![1u8, 1u8] + le32(f32_bits(x)));
            lemma_sub_index(b, p, 6, 0); lemma_sub_index(b, p, 6, 1);
        }
    }
}
