// ===== spec/tracker_spec.rs — ghost vocabulary for SnapshotTracker / SnapshotNonce =====
pub open spec fn tracker_wf(t: &SnapshotTracker) -> bool {
    t.0.t.seqno.is_visible@ && t.0.t.freed_count.role@ == AtomicRole::FreedCount && t.0.t.lowest_freed_instant.role@ == AtomicRole::LowestFreed
}
/// everything of the world except the tracker and the visible seqno is untouched
pub open spec fn only_tracker(o: World, n: World) -> bool {
    n == (World { tracker: n.tracker, visible: n.visible, ..o }) && n.visible >= o.visible && (o.journal.locked ==> n.visible == o.visible)
}
pub open spec fn live_inc(l: Map<u64, nat>, i: u64) -> Map<u64, nat> { l.insert(i, l[i] + 1) }
pub open spec fn live_dec(l: Map<u64, nat>, i: u64) -> Map<u64, nat> { l.insert(i, (l[i] - 1) as nat) }
pub open spec fn tracker_wf_publish(t: &SnapshotTracker) -> bool { tracker_wf(t) }
